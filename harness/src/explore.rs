//! Generic level-synchronous parallel BFS over explicit states (DESIGN §2.2).
//!
//! A state is any `Clone + Send + Sync` value with a canonical key; `step(state, action_index,
//! acc)` applies one action on the real code, evaluates the invariant (pushing violations into
//! the per-thread accumulator) and returns the successor (or None when the action is disabled
//! or the successor is terminal). Successors are de-duplicated by a 128-bit hash of the key.
//! Exploration order and the visited set are deterministic (levels are merged in key order).

use crate::util::par_for;
use std::collections::{BTreeMap, HashSet};

pub fn key128(s: &str) -> u128 {
    let h = crate::util::hash_hex(s);
    u128::from_str_radix(&h, 16).unwrap_or(0)
}

#[derive(Default, Debug, Clone)]
pub struct BfsStats {
    pub states: u64,
    pub transitions: u64,
    pub disabled: u64,
    pub max_depth: u32,
    pub frontier_at_bound: u64,
    pub per_level_states: Vec<u64>,
    pub capped: bool,
}

pub struct Level<S, A> {
    pub succ: BTreeMap<u128, (u64, Option<S>)>,
    pub acc: A,
    pub transitions: u64,
    pub disabled: u64,
}

/// `n_actions(state)` is taken to be constant (`actions`): action index in `0..actions`.
pub fn bfs<S, A>(
    seeds: Vec<S>,
    key: impl Fn(&S) -> String + Sync,
    actions: u64,
    max_depth: u32,
    max_states: u64,
    init_acc: impl Fn() -> A + Sync,
    step: impl Fn(&S, u64, u32, &mut A) -> Option<S> + Sync,
    mut merge_acc: impl FnMut(A),
) -> BfsStats
where
    S: Clone + Send + Sync,
    A: Send,
{
    let mut stats = BfsStats::default();
    let mut seen: HashSet<u128> = HashSet::new();
    let mut frontier: Vec<S> = Vec::new();
    {
        let mut m: BTreeMap<u128, S> = BTreeMap::new();
        for s in seeds {
            m.entry(key128(&key(&s))).or_insert(s);
        }
        for (k, s) in m {
            seen.insert(k);
            frontier.push(s);
        }
    }
    stats.states = frontier.len() as u64;
    stats.per_level_states.push(stats.states);
    for depth in 0..max_depth {
        if frontier.is_empty() {
            break;
        }
        let n = frontier.len() as u64 * actions;
        let seen_ref = &seen;
        let frontier_ref = &frontier;
        let levels = par_for(
            n,
            64,
            || Level { succ: BTreeMap::new(), acc: init_acc(), transitions: 0, disabled: 0 },
            |i, lvl: &mut Level<S, A>| {
                let s = &frontier_ref[(i / actions) as usize];
                let a = i % actions;
                match step(s, a, depth, &mut lvl.acc) {
                    Some(nxt) => {
                        lvl.transitions += 1;
                        let k = key128(&key(&nxt));
                        // successors of the last level are only counted, never expanded: drop them
                        let nxt = if depth + 1 < max_depth { Some(nxt) } else { None };
                        if !seen_ref.contains(&k) {
                            // keep the representative with the smallest (state, action) rank so the
                            // retained trace does not depend on thread scheduling
                            match lvl.succ.entry(k) {
                                std::collections::btree_map::Entry::Vacant(e) => {
                                    e.insert((i, nxt));
                                }
                                std::collections::btree_map::Entry::Occupied(mut e) => {
                                    if e.get().0 > i {
                                        e.insert((i, nxt));
                                    }
                                }
                            }
                        }
                    }
                    None => lvl.disabled += 1,
                }
            },
        );
        let mut merged: BTreeMap<u128, (u64, Option<S>)> = BTreeMap::new();
        for lvl in levels {
            stats.transitions += lvl.transitions;
            stats.disabled += lvl.disabled;
            merge_acc(lvl.acc);
            for (k, (rank, s)) in lvl.succ {
                match merged.entry(k) {
                    std::collections::btree_map::Entry::Vacant(e) => {
                        e.insert((rank, s));
                    }
                    std::collections::btree_map::Entry::Occupied(mut e) => {
                        if e.get().0 > rank {
                            e.insert((rank, s));
                        }
                    }
                }
            }
        }
        stats.max_depth = depth + 1;
        let mut next = Vec::with_capacity(merged.len());
        let mut ranked: Vec<(u64, u128, Option<S>)> = merged.into_iter().map(|(k, (r, s))| (r, k, s)).collect();
        ranked.sort_by_key(|x| x.0);
        let mut new_states = 0u64;
        for (_, k, s) in ranked {
            if seen.insert(k) {
                new_states += 1;
                if let Some(s) = s {
                    next.push(s);
                }
            }
        }
        stats.states += new_states;
        stats.per_level_states.push(new_states);
        stats.frontier_at_bound = new_states;
        frontier = next;
        if stats.states > max_states {
            stats.capped = true;
            break;
        }
    }
    stats
}
