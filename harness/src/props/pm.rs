//! Product machine (DESIGN §3.1): explicit-state BFS over (compile-time TypeState × runtime
//! variables × event × metadata). A transition compiles ONE statement with `compile_with_state`
//! under the current type state and runs it on the current runtime state; the whole statement
//! path is also compiled in one piece (`compile_with_external`) and run from the initial event.
//! Invariants for C01, C02, C12, C16 (and panics for C04) are evaluated on every transition,
//! on both the step-wise and the whole-program view.

use crate::explore;
use crate::model::member::{why_not};
use crate::report::{Report, Tier, Violation};
use crate::target::{LoggingTarget, OpKind};
use crate::util::guarded;
use crate::vrlx::{self, Outcome};
use crate::vv;
use serde_json::{Value as J, json};
use std::collections::{BTreeMap, BTreeSet};
use std::sync::Arc;
use vrl::compiler::state::{ExternalEnv, RuntimeState, TypeState};
use vrl::compiler::{CompileConfig, Program, TypeDef};
use vrl::parser::ast::Ident;
use vrl::path::{OwnedTargetPath, PathPrefix};
use vrl::value::kind::Collection;
use vrl::value::{Kind, Value};

/// When false (C02's pass) exploration continues past transitions on which a state invariant of
/// C01/C12 failed: the runtime failures such corrupted states lead to are exactly what C02 forbids.
static CUT_AFTER_STATE_VIOLATION: std::sync::atomic::AtomicBool = std::sync::atomic::AtomicBool::new(true);

thread_local! {
    static FNS: Vec<Box<dyn vrl::compiler::Function>> = vrlx::fns();
}

// ---------------------------------------------------------------------------------------------
// Configurations

pub struct Cfg {
    pub name: &'static str,
    pub target: Kind,
    pub metadata: Kind,
    pub events: Vec<(Value, Value)>,
}

fn obj_kind(fields: &[(&str, Kind)], unknown: Option<Kind>) -> Kind {
    let mut c: Collection<vrl::value::kind::Field> = Collection::empty();
    for (k, v) in fields {
        c = c.with_known(*k, v.clone());
    }
    if let Some(u) = unknown {
        c.set_unknown(u);
    }
    Kind::object(c)
}

pub fn configs(tier: Tier) -> Vec<Cfg> {
    use vv::{arr, i, obj, s};
    let t = Value::Boolean(true);
    let f = Value::Boolean(false);
    let m0 = obj(&[]);
    let m1 = obj(&[("m", s("meta"))]);
    let any_obj = Kind::object(Collection::any());
    let mut out = Vec::new();
    let mut default_events = vec![
        (obj(&[]), m0.clone()),
        (obj(&[("a", i(1))]), m0.clone()),
        (obj(&[("a", s("s"))]), m1.clone()),
        (obj(&[("a", Value::Null)]), m0.clone()),
        (obj(&[("a", arr(&[i(1), s("s"), t.clone()]))]), m0.clone()),
        (obj(&[("a", obj(&[("b", i(2))]))]), m0.clone()),
        (obj(&[("a", s("5")), ("c", t.clone())]), m1.clone()),
        (obj(&[("a", arr(&[i(1)])), ("c", f.clone())]), m0.clone()),
        (obj(&[("a", i(0)), ("c", t.clone()), ("b", s("bb"))]), m0.clone()),
    ];
    if tier.thorough() {
        default_events.push((obj(&[("a", t.clone()), ("c", t.clone())]), m0.clone()));
        default_events.push((obj(&[("a", obj(&[("b", arr(&[i(1), i(2)]))])), ("c", t.clone())]), m1.clone()));
        default_events.push((obj(&[("a", arr(&[])), ("c", t.clone())]), m0.clone()));
        default_events.push((obj(&[("a", vv::f(2.5))]), m0.clone()));
    }
    out.push(Cfg { name: "default(object any)", target: any_obj.clone(), metadata: any_obj.clone(), events: default_events });
    out.push(Cfg {
        name: ".a: integer, .c: boolean (closed)",
        target: obj_kind(&[("a", Kind::integer()), ("c", Kind::boolean())], None),
        metadata: any_obj.clone(),
        events: vec![
            (obj(&[("a", i(0)), ("c", t.clone())]), m0.clone()),
            (obj(&[("a", i(1)), ("c", f.clone())]), m0.clone()),
            (obj(&[("a", i(-5)), ("c", t.clone())]), m1.clone()),
        ],
    });
    out.push(Cfg {
        name: ".a: bytes|null, rest any",
        target: obj_kind(&[("a", Kind::bytes().or_null())], Some(Kind::any())),
        metadata: any_obj.clone(),
        events: vec![
            (obj(&[("a", s("5")), ("c", t.clone())]), m0.clone()),
            (obj(&[("a", Value::Null)]), m0.clone()),
            (obj(&[("a", s("x")), ("c", f.clone())]), m1.clone()),
        ],
    });
    out.push(Cfg {
        name: ".a: array<integer>, .c: boolean|undefined",
        target: obj_kind(
            &[("a", Kind::array(Collection::from_unknown(Kind::integer()))), ("c", Kind::boolean().or_undefined())],
            None,
        ),
        metadata: any_obj.clone(),
        events: vec![
            (obj(&[("a", arr(&[]))]), m0.clone()),
            (obj(&[("a", arr(&[i(1)])), ("c", t.clone())]), m0.clone()),
            (obj(&[("a", arr(&[i(1), i(2), i(3)])), ("c", f.clone())]), m0.clone()),
        ],
    });
    out.push(Cfg {
        name: ".a: {b: integer} exact, .c: boolean",
        target: obj_kind(&[("a", obj_kind(&[("b", Kind::integer())], None)), ("c", Kind::boolean())], None),
        metadata: any_obj.clone(),
        events: vec![
            (obj(&[("a", obj(&[("b", i(2))])), ("c", t.clone())]), m0.clone()),
            (obj(&[("a", obj(&[("b", i(0))])), ("c", f.clone())]), m1.clone()),
        ],
    });
    out.push(Cfg {
        name: ".a: [integer, bytes, boolean] exact tuple | .c boolean",
        target: obj_kind(
            &[
                (
                    "a",
                    Kind::array(
                        Collection::empty()
                            .with_known(0usize, Kind::integer())
                            .with_known(1usize, Kind::bytes())
                            .with_known(2usize, Kind::boolean()),
                    ),
                ),
                ("c", Kind::boolean()),
            ],
            None,
        ),
        metadata: any_obj,
        events: vec![
            (obj(&[("a", arr(&[i(1), s("s"), t.clone()])), ("c", t.clone())]), m0.clone()),
            (obj(&[("a", arr(&[i(0), s(""), f.clone()])), ("c", f.clone())]), m0.clone()),
        ],
    });
    out
}

// ---------------------------------------------------------------------------------------------
// Statement alphabet

/// Set while C16 runs: extra statements that only matter for the reported queries / assignments (C16 has no
/// known-finding lists, so its alphabet can grow without regenerating the lists of C01/C02/C12).
pub static EXTRA_FOR_C16: std::sync::atomic::AtomicBool = std::sync::atomic::AtomicBool::new(false);

pub fn stmts(tier: Tier) -> Vec<String> {
    let mut v: Vec<String> = Vec::new();
    let mut add = |s: &str| v.push(s.to_string());
    let vals = ["1", "0", "\"s\"", "true", "null", "2.5", "[1, \"s\"]", "{\"b\": 1}"];
    for x in vals {
        add(&format!("x = {x}"));
    }
    for x in vals {
        add(&format!(".a = {x}"));
    }
    for s in [
        ".b = 1", ".b = \"s\"", ".b = null", ".a.b = 1", ".a[0] = 1", ".a[1] = \"s\"", ".a[-1] = true", ".a[-3] = 1", ".a[3] = 0",
        "%m = \"s\"", "%m.k = 1", "x.b = 2", "x[0] = \"z\"", "x[-1] = 0", "x[2] = 1", "x[-3] = 1", "y = [1, \"s\", true]", "y = {\"a\": 2}",
        "y = 5", "y = \"ab\"",
        // copies
        "x = .a", "y = x", ".b = x", ".b = .a", "x = .a[1]", "x = .a[0]", "x = .a.b", ".b = .a[1]", ".b = .a[-1]", ".b = .a[2]", "x = %m", "x = .",
        "x = x.b", "x = x[0]", "x = x[1]", "x = y[1]", "x = y.a",
        // the same path under the event and the metadata prefix
        "x = %a", ".b = %a", "%a = 1", ".m = %m", "x = [.m, %m]", "%b = .b",
        // conditional re-assignment starting from a closed empty container
        "x = {}", "x = []", "if .c == true { x = {\"a\": \"s\"} }", "if .c == true { x = [\"s\"] }", "y = upcase(x.a)", "y = x.a", "y = upcase(x[0])",
        // root / merge
        ". = {\"a\": [1, \"s\", true]}", ". = {}", ". |= {\"b\": 2}", "x |= {\"c\": 1}", ". |= {\"a\": {\"k\": 1}}", ". = x", ".a |= {\"q\": 1}",
        // short-circuit with side effects
        "x = .a || 7", "x = (.a == 1 && { y = \"s\"; true })", "x = (.a == 1 || { y = 2; false })", "x = (.c == true && { .b = 9; true })",
        "x = null || { y = 1; \"r\" }", "x = true || { y = 1; \"r\" }", "x = false && { y = 1; true }",
        // a skippable right operand that RE-TYPES an existing variable, and consumers that are infallible for one type only
        "z = (.c == true && { x = \"s\"; true })", "z = (.c == true || { x = \"s\"; true })", "z = (to_int(.a) ?? { x = \"s\"; 0 })", "y = upcase(x)", "y = x + 1", "y = downcase(y)",
        // error handling
        "x = to_int(.a) ?? \"d\"", "x, err = to_int(.a)", ".b, err = to_int(.a)", "x = to_int(.a) ?? to_int(.b) ?? 0", "x = (10 / .a) ?? 0",
        "x, err = 10 / .a", "x.q, err = to_int(.a)", "x = string(.a) ?? 7", "x = array(.a) ?? 7", "x = object(.a) ?? 7", "x = int(.a) ?? null",
        // infallible assignment whose right side has several possible kinds (the default is then null)
        "x, err = .a * 2", "x, err = .a + .b", ".b, err = .a - 1", "x, err = .a * .b",
        // an operand that re-assigns a variable used by a LATER operand of the same expression
        "y = { x = 0; 10 } / x", "y = (x = 0) / x", "y = { x = x - 1; 10 } / x", "y = { x = \"s\"; 1 } + x", "y = [{ x = null; 1 }, x][1]", "y = { x = false; true } && x",
        "y = (x = null) || x", "y = { x = {\"b\": 0}; 1 } / x.b", "y = {\"k\": { x = 7; 1 }, \"j\": x}.j",
        // conditionals
        "if .c == true { x = 1 } else { x = \"s\" }", "if .c == true { x = 1 }", "if .c == true { .a = 1 }",
        "if .c == true { .a = \"s\" } else { del(.a) }", "if .c == true { y = [1] } else { y = {\"a\": \"s\"} }", "x = if .c == true { 1 } else { \"s\" }",
        "x = if .c == true { 1 }", "if .c == true { x = null } else if .a == 1 { x = 2.5 }", "if .c == true { x.b = \"n\" }",
        "if .c == true { . = {\"z\": 1} }", "if .c == true { del(.a[0]) }", "if .c == true { .a[-1] = null }", "if is_string(.a) { x = .a } else { x = 0 }",
        "if .c == true { y = x } else { y = .a }",
        // an assignment used as a sub-expression of a composite whose other children read the same variable
        "y = [x, (x = 4)]", "y = 10 / ((x = 0) + x)", "y = {\"k\": x, \"j\": (x = \"n\")}", "y = [x, (x = 4)][0]", "y = (x = 2) * x", "y = [(x = 0), x, (x = 7)]",
        // diverging expressions that touch the target themselves, inside nested blocks
        "if .c == true { return .a }", "if .c == true { .b = 1; return .b }", "if .c == true { return . } else { .b = 2; return .b }", "if .c == true { { .b = 1; return %m } }",
        "for_each([1]) -> |_i, _v| { if .c == true { return .a } }", "x = (.c == true || { return .b })",
        // predicates that are blocks with assignments of their own, overwritten (or not) by the branch
        "if (x = \"s\"; .c == true) { x = 1 }", "if (.b = \"p\"; .c == true) { .b = 1 }", "y = if (x = 1; .c == true) { x = \"t\"; 2 }", "if (x = [1]; .c == true) { x = {} } else { y = x }",
        "if (x = null; .c != true) { x = 2.5 } else if (y = 0; .a == 1) { y = \"e\" }",
        // blocks
        "{ x = 2; y = \"t\" }", "y = { x = \"blk\"; 3 }", "{ x = .a; .b = x }", "x = { .a = 3; .a }",
        // deletes
        "del(.a)", "del(.a[0])", "del(.a[1])", "del(.a[-1])", "del(.a[-2])", "del(.a.b)", "del(.a.b, compact: true)", "del(.b)", "del(x.b)", "del(x[0])",
        "del(x[-1])", "del(y.a)", "del(y[0])", "del(y[1])", "del(.)", "del(%m)", "x = del(.a)", "x = del(.a[0])", "x = del(y[0])", "x = del(x.b)",
        "del(.a[0], compact: true)", "del(%m.k)",
        // container literals and queries on them
        "x = {\"a\": 1}.a", "x = [1, 2][0]", "x = [1, \"s\"][-1]", "x = [1][5]", "x = {\"a\": .a}", "x = [.a, x]", "x = {\"a\": {\"b\": [x]}}.a.b[0]",
        // closures
        "for_each(x) -> |_i, v| { y = v }", "for_each([1]) -> |_i, _v| { x = 0 }", "for_each({\"a\": 1}) -> |k, _v| { y = k }",
        "x = map_values({\"a\": 1, \"b\": \"s\"}) -> |v| { v }", "y = filter([1, \"s\", null]) -> |_i, v| { v != null }",
        "x = map_keys({\"a\": 1}) -> |k| { upcase(k) }", "for_each(.a) -> |_i, v| { .b = v }", "x = map_values(x) -> |v| { y = v; 1 }",
        "for_each([1, 2]) -> |_i, v| { x = v; x = \"s\" }", "y = filter(x) -> |_k, v| { v == 1 }", "for_each(y) -> |_i, v| { x = v }",
        "for_each([1]) -> |_i, _v| { .a = \"cl\" }", "for_each([1]) -> |_i, _v| { del(.a) }", "for_each([]) -> |_i, _v| { x = \"never\" }",
        "x = map_values(.a) -> |v| { to_string(v) ?? \"\" }", "for_each({}) -> |_k, _v| { .b = 1 }",
        // arithmetic on variables / constant consumers
        "x = x + 1", "y = 10 / x", "y = 10 / x.b", "y = x || .s", "y = x && true", "y = x * 2", "y = \"a\" + x", "y = 5 / y", "y = 10 / y.a",
        "y = 10 / y[0]", "y = starts_with(\"sab\", x)", "y = x == 1", "y = x - 1", "y = 7 % x", "x = 10 / .a", "y = (10 / x) ?? -1",
        // return / abort
        "if .c == true { return x }", "if .c == true { return 9 }", "return .a", "if .c == true { abort }", "if .c != true { return [1] }",
        "if .c == true { .a = 1; return 1 }", "if .c == true { x = \"r\"; return x }",
        // stdlib
        "x = upcase(string!(.a))", "x = upcase(.a)", "x = length(.a)", "y = string(x) ?? \"no\"", "x = to_string(.a) ?? \"\"", "x = parse_json!(.a).b",
        "x = parse_json(.a) ?? {}", "x = keys(.a)", "x = push(.a, 1)", "x = push(x, .a)", "x = append(x, [1])", "x = get(., [\"a\"]) ?? null", "x = exists(.a)", "x = is_string(.a)",
        "x = merge({\"a\": 1}, {\"b\": \"s\"})", "x = merge(x, {\"z\": 1})", "x = compact(.a)", "x = flatten(.a)", "x = unnest(.a)", ". = unnest(.a)",
        "x = set!(value: {}, path: [\"a\"], data: 1)", "x = remove!(value: x, path: [\"b\"])", "x = encode_json(.a)", "x = slice(.a, 1) ?? null",
        "x = to_int(x) ?? 0", "x = values(x)", "x = unique(x)", "x = length(x)", "x = join(x) ?? \"\"", "x = split(\"a,b\", \",\")", "x = split(\"a,b\", \",\")[1]",
        "x = parse_key_value(\"a=1\") ?? {}", "x = object!(.a)", "x = array!(.a)", "x = .a[0] || .a.b", "x = object_from_array([[\"k\", 1]]) ?? {}",
        "x = zip([1, 2], [\"a\"])", "x = chunks(\"abcd\", 2)", "x = match_array([\"a\"], r'a')", "x = tally([\"a\", \"a\"])", "x = type_def(.a)",
        // wave 9: type state across diverging branches, failing left operands, negation, call arguments
        "if .c == true { x = 1 } else { abort }", "if .c == true { x = \"s\"; abort }", "if .c == true { x = \"s\" } else if .a == 1 { abort } else { x = 1 }",
        "if .c == true { x = {\"a\": 1}; return x } else { x = [1] }", "z = ({ x = \"s\"; to_int(.a) } ?? 0)", "z = ({ x = \"s\"; to_int(.a) } ?? { x = 1; 0 })",
        "z, err = { x = \"s\"; to_int(.a) }", "x, err = { x = \"s\"; to_int(.a) }", "z = !{ x = \"s\"; .c == true }", "z = !(x = false)",
        "y = upcase((x = \"s\"))", "y = push([(x = 1)], x)", "y = to_string((x = 2)) + to_string(x)", "x = (x = 1) + 1", "y = if .c == true { x = 1; x } else { x = \"s\"; 0 }",
        "x = if .c == true { 1 } else if .a == 1 { \"s\" }", "x = { y = \"s\"; if .c == true { y = 1 }; y }", "z = (to_int(.a) ?? to_int(.b) ?? { x = null; 0 })",
        "z = (.c == true && (x = true))", "z = (.a ?? { x = \"never\"; 0 })",
        // consumers that are only accepted when the operand types make them infallible (normally rejected
        // under `any`: a checker that wrongly accepts them is caught by the run)
        "y = x < 1", "y = x >= .a", "y = .a > .b", "y = !x", "y = x | {\"m\": 1}", "if x { y = 1 }", "if .a { y = 1 } else { y = \"s\" }",
        // metadata written on one of two alternative paths (the merged type state must union the metadata kinds)
        "if .c == true { %m = 1 } else { %m = \"s\" }", "if .c == true { %m = 1 }", "%m = \"s\"", "if .c != true { %m.k = [1] } else { %m = {} }",
        "z = (.c == true && { %m = 2.5; true })", "z = (to_int(.a) ?? { %m = null; 0 })", "z = (.c == true || { %k = \"s\"; true })", "x = %m", "y = [%m, %k]",
        "y = \"t{{ x }}\"", "y = x <= \"a\"", "y = x != null && x", "y = x > 0 || x < 0", "y = [x < 1, x * 2]", "y = x.b + 1", "y = x[0] - 1",
    ] {
        add(s);
    }
    if EXTRA_FOR_C16.load(std::sync::atomic::Ordering::Relaxed) {
        // `ok, err =` whose two targets have the SAME value path under different roots
        for s in [".b, %b = to_int(.a)", "%k, .k = to_int(.a)", "x.b, .b = to_int(.a)", ".a.b, %a.b = to_int(.c)", "x, .x = to_int(.a)", "%m, x = to_int(.a)", ".b, %b = 10 / .a", "%b, .b = { .k = 1; to_int(.a) }"] {
            add(s);
        }
    }
    if tier.thorough() {
        for s in [
            ".a.b.c = 1", ".a[0].b = 1", ".a[1][0] = 2", "x = .a[0].b", "x.b.c = [1]", "x.b[1] = 0", "del(x.b.c)", "del(.a[0].b)", "y = x.b.c", "y |= {\"a\": null}",
            "x = y", "y = .b", "if .c == true { y = 0 } else { y = 1 }", "if exists(.a) { del(.a) } else { .a = [] }", "x = [x]", "x = {\"k\": x}",
            "x = x.k", "x = [1, [2, \"t\"]][1][1]", "x = del(.a[-1])", "x = del(.)", ". |= x", ". |= object!(.a)", "x = to_float(.a) ?? 0.5", "y = 10.0 / x",
        ] {
            add(s);
        }
    }
    v
}

/// A core alphabet for the deepest pass.
pub fn core_stmts() -> Vec<String> {
    [
        "x = 1", "x = 0", "x = \"s\"", "x = [1, \"s\"]", "x = {\"b\": 1}", ".a = 1", ".a = [1, \"s\"]", ".a = {\"b\": 1}", ".a[0] = 1", ".a[-1] = true", ".a[-3] = 1",
        "x.b = 2", "x[-1] = 0", "x = .a", ".b = x", ".b = .a[1]", ".b = .a[-1]", "x = x[1]", "x = x.b", ". |= {\"a\": {\"k\": 1}}", "x |= {\"c\": 1}",
        "x = (.a == 1 && { y = \"s\"; true })", "x, err = to_int(.a)", "if .c == true { x = 1 } else { x = \"s\" }", "if .c == true { .a = 1 }",
        "if .c == true { del(.a[0]) }", "if .c == true { x.b = \"n\" }", "y = { x = \"blk\"; 3 }", "del(.a)", "del(.a[0])", "del(.a[-1])", "del(x.b)", "del(x[0])",
        "x = del(.a[0])", "for_each([1]) -> |_i, _v| { x = 0 }", "for_each(x) -> |_i, v| { y = v }", "x = map_values(x) -> |v| { y = v; 1 }", "y = 10 / x",
        "y = 10 / x.b", "y = x || .s", "y = { x = 0; 10 } / x", "x, err = .a * 2", "x = {}", "if .c == true { x = {\"a\": \"s\"} }", "y = upcase(x.a)", "if (x = \"s\"; .c == true) { x = 1 }", "z = (.c == true && { x = \"s\"; true })", "y = upcase(x)", "if .c == true { return x }", "x = push(x, .a)", "x = merge(x, {\"z\": 1})", ". = {\"a\": [1, \"s\", true]}",
    ]
    .iter()
    .map(|s| (*s).to_string())
    .collect()
}

// ---------------------------------------------------------------------------------------------
// State and step

#[derive(Clone)]
pub struct St {
    pub cfg: usize,
    pub ev: usize,
    pub hist: Vec<String>,
    pub progs: Vec<Arc<Program>>,
    pub tstate: TypeState,
    pub key: String,
}

#[derive(Default)]
pub struct Acc {
    /// (property tag, violation)
    pub violations: Vec<(&'static str, Violation)>,
    pub classes: BTreeSet<String>,
    pub counters: BTreeMap<&'static str, u64>,
}

impl Acc {
    fn bump(&mut self, k: &'static str) {
        *self.counters.entry(k).or_insert(0) += 1;
    }
}

const VAR_NAMES: [&str; 9] = ["x", "y", "z", "err", "k", "v", "i", "_i", "_v"];

fn has_bang_or_abort(src: &str) -> bool {
    let b = src.as_bytes();
    for i in 1..b.len().saturating_sub(1) {
        if b[i] == b'!' && b[i + 1] == b'(' && (b[i - 1].is_ascii_alphanumeric() || b[i - 1] == b'_') {
            return true;
        }
    }
    src.contains("abort")
}

/// Compact, injective-enough signature of a Kind (cheaper than `{:?}`): primitive flags, then known
/// entries and the unknown kind of each collection (`*` = any, `J` = json, both infinite).
pub fn kind_sig(k: &Kind, out: &mut String) {
    let flags: [(bool, char); 8] = [
        (k.contains_bytes(), 's'),
        (k.contains_integer(), 'i'),
        (k.contains_float(), 'f'),
        (k.contains_boolean(), 'b'),
        (k.contains_timestamp(), 't'),
        (k.contains_regex(), 'r'),
        (k.contains_null(), 'n'),
        (k.contains_undefined(), 'u'),
    ];
    for (on, c) in flags {
        if on {
            out.push(c);
        }
    }
    fn unknown_sig(u: Kind, any: bool, out: &mut String) {
        if any || u.is_any() {
            out.push('*');
        } else if u.is_json() {
            out.push('J');
        } else {
            kind_sig(&u, out);
        }
    }
    if let Some(a) = k.as_array() {
        out.push('[');
        for (i, e) in a.known() {
            out.push_str(&i.to_usize().to_string());
            out.push(':');
            kind_sig(e, out);
            out.push(',');
        }
        out.push('|');
        unknown_sig(a.unknown_kind(), a.is_any(), out);
        out.push(']');
    }
    if let Some(o) = k.as_object() {
        out.push('{');
        for (f, e) in o.known() {
            out.push_str(f.as_str());
            out.push(':');
            kind_sig(e, out);
            out.push(',');
        }
        out.push('|');
        unknown_sig(o.unknown_kind(), o.is_any(), out);
        out.push('}');
    }
}

fn type_key(ts: &TypeState) -> String {
    let mut out = String::with_capacity(256);
    for (n, k, c) in ts.local.verif_bindings() {
        out.push_str(&n);
        out.push('=');
        kind_sig(&k, &mut out);
        if let Some(c) = c {
            out.push('#');
            out.push_str(&vv::show(&c));
        }
        out.push(';');
    }
    out.push_str("|T");
    kind_sig(ts.external.target_kind(), &mut out);
    out.push_str("|M");
    kind_sig(ts.external.metadata_kind(), &mut out);
    if let Some(c) = ts.external.verif_target_constant() {
        out.push_str("|C");
        out.push_str(&vv::show(&c));
    }
    out
}

pub fn type_show(ts: &TypeState) -> String {
    let b: Vec<String> = ts
        .local
        .verif_bindings()
        .into_iter()
        .map(|(n, k, c)| format!("{n}: {k}{}", c.map(|c| format!(" = {}", vv::show(&c))).unwrap_or_default()))
        .collect();
    format!("vars {{{}}} event {} metadata {}", b.join(", "), ts.external.target_kind(), ts.external.metadata_kind())
}

fn initial_tstate(cfg: &Cfg) -> TypeState {
    TypeState { local: Default::default(), external: ExternalEnv::new_with_kind(cfg.target.clone(), cfg.metadata.clone()) }
}

fn compile_cfg() -> CompileConfig {
    let mut c = CompileConfig::default();
    c.disable_unused_expression_check();
    c
}

pub struct RunView {
    pub outcome: Outcome,
    pub event: Value,
    pub metadata: Value,
    pub vars: BTreeMap<String, Value>,
    pub ops: Vec<crate::target::Op>,
}

/// Re-execute `progs` in order on fresh runtime objects, return the view after the LAST program
/// (ops = target operations of the last program only). None if an earlier program did not end Ok
/// (cannot happen for states built by `step`).
fn execute(progs: &[Arc<Program>], event: &Value, metadata: &Value, names: &BTreeSet<String>) -> Option<RunView> {
    let mut tgt = LoggingTarget::new(event.clone(), metadata.clone());
    let mut rs = RuntimeState::default();
    let tz = vrlx::utc();
    let mut outcome = Outcome::Ok(Value::Null);
    for (i, p) in progs.iter().enumerate() {
        if i + 1 == progs.len() {
            tgt.log.borrow_mut().clear();
        }
        outcome = vrlx::run_program(p, &mut tgt, &mut rs, &tz);
        if i + 1 < progs.len() && !matches!(outcome, Outcome::Ok(_)) {
            return None;
        }
    }
    let mut vars = BTreeMap::new();
    for n in names {
        if let Some(v) = rs.variable(&Ident::new(n.as_str())) {
            vars.insert(n.clone(), v.clone());
        }
    }
    let ops = tgt.ops();
    Some(RunView { outcome, event: tgt.inner.value, metadata: tgt.inner.metadata, vars, ops })
}

fn covers(reported: &OwnedTargetPath, actual: &OwnedTargetPath) -> bool {
    if reported.prefix != actual.prefix {
        return false;
    }
    let a = &reported.path.segments;
    let b = &actual.path.segments;
    let n = a.len().min(b.len());
    a[..n] == b[..n]
}

fn prefix_name(p: PathPrefix) -> &'static str {
    match p {
        PathPrefix::Event => "event",
        PathPrefix::Metadata => "metadata",
    }
}

/// All invariants on one executed program (`mode` = "step" or "whole").
#[allow(clippy::too_many_arguments)]
fn invariants(
    mode: &'static str,
    src_all: &str,
    program: &Program,
    view: &RunView,
    w: &dyn Fn() -> J,
    acc: &mut Acc,
) {
    let ti = program.final_type_info();
    let td: &TypeDef = &ti.result;
    let info = program.info();
    // `mode` (step-wise vs. whole program) is not part of the witness: the same program violating the
    // same clause in both views is one finding.
    let wit = || w();
    acc.classes.insert(format!("{mode}:{}", view.outcome.class()));
    // ---- C01
    match &view.outcome {
        Outcome::Ok(v) => {
            acc.bump("c01_result_checks");
            let k = td.kind();
            if !crate::model::member::member_lenient(v, k) {
                acc.violations.push((
                    "C01",
                    Violation::new("C01.result-in-kind", wit(), format!("result {} ∈ {k}", vv::show(v)), why_not(v, k).unwrap_or_default()),
                ));
            }
        }
        Outcome::Return(v) => {
            acc.bump("c01_return_checks");
            let k = td.returns();
            if !crate::model::member::member_lenient(v, k) {
                acc.violations.push((
                    "C01",
                    Violation::new("C01.return-in-returns", wit(), format!("returned {} ∈ {k}", vv::show(v)), why_not(v, k).unwrap_or_default()),
                ));
            }
        }
        _ => {}
    }
    if view.outcome.success() {
        let ek = ti.state.external.target_kind();
        if let Some(why) = why_not(&view.event, ek) {
            let clause = if matches!(view.outcome, Outcome::Return(_)) { "C01.event-in-final-kind-after-return" } else { "C01.event-in-final-kind" };
            acc.violations.push(("C01", Violation::new(clause, wit(), format!("event {} ∈ {ek}", vv::show(&view.event)), why)));
        }
        let mk = ti.state.external.metadata_kind();
        if let Some(why) = why_not(&view.metadata, mk) {
            let clause =
                if matches!(view.outcome, Outcome::Return(_)) { "C01.metadata-in-final-kind-after-return" } else { "C01.metadata-in-final-kind" };
            acc.violations.push(("C01", Violation::new(clause, wit(), format!("metadata {} ∈ {mk}", vv::show(&view.metadata)), why)));
        }
    }
    if matches!(view.outcome, Outcome::Ok(_)) {
        for (name, kind, constant) in ti.state.local.verif_bindings() {
            let val = view.vars.get(&name).cloned().unwrap_or(Value::Null);
            acc.bump("c01_variable_checks");
            if !crate::model::member::member_lenient(&val, &kind) {
                acc.violations.push((
                    "C01",
                    Violation::new(
                        "C01.variable-in-kind",
                        wit(),
                        format!("variable {name} = {} ∈ {kind}", vv::show(&val)),
                        why_not(&val, &kind).unwrap_or_default(),
                    ),
                ));
            }
            // ---- C12
            if let Some(c) = constant {
                acc.bump("c12_constant_checks");
                if c != val {
                    acc.violations.push((
                        "C12",
                        Violation::new(
                            "C12.variable-constant",
                            wit(),
                            format!("variable {name} holds its compile-time constant {}", vv::show(&c)),
                            format!("holds {}", vv::show(&val)),
                        ),
                    ));
                }
            }
        }
        // (The constant recorded for the external target is never consulted by the compiler — external
        // queries have no `resolve_constant` — so it is not an "expression treated as constant" in the
        // sense of C12 and is not judged; DESIGN §8, correction 3.)
    }
    // ---- C02
    let nan = vrlx::nan_error_text();
    let is_nan = |m: &str| m.contains(&nan);
    match &view.outcome {
        Outcome::Error(m) if !is_nan(m) => {
            if !has_bang_or_abort(src_all) {
                acc.violations.push((
                    "C02",
                    Violation::new("C02.no-bang-no-abort-never-fails", wit(), "finishes successfully (no `f!(..)`, no `abort` in the program)", "runtime error"),
                ));
            }
            if !info.fallible {
                acc.violations.push(("C02", Violation::new("C02.info-not-fallible", wit(), "ProgramInfo.fallible == false ⇒ no runtime error", "runtime error")));
            }
        }
        Outcome::Abort(_) | Outcome::Other(_) => {
            if !has_bang_or_abort(src_all) {
                acc.violations.push((
                    "C02",
                    Violation::new("C02.no-bang-no-abort-never-aborts", wit(), "finishes successfully (no `f!(..)`, no `abort` in the program)", view.outcome.class()),
                ));
            }
            if !info.abortable {
                acc.violations.push(("C02", Violation::new("C02.info-not-abortable", wit(), "ProgramInfo.abortable == false ⇒ never aborts", view.outcome.class())));
            }
        }
        _ => {}
    }
    if !has_bang_or_abort(src_all) {
        acc.bump("c02_programs_without_bang_or_abort");
    }
    // ---- C16
    for op in &view.ops {
        acc.bump("c16_target_ops");
        let (list, what) = match op.kind {
            OpKind::Get | OpKind::GetMut => (vec![&info.target_queries], "target_queries"),
            OpKind::Insert => (vec![&info.target_assignments], "target_assignments"),
            // `del` mutates without "assigning": covered by queries OR assignments (DESIGN §3.1 C16)
            OpKind::Remove => (vec![&info.target_queries, &info.target_assignments], "target_queries or target_assignments"),
        };
        let ok = list.iter().any(|l| l.iter().any(|r| covers(r, &op.path)));
        if !ok {
            let mut j = wit();
            j["op"] = json!({"kind": op.kind.name(), "prefix": prefix_name(op.path.prefix), "path": op.path.to_string()});
            acc.violations.push((
                "C16",
                Violation::new(
                    match op.kind {
                        OpKind::Insert => "C16.insert-covered",
                        OpKind::Remove => "C16.remove-covered",
                        _ => "C16.read-covered",
                    },
                    j,
                    format!("{} {} covered by reported {what}", op.kind.name(), op.path),
                    format!(
                        "queries {:?} assignments {:?}",
                        info.target_queries.iter().map(ToString::to_string).collect::<Vec<_>>(),
                        info.target_assignments.iter().map(ToString::to_string).collect::<Vec<_>>()
                    ),
                ),
            ));
        }
    }
}

pub fn witness_json(cfg: &Cfg, ev: usize, hist: &[String], stmt: &str) -> J {
    let mut stmts: Vec<String> = hist.to_vec();
    stmts.push(stmt.to_string());
    json!({"config": cfg.name, "event": vv::enc(&cfg.events[ev].0), "metadata": vv::enc(&cfg.events[ev].1), "program": stmts})
}

pub fn step(cfgs: &[Cfg], st: &St, stmt: &str, acc: &mut Acc) -> Option<St> {
    let cfg = &cfgs[st.cfg];
    let (event, metadata) = &cfg.events[st.ev];
    let w = || witness_json(cfg, st.ev, &st.hist, stmt);
    let n_viol_before = acc.violations.len();
    // 1. compile the statement under the current type state
    let compiled = FNS.with(|fns| guarded(|| vrlx::compile_state(stmt, fns, &st.tstate, compile_cfg())));
    let result = match compiled {
        Err(p) => {
            acc.violations.push(("C04", Violation::new("C04.compile-panic", w(), "compilation does not panic", p)));
            return None;
        }
        Ok(Err(_)) => {
            acc.bump("rejected_statements");
            return None;
        }
        Ok(Ok(r)) => r,
    };
    let program = Arc::new(result.program);
    let mut progs = st.progs.clone();
    progs.push(program.clone());
    let ti = program.final_type_info();
    let mut names: BTreeSet<String> = VAR_NAMES.iter().map(|s| (*s).to_string()).collect();
    for (n, _, _) in ti.state.local.verif_bindings() {
        names.insert(n);
    }
    // 2. run on the carried runtime state
    let view = match guarded(|| execute(&progs, event, metadata, &names)) {
        Err(p) => {
            acc.violations.push(("C04", Violation::new("C04.run-panic", w(), "running does not panic", p)));
            return None;
        }
        Ok(None) => {
            acc.bump("history_replay_diverged");
            acc.violations.push(("MACHINERY", Violation::new("history-replay-diverged", w(), "deterministic replay", "earlier statement no longer ends Ok")));
            return None;
        }
        Ok(Some(v)) => v,
    };
    let mut all = st.hist.clone();
    all.push(stmt.to_string());
    let src_all = all.join("\n");
    invariants("step", &src_all, &program, &view, &w, acc);
    // 3. whole-program conformance
    if !st.hist.is_empty() {
        let ext = ExternalEnv::new_with_kind(cfg.target.clone(), cfg.metadata.clone());
        let whole = FNS.with(|fns| guarded(|| vrlx::compile_ext(&src_all, fns, &ext, compile_cfg())));
        match whole {
            Err(p) => acc.violations.push(("C04", Violation::new("C04.compile-panic", w(), "compilation does not panic", p))),
            Ok(Err(_)) => {
                acc.bump("whole_rejected_but_stepwise_accepted");
            }
            Ok(Ok(r)) => {
                let wp = Arc::new(r.program);
                let mut wnames = names.clone();
                for (n, _, _) in wp.final_type_info().state.local.verif_bindings() {
                    wnames.insert(n);
                }
                match guarded(|| execute(std::slice::from_ref(&wp), event, metadata, &wnames)) {
                    Err(p) => acc.violations.push(("C04", Violation::new("C04.run-panic", w(), "running does not panic", p))),
                    Ok(None) => {}
                    Ok(Some(wview)) => {
                        acc.bump("traces_validated");
                        invariants("whole", &src_all, &wp, &wview, &w, acc);
                        let same = wview.outcome.class() == view.outcome.class()
                            && wview.outcome.value() == view.outcome.value()
                            && wview.event == view.event
                            && wview.metadata == view.metadata;
                        if !same {
                            acc.bump("whole_vs_stepwise_runtime_mismatch");
                            if std::env::var("VRLMC_PM_DEBUG").is_ok() {
                                eprintln!("MISMATCH {} | step: {} {} | whole: {} {}", w(), view.outcome.show(), vv::show(&view.event), wview.outcome.show(), vv::show(&wview.event));
                            }
                        }
                        if type_key(&wp.final_type_info().state) != type_key(&ti.state) {
                            acc.bump("whole_vs_stepwise_type_mismatch");
                        }
                    }
                }
            }
        }
    }
    // 4. successor. A transition on which a state invariant failed is not expanded further: every
    // later statement would only re-report the same corrupted state.
    if CUT_AFTER_STATE_VIOLATION.load(std::sync::atomic::Ordering::Relaxed)
        && acc.violations.len() > n_viol_before
        && acc.violations[n_viol_before..].iter().any(|(t, v)| (*t == "C01" && !v.clause.starts_with("C01.re")) || *t == "C12")
    {
        acc.bump("cut_after_state_violation");
        return None;
    }
    if !matches!(view.outcome, Outcome::Ok(_)) {
        acc.bump("terminal_states");
        return None;
    }
    let key = format!(
        "{}|{}|{}|R{}|E{}|M{}",
        st.cfg,
        st.ev,
        type_key(&ti.state),
        view.vars.iter().map(|(k, v)| format!("{k}={}", vv::show(v))).collect::<Vec<_>>().join(","),
        vv::show(&view.event),
        vv::show(&view.metadata)
    );
    Some(St { cfg: st.cfg, ev: st.ev, hist: all, progs, tstate: ti.state, key })
}

pub struct PmResult {
    pub stats: Vec<(String, explore::BfsStats)>,
    pub violations: Vec<(&'static str, Violation)>,
    pub classes: BTreeSet<String>,
    pub counters: BTreeMap<&'static str, u64>,
    pub n_stmts: usize,
    pub n_cfg_events: usize,
    pub samples: Vec<J>,
}

pub fn explore_all(tier: Tier) -> PmResult {
    let cfgs = configs(tier);
    let mut seeds = Vec::new();
    for (ci, c) in cfgs.iter().enumerate() {
        for ei in 0..c.events.len() {
            assert!(crate::model::member::member(&c.events[ei].0, &c.target), "event {ei} of config {} must conform", c.name);
            let ts = initial_tstate(c);
            seeds.push(St { cfg: ci, ev: ei, hist: vec![], progs: vec![], key: format!("{ci}|{ei}|init"), tstate: ts });
        }
    }
    let n_cfg_events = seeds.len();
    let mut res = PmResult {
        stats: vec![],
        violations: vec![],
        classes: BTreeSet::new(),
        counters: BTreeMap::new(),
        n_stmts: 0,
        n_cfg_events,
        samples: vec![],
    };
    let full = stmts(tier);
    res.n_stmts = full.len();
    // every statement of the alphabets must at least PARSE (a syntax error would silently remove it)
    for st in full.iter().chain(core_stmts().iter()) {
        if let Err(e) = vrl::parser::parse(st) {
            panic!("alphabet statement does not parse: `{st}`: {e:?}");
        }
    }
    let passes: Vec<(&str, Vec<String>, u32)> = if tier.thorough() {
        vec![("full alphabet", full, 2), ("core alphabet", core_stmts(), 4)]
    } else {
        vec![("full alphabet", full, 2), ("core alphabet", core_stmts(), 3)]
    };
    for (name, alphabet, depth) in passes {
        let stats = explore::bfs(
            seeds.clone(),
            |s: &St| s.key.clone(),
            alphabet.len() as u64,
            depth,
            40_000_000,
            Acc::default,
            |s, ai, _d, acc| step(&cfgs, s, &alphabet[ai as usize], acc),
            |acc| {
                res.violations.extend(acc.violations);
                res.classes.extend(acc.classes);
                for (k, v) in acc.counters {
                    *res.counters.entry(k).or_insert(0) += v;
                }
            },
        );
        res.stats.push((format!("{name} ({} statements) depth {depth}", alphabet.len()), stats));
    }
    // corpus pass: every accepted program of the repository's own .vrl corpus on its declared input object
    {
        let corpus = crate::corpus::load();
        let ext = ExternalEnv::default();
        let names: BTreeSet<String> = VAR_NAMES.iter().map(|s| (*s).to_string()).collect();
        let mut acc = Acc::default();
        let mut accepted = 0u64;
        for c in &corpus {
            // nondeterministic functions make no difference to these invariants; programs that need files or the
            // network are simply rejected/erroring
            let compiled = FNS.with(|fns| guarded(|| vrlx::compile_ext(&c.src, fns, &ext, compile_cfg())));
            let w = || json!({"config": "corpus(default env)", "corpus_file": c.name, "event": vv::enc(&c.object), "metadata": {}, "program": [c.src]});
            let program = match compiled {
                Err(p) => {
                    acc.violations.push(("C04", Violation::new("C04.compile-panic", w(), "compilation does not panic", p)));
                    continue;
                }
                Ok(Err(_)) => continue,
                Ok(Ok(r)) => Arc::new(r.program),
            };
            accepted += 1;
            let mut n2 = names.clone();
            for (n, _, _) in program.final_type_info().state.local.verif_bindings() {
                n2.insert(n);
            }
            match guarded(|| execute(std::slice::from_ref(&program), &c.object, &vrlx::empty_object(), &n2)) {
                Err(p) => acc.violations.push(("C04", Violation::new("C04.run-panic", w(), "running does not panic", p))),
                Ok(None) => {}
                Ok(Some(view)) => invariants("corpus", &c.src, &program, &view, &w, &mut acc),
            }
        }
        res.counters.insert("corpus_programs", corpus.len() as u64);
        res.counters.insert("corpus_programs_accepted_and_run", accepted);
        res.violations.extend(acc.violations);
        res.classes.extend(acc.classes);
        for (k, v) in acc.counters {
            *res.counters.entry(k).or_insert(0) += v;
        }
    }
    res.samples.push(witness_json(&cfgs[0], 4, &[". = {\"a\": [1, \"s\", true]}".to_string(), "del(.a[0])".to_string()], ".b = .a[1]"));
    res.samples.push(witness_json(&cfgs[1], 0, &["x = 5".to_string()], "y = 10 / x"));
    res
}

fn run_for(property: &'static str, tier: Tier) -> Report {
    let mut rep = Report::new(property, tier, "model_checking");
    CUT_AFTER_STATE_VIOLATION.store(property != "C02", std::sync::atomic::Ordering::Relaxed);
    EXTRA_FOR_C16.store(property == "C16", std::sync::atomic::Ordering::Relaxed);
    let res = explore_all(tier);
    let mut states = 0;
    let mut transitions = 0;
    let mut depth = 0;
    let mut capped = false;
    for (name, s) in &res.stats {
        states += s.states;
        transitions += s.transitions;
        depth = depth.max(s.max_depth);
        capped |= s.capped;
        rep.notes.push(format!("pass {name}: {s:?}"));
    }
    let mut other = 0u64;
    for (tag, v) in res.violations {
        if tag == property || tag == "MACHINERY" {
            rep.violation(v);
        } else {
            other += 1;
        }
    }
    rep.set("states", states);
    rep.set("transitions", transitions);
    rep.set("max_depth", u64::from(depth));
    rep.set("traces_validated_against_impl", res.counters.get("traces_validated").copied().unwrap_or(0));
    rep.set("statement_alphabet", res.n_stmts as u64);
    rep.set("config_event_seeds", res.n_cfg_events as u64);
    rep.set("violations_of_other_properties_seen", other);
    rep.set("distinct_observation_classes", res.classes.len() as u64);
    for (k, v) in &res.counters {
        rep.set(k, *v);
    }
    rep.set(
        "explanation",
        "explicit-state BFS directly on the implementation: a transition = compile_with_state(one statement, current TypeState) + Program::resolve on the carried RuntimeState/target; states de-duplicated by (TypeState incl. constants, variables, event, metadata). traces_validated_against_impl = transitions whose whole statement path was ALSO compiled in one piece with compile_with_external and run from the initial event, with the same invariants evaluated on it.",
    );
    rep.exhaustive = !capped;
    for s in res.samples {
        rep.sample(s);
    }
    if property == "C01" || property == "C02" {
        crate::props::opgrid::run(&mut rep, if property == "C01" { "C01" } else { "C02" }, tier);
    }
    rep
}

pub fn run_c01(tier: Tier) -> Report {
    run_for("C01", tier)
}
pub fn run_c02(tier: Tier) -> Report {
    run_for("C02", tier)
}
pub fn run_c12(tier: Tier) -> Report {
    run_for("C12", tier)
}
pub fn run_c16(tier: Tier) -> Report {
    run_for("C16", tier)
}

/// Replay one witness: {config, event, metadata, program: [stmts], mode}.
pub fn replay(property: &str, w: &J) -> Vec<Violation> {
    if w.get("opgrid").is_some() {
        return crate::props::opgrid::replay(w);
    }
    if w["config"] == "corpus(default env)" {
        let src = w["program"][0].as_str().unwrap_or("");
        let event = vv::dec(&w["event"]);
        let compiled = FNS.with(|fns| guarded(|| vrlx::compile_ext(src, fns, &ExternalEnv::default(), compile_cfg())));
        let Ok(Ok(r)) = compiled else { return vec![] };
        let program = Arc::new(r.program);
        let mut names: BTreeSet<String> = VAR_NAMES.iter().map(|s| (*s).to_string()).collect();
        for (n, _, _) in program.final_type_info().state.local.verif_bindings() {
            names.insert(n);
        }
        let mut acc = Acc::default();
        let wj = w.clone();
        if let Ok(Some(view)) = guarded(|| execute(std::slice::from_ref(&program), &event, &vrlx::empty_object(), &names)) {
            invariants("corpus", src, &program, &view, &|| wj.clone(), &mut acc);
        }
        return acc.violations.into_iter().filter(|(t, _)| *t == property).map(|(_, v)| v).collect();
    }
    let cfgs = configs(Tier::Thorough);
    let Some(ci) = cfgs.iter().position(|c| Some(c.name) == w["config"].as_str()) else { return vec![] };
    let ev = vv::dec(&w["event"]);
    let md = vv::dec(&w["metadata"]);
    let Some(ei) = cfgs[ci].events.iter().position(|(e, m)| *e == ev && *m == md) else { return vec![] };
    let prog: Vec<String> = w["program"].as_array().map(|a| a.iter().filter_map(|s| s.as_str().map(String::from)).collect()).unwrap_or_default();
    let mut st = St { cfg: ci, ev: ei, hist: vec![], progs: vec![], key: String::new(), tstate: initial_tstate(&cfgs[ci]) };
    let mut out = Vec::new();
    for (i, s) in prog.iter().enumerate() {
        let mut acc = Acc::default();
        let nxt = step(&cfgs, &st, s, &mut acc);
        if i + 1 == prog.len() {
            out = acc.violations.into_iter().filter(|(t, _)| *t == property).map(|(_, v)| v).collect();
        }
        match nxt {
            Some(n) => st = n,
            None => break,
        }
    }
    out
}
