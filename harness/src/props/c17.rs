//! C17 — target faults are contained (DESIGN §3.9): fault enumeration.
//! For every program of the alphabet and every event, the fault-free run on a logging target yields
//! the operation trace; then EVERY non-empty set of <= 2 (thorough 3) operation indices is made to
//! fail. Oracle: never a panic; the run with the set S *failing* is observationally equal to the run
//! with S *skipped* (read -> nothing found, write/delete -> no effect, no error reported); a target
//! whose root cannot be read makes `Runtime::resolve` end with an error.

use crate::law::{self, CaseResult};
use crate::props::pm;
use crate::report::{Report, Tier, Violation};
use crate::target::{Fault, LoggingTarget, Op};
use crate::util::guarded;
use crate::vrlx::{self, Outcome};
use crate::vv;
use serde_json::{Value as J, json};
use std::rc::Rc;
use vrl::compiler::Program;
use vrl::value::Value;

fn programs(tier: Tier) -> Vec<String> {
    let mut out: Vec<String> = Vec::new();
    // every statement of the product machine's alphabet that mentions the target
    let touches = |s: &str| s.contains('.') || s.contains('%');
    let singles: Vec<String> = pm::stmts(tier).into_iter().filter(|s| touches(s)).collect();
    out.extend(singles.iter().cloned());
    // one statement per direct user of the Target trait, on the event and on metadata
    for s in [
        ".a", "%m", ".", "%", ".a.b[0]", "x = .a.b.c", ".a = .b", "%m = .a", ".a = %m", ".a, err = to_int(.b)", ".a |= {\"k\": 1}", "% |= {\"k\": 1}", "del(.a)", "del(%m)",
        "del(.a, compact: true)", "del(.a.b, compact: true)", "del(%m.k, compact: true)", "exists(.a)", "exists(%m)", "exists(.a.b[1])", "x = exists(.a) && exists(.b)",
        "unnest!(.a)", "unnest!(%m)", ". = unnest!(.a)", "x = unnest!(.a.b)", ".a = del(.b)", ".b = del(.a) || .c", "if exists(.a) { del(.a) } else { .a = 1 }",
        "for_each(array!(.a)) -> |_i, v| { .b = v }", ".a = map_values(object!(.a)) -> |v| { .seen = v; v }", "x = .a ?? .b", ".x = (.a == .b)", "x = [.a, .b, %m]",
        "x = {\"k\": .a, \"j\": del(.b)}", ". = {\"fresh\": .a}", "% = {\"fresh\": %m}", ".a[1] = .a[0]", ".a[-1] = del(.a[0])", "x = .a; .b = x; del(.a)", ".a = 1; .a = .a + 1 ?? 0; .b = .a",
        // a write followed by a read whose TYPE the compiler derived from that write
        ".a = true; if .a { .b = 1 }", "%m = false; if %m { .b = 1 } else { .b = 2 }", ".a = 1; .b = .a + 1", ".a = \"s\"; .b = upcase(.a)", ".a = [1]; .b = push(.a, 2)",
        ".a = {\"k\": 1}; .b = .a.k + 1", ".a = true; .b = .a && true", ".a = 2; .b = 10 / .a", ".a = \"x\"; .b = .a + \"y\"", ".a = [1, 2]; for_each(.a) -> |_i, v| { .s = v }",
        ".a = {\"k\": 1}; .a |= {\"j\": 2}", ".a = t'2021-02-03T04:05:06Z'; .b = format_timestamp!(.a, \"%s\")", ". = {\"a\": true}; if .a { .b = 1 }", "% = {\"m\": 1}; .b = %m + 1",
        "del(.a); .b = .a ?? 1", ".a = 1; del(.a); .b = is_null(.a)",
        "get_secret(\"k\")", "set_secret(\"k\", string!(.a))", "remove_secret(\"k\")",
    ] {
        out.push(s.to_string());
    }
    // pairs over a core of target-touching statements
    let core: Vec<String> = pm::core_stmts().into_iter().filter(|s| touches(s)).collect();
    for a in &core {
        for b in &core {
            out.push(format!("{a}\n{b}"));
        }
    }
    out.sort();
    out.dedup();
    out
}

fn events() -> Vec<(Value, Value)> {
    use vv::{arr, i, obj, s};
    vec![
        (obj(&[]), obj(&[])),
        (obj(&[("a", arr(&[i(1), s("s"), Value::Boolean(true)])), ("b", s("5")), ("c", Value::Boolean(true))]), obj(&[("m", obj(&[("k", i(1))]))])),
        (obj(&[("a", obj(&[("b", arr(&[i(1), i(2)])), ("k", i(0))])), ("b", i(2))]), obj(&[("m", s("meta"))])),
        (obj(&[("a", s("5")), ("c", Value::Boolean(true))]), obj(&[("m", arr(&[i(1)]))])),
    ]
}

struct Run {
    outcome: Result<Outcome, String>,
    event: Value,
    metadata: Value,
    ops: Vec<Op>,
}

fn run(program: &Program, event: &Value, metadata: &Value, plan: Vec<(usize, Fault)>, via_runtime: bool) -> Run {
    let mut t = LoggingTarget::new(event.clone(), metadata.clone()).with_plan(plan);
    let tz = vrlx::utc();
    let outcome = guarded(|| {
        if via_runtime {
            vrlx::run_runtime(program, &mut t, &tz)
        } else {
            let mut rs = vrl::compiler::state::RuntimeState::default();
            vrlx::run_program(program, &mut t, &mut rs, &tz).as_runtime()
        }
    });
    let ops = t.ops();
    Run { outcome, event: t.inner.value, metadata: t.inner.metadata, ops }
}

fn show_ops(ops: &[Op]) -> String {
    ops.iter().map(|o| format!("{} {}", o.kind.name(), o.path)).collect::<Vec<_>>().join("; ")
}

fn same_outcome(a: &Outcome, b: &Outcome) -> bool {
    match (a, b) {
        (Outcome::Error(_), Outcome::Error(_)) => true, // error texts are never compared
        (x, y) => x == y,
    }
}

fn compile(src: &str) -> Option<Rc<Program>> {
    law::prog(src)
}

pub fn case(w: &J) -> CaseResult {
    let src = w["program"].as_str().unwrap_or("");
    let event = vv::dec(&w["event"]);
    let metadata = vv::dec(&w["metadata"]);
    let faults: Vec<usize> = w["faults"].as_array().map(|a| a.iter().filter_map(|x| x.as_u64().map(|u| u as usize)).collect()).unwrap_or_default();
    let via_runtime = w["via"] == "runtime";
    let Some(program) = compile(src) else { return CaseResult::trivial("rejected") };
    let failing = run(&program, &event, &metadata, faults.iter().map(|i| (*i, Fault::Fail)).collect(), via_runtime);
    let skipping = run(&program, &event, &metadata, faults.iter().map(|i| (*i, Fault::Skip)).collect(), via_runtime);
    let mut res = CaseResult::ok("");
    let fo = match &failing.outcome {
        Ok(o) => o.clone(),
        Err(p) => {
            res.class = "panic".into();
            res.violations.push(Violation::new("C17.panic-on-target-fault", w.clone(), "the run never panics when the target rejects operations", format!("panic: {p}; operations so far: {}", show_ops(&failing.ops))));
            return res;
        }
    };
    let so = match &skipping.outcome {
        Ok(o) => o.clone(),
        Err(p) => {
            // the skipped run is the reference: a panic there is reported too (no fault is even signalled)
            res.class = "panic-in-reference".into();
            res.violations.push(Violation::new("C17.panic-on-missing-data", w.clone(), "no panic", format!("panic: {p}")));
            return res;
        }
    };
    res.class = format!("{}|{}", fo.class(), so.class());
    // root read in Runtime::resolve (operation 0 when going through the runtime)
    if via_runtime && faults.contains(&0) {
        res.class = format!("root-read-fault:{}", fo.class());
        if !matches!(fo, Outcome::Error(_)) {
            res.violations.push(Violation::new("C17.unreadable-root-ends-with-error", w.clone(), "Terminate::Error", fo.show()));
        }
        return res;
    }
    if !same_outcome(&fo, &so) {
        res.violations.push(Violation::new("C17.rejected-operation-changes-the-outcome", w.clone(), format!("as if the operations were skipped: {}", so.show()), fo.show()));
    }
    if failing.event != skipping.event || failing.metadata != skipping.metadata {
        res.violations.push(Violation::new(
            "C17.rejected-operation-changes-the-target",
            w.clone(),
            format!("event {} metadata {}", vv::show(&skipping.event), vv::show(&skipping.metadata)),
            format!("event {} metadata {}", vv::show(&failing.event), vv::show(&failing.metadata)),
        ));
    }
    if failing.ops != skipping.ops {
        res.violations.push(Violation::new("C17.rejected-operation-changes-later-operations", w.clone(), show_ops(&skipping.ops), show_ops(&failing.ops)));
    }
    res
}

fn choose(k: usize, max: usize) -> Vec<Vec<usize>> {
    // all non-empty subsets of 0..k with at most `max` elements, smallest first
    let mut out: Vec<Vec<usize>> = Vec::new();
    for a in 0..k {
        out.push(vec![a]);
    }
    if max >= 2 {
        for a in 0..k {
            for b in a + 1..k {
                out.push(vec![a, b]);
            }
        }
    }
    if max >= 3 {
        for a in 0..k {
            for b in a + 1..k {
                for c in b + 1..k {
                    out.push(vec![a, b, c]);
                }
            }
        }
    }
    out
}

pub fn run_c17(tier: Tier) -> Report {
    let mut rep = Report::new("C17", tier, "fault_enumeration");
    let progs = programs(tier);
    let evs = events();
    let max_faults = if tier.thorough() { 3 } else { 2 };
    let mut cases: Vec<J> = Vec::new();
    let mut accepted = 0u64;
    let mut longest = 0usize;
    let mut total_ops = 0u64;
    for src in &progs {
        let Some(program) = compile(src) else { continue };
        accepted += 1;
        for (ev, md) in &evs {
            for via in ["runtime", "program"] {
                let base = run(&program, ev, md, vec![], via == "runtime");
                let k = base.ops.len().min(14);
                longest = longest.max(base.ops.len());
                total_ops += base.ops.len() as u64;
                for set in choose(k, max_faults) {
                    cases.push(json!({"program": src, "event": vv::enc(ev), "metadata": vv::enc(md), "via": via, "faults": set}));
                }
            }
        }
    }
    // the repository's own corpus programs on their declared input objects
    let corpus = crate::corpus::load();
    let mut corpus_accepted = 0u64;
    for c in &corpus {
        if !crate::corpus::deterministic(&c.src) {
            continue;
        }
        let Some(program) = compile(&c.src) else { continue };
        corpus_accepted += 1;
        let md = vrlx::empty_object();
        let base = run(&program, &c.object, &md, vec![], true);
        let k = base.ops.len().min(10);
        longest = longest.max(base.ops.len());
        total_ops += base.ops.len() as u64;
        for set in choose(k, max_faults.min(2)) {
            cases.push(json!({"program": c.src, "corpus_file": c.name, "event": vv::enc(&c.object), "metadata": {}, "via": "runtime", "faults": set}));
        }
    }
    rep.set("corpus_programs_accepted", corpus_accepted);
    rep.set("programs_enumerated", progs.len() as u64);
    rep.set("programs_accepted", accepted);
    rep.set("longest_operation_trace", longest as u64);
    rep.set("target_operations_in_fault_free_runs", total_ops);
    rep.set("max_simultaneous_faults", max_faults as u64);
    law::drive(&mut rep, "fault-sets", &cases, case);
    // call sites of the Target trait in the working tree (informational: shows what the alphabet must reach)
    let mut sites: Vec<String> = Vec::new();
    if let Ok(out) = std::process::Command::new("grep").args(["-rnE", "target_(get|insert|remove|get_mut)\\(", "/repo/src", "--include=*.rs", "-l"]).output() {
        sites = String::from_utf8_lossy(&out.stdout).lines().map(String::from).collect();
    }
    rep.set("files_calling_the_Target_trait", json!(sites));
    rep.set(
        "rule",
        "programs = every target-touching statement of the product-machine alphabet, one statement per direct user of the Target trait (queries, plain/infallible/merge assignment, del with and without compact, exists, unnest, closures writing the target, secrets) on event and metadata, and every ordered pair of the core alphabet; each on 4 events, through Runtime::resolve and through Program::resolve; for each fault-free operation trace EVERY non-empty set of at most 2 (thorough 3) operation indices (first 14 operations) is failed; a case is non-trivial when the program is accepted and the fault plan was executed; distinct by construction",
    );
    rep.assume("a failing operation is compared with the same operation SKIPPED (read finds nothing, write/delete has no effect, no error): outcome class and value, final event/metadata and the subsequent operation trace must be identical; error texts are not compared");
    rep
}

pub fn replay(_property: &str, w: &J) -> Vec<Violation> {
    case(w).violations
}
