//! C28 — algebraic laws of the string and collection functions of the stdlib.
//!
//! Every case is one (law, input, options) triple that is run through compiled VRL snippets
//! (`law::call`) and judged against a boring independent reference written here (hand-written
//! white-space table, byte-position substring search, char counting, positional slicing,
//! first-occurrence filter, bottom-up compaction, key-wise merge).

use crate::law::{self, CaseResult};
use crate::report::{Report, Tier, Violation};
use crate::vrlx::Outcome;
use crate::vv;
use serde_json::{Value as J, json};
use std::collections::{BTreeMap, BTreeSet};
use vrl::value::{KeyString, Value};

// ------------------------------------------------------------------------------------ helpers

fn s_of(v: &Value) -> Option<String> {
    match v {
        Value::Bytes(b) => std::str::from_utf8(b).ok().map(str::to_string),
        _ => None,
    }
}

fn jstr(w: &J, k: &str) -> String {
    w[k].as_str().unwrap_or("").to_string()
}

fn bad_outcome(clause: &str, w: &J, o: &Outcome) -> CaseResult {
    CaseResult::trivial("unexpected-outcome").violation(Violation::new(clause, w.clone(), "the snippet evaluates to a value", o.show()))
}

fn arr_of(o: &Outcome) -> Option<&Vec<Value>> {
    match o {
        Outcome::Ok(Value::Array(a)) => Some(a),
        _ => None,
    }
}

/// Unicode `White_Space` (the definition `strip_whitespace` documents), written down by hand.
fn is_ws(c: char) -> bool {
    matches!(c as u32,
        0x09..=0x0d | 0x20 | 0x85 | 0xa0 | 0x1680 | 0x2000..=0x200a | 0x2028 | 0x2029 | 0x202f | 0x205f | 0x3000)
}

fn sv(x: &str) -> Value {
    Value::from(x)
}

// ---------------------------------------------------------------------------- law: idempotence

const CASE_FNS: [&str; 5] = ["camelcase", "pascalcase", "snakecase", "screamingsnakecase", "kebabcase"];

fn law_idem(w: &J) -> CaseResult {
    let f = jstr(w, "f");
    let opts = jstr(w, "opts");
    let s = jstr(w, "s");
    let src = format!("r1 = {f}(string!(.a){opts}); r2 = {f}(r1{opts}); [r1, r2]");
    let o = law::call(&src, law::ev1(sv(&s)));
    let Some(a) = arr_of(&o) else { return bad_outcome("C28.idempotent.outcome", w, &o) };
    let (Some(r1), Some(r2)) = (s_of(&a[0]), s_of(&a[1])) else { return bad_outcome("C28.idempotent.outcome", w, &o) };
    let mut r = CaseResult::ok(if r1 == s { "unchanged" } else { "changed" });
    r.nontrivial = r1 != s;
    if r1 != r2 {
        let clause = if opts.is_empty() { format!("C28.idempotent.{f}") } else { format!("C28.idempotent-opts.{f}") };
        r = r.violation(Violation::new(&clause, w.clone(), format!("{f}({f}(s)) == {f}(s) == {r1:?}"), format!("{r2:?}")));
    }
    // defining law of upcase/downcase: Unicode upper/lower case mapping (Rust std as reference)
    if opts.is_empty() && (f == "upcase" || f == "downcase") {
        let want = if f == "upcase" { s.to_uppercase() } else { s.to_lowercase() };
        if r1 != want {
            r = r.violation(Violation::new(&format!("C28.{f}-reference"), w.clone(), format!("{want:?}"), format!("{r1:?}")));
        }
    }
    r
}

fn cap(wd: &str) -> String {
    let mut c = wd.chars();
    match c.next() {
        Some(f) => f.to_uppercase().collect::<String>() + c.as_str(),
        None => String::new(),
    }
}

fn render_words(words: &[String], style: &str) -> String {
    match style {
        "space" => words.join(" "),
        "kebab" => words.join("-"),
        "snake" => words.join("_"),
        "screaming" => words.iter().map(|x| x.to_uppercase()).collect::<Vec<_>>().join("_"),
        "camel" => words.iter().enumerate().map(|(i, x)| if i == 0 { x.clone() } else { cap(x) }).collect::<String>(),
        "pascal" => words.iter().map(|x| cap(x)).collect::<String>(),
        _ => unreachable!(),
    }
}

fn target_style(f: &str) -> &'static str {
    match f {
        "camelcase" => "camel",
        "pascalcase" => "pascal",
        "snakecase" => "snake",
        "screamingsnakecase" => "screaming",
        _ => "kebab",
    }
}

fn hint_for(style: &str) -> Option<&'static str> {
    Some(match style {
        "kebab" => "kebab-case",
        "snake" => "snake_case",
        "screaming" => "SCREAMING_SNAKE",
        "camel" => "camelCase",
        "pascal" => "PascalCase",
        _ => return None,
    })
}

/// Lower-case ASCII words rendered in `style`; `f` must re-render them in its own style.
fn law_casing_words(w: &J) -> CaseResult {
    let f = jstr(w, "f");
    let style = jstr(w, "style");
    let hinted = w["hint"].as_bool().unwrap_or(false);
    let words: Vec<String> = w["words"].as_array().map(|a| a.iter().map(|x| x.as_str().unwrap_or("").to_string()).collect()).unwrap_or_default();
    let input = render_words(&words, &style);
    let want = render_words(&words, target_style(&f));
    let opts = match (hinted, hint_for(&style)) {
        (true, Some(h)) => format!(", original_case: \"{h}\""),
        (true, None) => return CaseResult::trivial("no-hint-for-style"),
        _ => String::new(),
    };
    let src = format!("{f}(string!(.a){opts})");
    let o = law::call(&src, law::ev1(sv(&input)));
    let Some(got) = o.value().and_then(s_of) else { return bad_outcome("C28.casing-words.outcome", w, &o) };
    let mut r = CaseResult::ok(if got == input { "unchanged" } else { "changed" });
    if got != want {
        r = r.violation(Violation::new(&format!("C28.casing-words.{f}"), w.clone(), format!("{f}({input:?}) == {want:?}"), format!("{got:?}")));
    }
    r
}

// ----------------------------------------------------------------------- law: strip_whitespace

fn law_strip(w: &J) -> CaseResult {
    let s = jstr(w, "s");
    let o = law::call("strip_whitespace(string!(.a))", law::ev1(sv(&s)));
    let Some(got) = o.value().and_then(s_of) else { return bad_outcome("C28.strip.outcome", w, &o) };
    let chars: Vec<char> = s.chars().collect();
    let mut lo = 0;
    let mut hi = chars.len();
    while lo < hi && is_ws(chars[lo]) {
        lo += 1;
    }
    while hi > lo && is_ws(chars[hi - 1]) {
        hi -= 1;
    }
    let want: String = chars[lo..hi].iter().collect();
    let mut r = CaseResult::ok(if want == s { "nothing-to-strip" } else if want.is_empty() { "all-stripped" } else { "stripped" });
    r.nontrivial = want != s;
    if got != want {
        r = r.violation(Violation::new("C28.strip-exactly-outer-whitespace", w.clone(), format!("{want:?}"), format!("{got:?}")));
    }
    r
}

// ----------------------------------------------------------------------------- law: split/join

fn occurrences(v: &[u8], s: &[u8]) -> Vec<usize> {
    let mut out = Vec::new();
    if s.len() > v.len() {
        return out;
    }
    for i in 0..=(v.len() - s.len()) {
        if &v[i..i + s.len()] == s {
            out.push(i);
        }
    }
    out
}

fn law_split(w: &J) -> CaseResult {
    let s = jstr(w, "s");
    let d = jstr(w, "d");
    let limit = w["limit"].as_i64();
    let regex = w["regex"].as_bool().unwrap_or(false);
    let pat = if regex { format!("r'{}'", regex::escape(&d)) } else { "string!(.b)".to_string() };
    let lim = if limit.is_some() { ", limit: int!(.n)" } else { "" };
    // `omit_sep`: join without its optional separator (only generated for the empty delimiter)
    let sep = if w["omit_sep"].as_bool() == Some(true) { "" } else { ", string!(.b)" };
    let src = format!("parts = split(string!(.a), {pat}{lim}); [parts, join!(parts{sep})]");
    let ev = vv::obj(&[("a", sv(&s)), ("b", sv(&d)), ("n", Value::Integer(limit.unwrap_or(0)))]);
    let o = law::call(&src, ev);
    let Some(a) = arr_of(&o) else { return bad_outcome("C28.split.outcome", w, &o) };
    let (Value::Array(parts), Some(joined)) = (&a[0], s_of(&a[1])) else { return bad_outcome("C28.split.outcome", w, &o) };
    let parts: Vec<String> = parts.iter().filter_map(s_of).collect();
    let occurs = !d.is_empty() && !occurrences(s.as_bytes(), d.as_bytes()).is_empty();
    let mut r = CaseResult::ok(if parts.len() > 1 { "several-parts" } else if parts.len() == 1 { "one-part" } else { "no-part" });
    r.nontrivial = parts.len() > 1;
    match limit {
        Some(n) if n <= 0 => {
            // what a non-positive limit means is not stated anywhere: observed, not judged
            return CaseResult::trivial("non-positive-limit").count("split_nonpositive_limit_cases", 1);
        }
        _ => {}
    }
    if joined != s {
        r = r.violation(Violation::new("C28.join-split-roundtrip", w.clone(), format!("join(split(s, d), d) == {s:?}"), format!("{joined:?} (parts {parts:?})")));
    }
    if let (Some(n), false) = (limit, d.is_empty()) {
        // `limit` = maximum number of substrings: with k non-overlapping occurrences (left to
        // right) there are min(n, k + 1) parts
        let (sb, db) = (s.as_bytes(), d.as_bytes());
        let (mut k, mut i) = (0i64, 0usize);
        while i + db.len() <= sb.len() {
            if &sb[i..i + db.len()] == db {
                k += 1;
                i += db.len();
            } else {
                i += 1;
            }
        }
        let want = n.min(k + 1);
        if parts.len() as i64 != want {
            r = r.violation(Violation::new("C28.split-limit-count", w.clone(), format!("{want} parts ({k} occurrences, limit {n})"), format!("{parts:?}")));
        }
    }
    if let Some(n) = limit {
        if parts.len() as i64 > n {
            r = r.violation(Violation::new("C28.split-limit", w.clone(), format!("at most {n} parts"), format!("{parts:?}")));
        }
    }
    if !d.is_empty() {
        if limit.is_none() && parts.iter().any(|p| p.contains(&d)) {
            r = r.violation(Violation::new("C28.split-at-every-occurrence", w.clone(), "no part contains the delimiter", format!("{parts:?}")));
        }
        if !occurs && parts != vec![s.clone()] {
            r = r.violation(Violation::new("C28.split-without-occurrence", w.clone(), format!("[{s:?}]"), format!("{parts:?}")));
        }
        if occurs && limit.is_none_or(|n| n >= 2) && parts.len() < 2 {
            r = r.violation(Violation::new("C28.split-at-every-occurrence", w.clone(), "at least two parts", format!("{parts:?}")));
        }
    }
    r
}

// ---------------------------------------------------------- law: starts_with/ends_with/contains

fn simple_case_char(c: char) -> bool {
    // characters whose lower-case mapping is one char of the same UTF-8 width and context free
    c.is_ascii() || matches!(c, 'é' | 'É' | 'ß' | 'ö' | 'Ö')
}

fn law_affix(w: &J) -> CaseResult {
    let v = jstr(w, "v");
    let s = jstr(w, "s");
    let cs = w["cs"].as_bool();
    let opt = match cs {
        None => String::new(),
        Some(b) => format!(", case_sensitive: {b}"),
    };
    let src = format!(
        "[starts_with(string!(.a), string!(.b){opt}), ends_with(string!(.a), string!(.b){opt}), contains(string!(.a), string!(.b){opt}), find(string!(.a), string!(.b)), contains(string!(.b), string!(.a){opt})]"
    );
    let o = law::call(&src, law::ev2(sv(&v), sv(&s)));
    let Some(a) = arr_of(&o) else { return bad_outcome("C28.affix.outcome", w, &o) };
    let (Value::Boolean(st), Value::Boolean(en), Value::Boolean(co)) = (&a[0], &a[1], &a[2]) else {
        return bad_outcome("C28.affix.outcome", w, &o);
    };
    let (st, en, co) = (*st, *en, *co);
    let occ = occurrences(v.as_bytes(), s.as_bytes());
    let ref_st = occ.first() == Some(&0);
    let ref_en = v.len() >= s.len() && occ.last() == Some(&(v.len() - s.len()));
    let ref_co = !occ.is_empty();
    let mut r = CaseResult::ok(&format!("{}{}{}", u8::from(st), u8::from(en), u8::from(co)));
    r.nontrivial = st || en || co;
    let names = ["starts_with", "ends_with", "contains"];
    let got = [st, en, co];
    let sens = [ref_st, ref_en, ref_co];
    if cs != Some(false) {
        for i in 0..3 {
            if got[i] != sens[i] {
                r = r.violation(Violation::new(&format!("C28.{}-position", names[i]), w.clone(), format!("{} (occurrences at byte offsets {occ:?})", sens[i]), got[i].to_string()));
            }
        }
        // the function that reports substring positions agrees
        let want_find = occ.first().map_or(Value::Null, |p| Value::Integer(*p as i64));
        if a[3] != want_find {
            r = r.violation(Violation::new("C28.find-position", w.clone(), vv::show(&want_find), vv::show(&a[3])));
        }
    } else {
        // a literal occurrence is also a case-insensitive occurrence
        for i in 0..3 {
            if sens[i] && !got[i] {
                r = r.violation(Violation::new(&format!("C28.{}-insensitive-weaker", names[i]), w.clone(), "true (the substring occurs literally at that position)", "false"));
            }
        }
        // a prefix / suffix is a substring
        // strings that contain each other are equal up to case: prefix and suffix of each other
        if co && a[4] == Value::Boolean(true) && !(st && en) {
            r = r.violation(Violation::new("C28.insensitive-equal-strings", w.clone(), "starts_with and ends_with are true for strings that contain each other", format!("starts_with {st}, ends_with {en}")));
        }
        if (st || en) && !co {
            r = r.violation(Violation::new("C28.insensitive-affix-is-substring", w.clone(), "contains is true when starts_with or ends_with is", format!("starts_with {st}, ends_with {en}, contains {co}")));
        }
        if v.chars().chain(s.chars()).all(simple_case_char) {
            let (lv, ls) = (v.to_lowercase(), s.to_lowercase());
            let occ = occurrences(lv.as_bytes(), ls.as_bytes());
            let ins = [occ.first() == Some(&0), lv.len() >= ls.len() && occ.last() == Some(&(lv.len() - ls.len())), !occ.is_empty()];
            for i in 0..3 {
                if got[i] != ins[i] {
                    r = r.violation(Violation::new(&format!("C28.{}-insensitive-position", names[i]), w.clone(), format!("{} (on lower-cased operands)", ins[i]), got[i].to_string()));
                }
            }
            r = r.count("affix_insensitive_reference_judged", 1);
        } else {
            r = r.count("affix_insensitive_special_chars_not_reference_judged", 1);
        }
    }
    r
}

// ------------------------------------------------------------------------ law: truncate/strlen

fn law_truncate(w: &J) -> CaseResult {
    let s = jstr(w, "s");
    let limit = w["limit"].as_i64().unwrap_or(0);
    let suffix = w["suffix"].as_str().map(str::to_string);
    let sfx = if suffix.is_some() { ", suffix: string!(.b)" } else { "" };
    let src = format!("r = truncate(string!(.a), int!(.n){sfx}); [r, strlen(r)]");
    let ev = vv::obj(&[("a", sv(&s)), ("b", sv(suffix.as_deref().unwrap_or(""))), ("n", Value::Integer(limit))]);
    let o = law::call(&src, ev);
    let Some(a) = arr_of(&o) else { return bad_outcome("C28.truncate.outcome", w, &o) };
    let (Some(got), Value::Integer(got_len)) = (s_of(&a[0]), &a[1]) else { return bad_outcome("C28.truncate.outcome", w, &o) };
    let lim = usize::try_from(limit.max(0)).unwrap_or(usize::MAX);
    let n = s.chars().count();
    let sfx_text = suffix.clone().unwrap_or_default();
    let want = if n <= lim { s.clone() } else { s.chars().take(lim).collect::<String>() + &sfx_text };
    let mut r = CaseResult::ok(if n <= lim { "kept" } else { "cut" });
    r.nontrivial = n > lim;
    let bound = (lim as i128) + sfx_text.chars().count() as i128;
    if i128::from(*got_len) > bound || got.chars().count() as i128 > bound {
        r = r.violation(Violation::new("C28.truncate-bound", w.clone(), format!("at most {bound} characters"), format!("{got:?} ({got_len} by strlen)")));
    }
    if got != want {
        r = r.violation(Violation::new("C28.truncate-reference", w.clone(), format!("{want:?}"), format!("{got:?}")));
    }
    r
}

fn law_strlen(w: &J) -> CaseResult {
    let s = jstr(w, "s");
    let o = law::call("[strlen(string!(.a)), length(string!(.a))]", law::ev1(sv(&s)));
    let Some(a) = arr_of(&o) else { return bad_outcome("C28.strlen.outcome", w, &o) };
    let mut r = CaseResult::ok(if s.len() == s.chars().count() { "ascii" } else { "multibyte" });
    r.nontrivial = s.len() != s.chars().count();
    if a[0] != Value::Integer(s.chars().count() as i64) {
        r = r.violation(Violation::new("C28.strlen-scalar-values", w.clone(), s.chars().count().to_string(), vv::show(&a[0])));
    }
    if a[1] != Value::Integer(s.len() as i64) {
        r = r.violation(Violation::new("C28.length-bytes", w.clone(), s.len().to_string(), vv::show(&a[1])));
    }
    r
}

// ---------------------------------------------------------------------------------- law: slice

fn law_slice(w: &J) -> CaseResult {
    let v = vv::dec(&w["v"]);
    let start = w["start"].as_i64().unwrap_or(0);
    let end = w["end"].as_i64();
    let src = if end.is_some() { "slice!(.a, int!(.s), int!(.e))" } else { "slice!(.a, int!(.s))" };
    let ev = vv::obj(&[("a", v.clone()), ("s", Value::Integer(start)), ("e", Value::Integer(end.unwrap_or(0)))]);
    let o = law::call(src, ev);
    let len = match &v {
        Value::Array(a) => a.len() as i128,
        Value::Bytes(b) => b.len() as i128,
        _ => return CaseResult::trivial("bad-witness"),
    };
    // documented: zero-based, negative counts from the end, end exclusive, default end = length
    let ns = if start < 0 { i128::from(start) + len } else { i128::from(start) };
    let ne = match end {
        Some(e) if e < 0 => i128::from(e) + len,
        Some(e) => i128::from(e),
        None => len,
    };
    let in_range = 0 <= ns && ns <= ne && ne <= len;
    let (lo, hi) = (ns.clamp(0, len) as usize, ne.clamp(0, len) as usize);
    let hi = hi.max(lo);
    let got = match &o {
        Outcome::Ok(x) => Some(x.clone()),
        Outcome::Error(_) => None,
        _ => return bad_outcome("C28.slice.outcome", w, &o),
    };
    let mut r = CaseResult::ok(match (&got, in_range) {
        (Some(_), true) => "in-range",
        (Some(_), false) => "out-of-range-accepted",
        (None, false) => "out-of-range-error",
        (None, true) => "in-range-error",
    });
    r.nontrivial = got.is_some() && hi > lo;
    let Some(got) = got else {
        if in_range {
            r = r.violation(Violation::new("C28.slice-in-range-succeeds", w.clone(), format!("elements {lo}..{hi}"), o.show()));
        }
        return r;
    };
    match &v {
        Value::Array(a) => {
            let want = Value::Array(a[lo..hi].to_vec());
            if got != want {
                r = r.violation(Violation::new("C28.slice-array-positions", w.clone(), vv::show(&want), vv::show(&got)));
            }
            // …and literally agrees with VRL's own positional indexing (negative indices when
            // the start was given negative)
            if in_range && hi > lo {
                let idx: Vec<String> = (lo..hi).map(|p| if start < 0 { format!(".a[{}]", p as i128 - len) } else { format!(".a[{p}]") }).collect();
                let isrc = format!("[{}]", idx.join(", "));
                let io = law::call(&isrc, law::ev1(v.clone()));
                if io.value() != Some(&got) {
                    r = r.violation(Violation::new("C28.slice-agrees-with-indexing", w.clone(), format!("{isrc} = {}", io.show()), vv::show(&got)));
                }
                r = r.count("slice_checked_against_vrl_indexing", 1);
            }
        }
        Value::Bytes(b) => {
            let by_bytes = Value::Bytes(b.slice(lo..hi));
            let text = String::from_utf8_lossy(b).to_string();
            let ascii = text.is_ascii();
            if ascii {
                if got != by_bytes {
                    r = r.violation(Violation::new("C28.slice-string-positions", w.clone(), vv::show(&by_bytes), vv::show(&got)));
                }
            } else {
                // whether positions count bytes or characters in multi-byte text is not stated:
                // accept both readings, count which one was taken
                let chars: Vec<char> = text.chars().collect();
                let clen = chars.len() as i128;
                let cs = if start < 0 { i128::from(start) + clen } else { i128::from(start) };
                let ce = match end {
                    Some(e) if e < 0 => i128::from(e) + clen,
                    Some(e) => i128::from(e),
                    None => clen,
                };
                let (cl, ch) = (cs.clamp(0, clen) as usize, ce.clamp(0, clen) as usize);
                let by_chars = Value::from(chars[cl..ch.max(cl)].iter().collect::<String>());
                if got == by_bytes {
                    r = r.count("slice_multibyte_by_bytes", 1);
                } else if got == by_chars {
                    r = r.count("slice_multibyte_by_chars", 1);
                } else {
                    r = r.violation(Violation::new("C28.slice-string-positions", w.clone(), format!("{} (bytes) or {} (characters)", vv::show(&by_bytes), vv::show(&by_chars)), vv::show(&got)));
                }
            }
        }
        _ => {}
    }
    r
}

// --------------------------------------------------------------------------------- law: unique

fn law_unique(w: &J) -> CaseResult {
    let v = vv::dec(&w["v"]);
    let Value::Array(items) = &v else { return CaseResult::trivial("bad-witness") };
    let o = law::call("unique(array!(.a))", law::ev1(v.clone()));
    let Some(got) = arr_of(&o) else { return bad_outcome("C28.unique.outcome", w, &o) };
    let mut seen = BTreeSet::new();
    let mut want = Vec::new();
    for it in items {
        if seen.insert(vv::enc(it).to_string()) {
            want.push(it.clone());
        }
    }
    let mut r = CaseResult::ok(if want.len() == items.len() { "no-duplicates" } else { "duplicates" });
    r.nontrivial = want.len() != items.len();
    let keys: Vec<String> = got.iter().map(|x| vv::enc(x).to_string()).collect();
    let distinct: BTreeSet<&String> = keys.iter().collect();
    if distinct.len() != keys.len() {
        r = r.violation(Violation::new("C28.unique-no-duplicates", w.clone(), "pairwise different items", vv::show(&Value::Array(got.clone()))));
    }
    if *got != want {
        r = r.violation(Violation::new("C28.unique-first-occurrences-in-order", w.clone(), vv::show(&Value::Array(want)), vv::show(&Value::Array(got.clone()))));
    }
    r
}

// -------------------------------------------------------------------------------- law: compact

const FLAGS: [(&str, bool); 6] = [("recursive", true), ("null", true), ("string", true), ("object", true), ("array", true), ("nullish", false)];

#[derive(Clone, Copy)]
struct Opt {
    recursive: bool,
    null: bool,
    string: bool,
    object: bool,
    array: bool,
    nullish: bool,
}

fn ref_nullish(v: &Value) -> bool {
    match v {
        Value::Null => true,
        Value::Bytes(b) => match std::str::from_utf8(b) {
            Ok(s) => s.is_empty() || s == "-" || s.chars().all(is_ws),
            Err(_) => false,
        },
        _ => false,
    }
}

fn ref_empty(o: Opt, v: &Value) -> bool {
    (o.nullish && ref_nullish(v))
        || match v {
            Value::Null => o.null,
            Value::Bytes(b) => o.string && b.is_empty(),
            Value::Object(m) => o.object && m.is_empty(),
            Value::Array(a) => o.array && a.is_empty(),
            _ => false,
        }
}

fn ref_compact(o: Opt, v: &Value, top: bool) -> Value {
    if !top && !o.recursive {
        return v.clone();
    }
    match v {
        Value::Array(a) => Value::Array(a.iter().map(|x| ref_compact(o, x, false)).filter(|x| !ref_empty(o, x)).collect()),
        Value::Object(m) => Value::Object(
            m.iter().map(|(k, x)| (k.clone(), ref_compact(o, x, false))).filter(|(_, x)| !ref_empty(o, x)).collect::<BTreeMap<KeyString, Value>>(),
        ),
        x => x.clone(),
    }
}

fn law_compact(w: &J) -> CaseResult {
    let v = vv::dec(&w["v"]);
    let mut args = String::new();
    let mut vals = [false; 6];
    for (i, (name, default)) in FLAGS.iter().enumerate() {
        match w["flags"][*name].as_bool() {
            Some(b) => {
                args.push_str(&format!(", {name}: {b}"));
                vals[i] = b;
            }
            None => vals[i] = *default,
        }
    }
    let o = Opt { recursive: vals[0], null: vals[1], string: vals[2], object: vals[3], array: vals[4], nullish: vals[5] };
    let coerce = if matches!(v, Value::Array(_)) { "array!(.a)" } else { "object!(.a)" };
    let src = format!("compact({coerce}{args})");
    let out = law::call(&src, law::ev1(v.clone()));
    let Some(got) = out.value() else { return bad_outcome("C28.compact.outcome", w, &out) };
    let want = ref_compact(o, &v, true);
    let mut r = CaseResult::ok(if want == v { "nothing-removed" } else { "removed" });
    r.nontrivial = want != v;
    if *got != want {
        r = r.violation(Violation::new("C28.compact-exactly-configured-empties", w.clone(), vv::show(&want), vv::show(got)));
    }
    r
}

// ---------------------------------------------------------------------- law: keys/values/length

fn law_kvl(w: &J) -> CaseResult {
    let v = vv::dec(&w["v"]);
    match &v {
        Value::Object(m) => {
            let o = law::call("[keys(object!(.a)), values(object!(.a)), length(object!(.a))]", law::ev1(v.clone()));
            let Some(a) = arr_of(&o) else { return bad_outcome("C28.kvl.outcome", w, &o) };
            let (Value::Array(ks), Value::Array(vs), Value::Integer(n)) = (&a[0], &a[1], &a[2]) else { return bad_outcome("C28.kvl.outcome", w, &o) };
            let mut r = CaseResult::ok(&format!("object-{}", m.len().min(3)));
            r.nontrivial = !m.is_empty();
            if *n != m.len() as i64 || ks.len() != m.len() || vs.len() != m.len() {
                r = r.violation(Violation::new("C28.length-keys-values-agree", w.clone(), format!("{} entries", m.len()), format!("length {n}, {} keys, {} values", ks.len(), vs.len())));
                return r;
            }
            let kset: BTreeSet<String> = ks.iter().filter_map(s_of).collect();
            let want: BTreeSet<String> = m.keys().map(|k| k.to_string()).collect();
            if kset != want || kset.len() != ks.len() {
                r = r.violation(Violation::new("C28.keys-are-the-object-keys", w.clone(), format!("{want:?}"), vv::show(&a[0])));
            }
            for (k, x) in ks.iter().zip(vs.iter()) {
                let key = s_of(k).unwrap_or_default();
                if m.get(&KeyString::from(key.as_str())) != Some(x) {
                    r = r.violation(Violation::new("C28.values-correspond-to-keys", w.clone(), format!("values[i] == object[keys[i]] for key {key:?}"), format!("keys {}, values {}", vv::show(&a[0]), vv::show(&a[1]))));
                    break;
                }
            }
            r
        }
        Value::Array(items) => {
            let o = law::call("length(array!(.a))", law::ev1(v.clone()));
            let mut r = CaseResult::ok("array");
            if o.value() != Some(&Value::Integer(items.len() as i64)) {
                r = r.violation(Violation::new("C28.length-array", w.clone(), items.len().to_string(), o.show()));
            }
            r
        }
        _ => CaseResult::trivial("bad-witness"),
    }
}

// ---------------------------------------------------------------------------------- law: merge

fn ref_merge(a: &BTreeMap<KeyString, Value>, b: &BTreeMap<KeyString, Value>, deep: bool) -> BTreeMap<KeyString, Value> {
    let mut out = a.clone();
    for (k, bv) in b {
        let merged = match (deep, a.get(k), bv) {
            (true, Some(Value::Object(x)), Value::Object(y)) => Value::Object(ref_merge(x, y, true)),
            _ => bv.clone(),
        };
        out.insert(k.clone(), merged);
    }
    out
}

fn law_merge(w: &J) -> CaseResult {
    let (a, b) = (vv::dec(&w["a"]), vv::dec(&w["b"]));
    let (Value::Object(ma), Value::Object(mb)) = (&a, &b) else { return CaseResult::trivial("bad-witness") };
    let deep = w["deep"].as_bool();
    let opt = deep.map_or(String::new(), |d| format!(", deep: {d}"));
    let src = format!("merge(object!(.a), object!(.b){opt})");
    let o = law::call(&src, law::ev2(a.clone(), b.clone()));
    let Some(Value::Object(got)) = o.value() else { return bad_outcome("C28.merge.outcome", w, &o) };
    let shared = ma.keys().filter(|k| mb.contains_key(*k)).count();
    let mut r = CaseResult::ok(if shared > 0 { "shared-keys" } else { "disjoint" });
    r.nontrivial = shared > 0;
    // the property's own clause, stated directly (shallow: b's value; deep: b's value unless
    // both sides are objects)
    for (k, bv) in mb {
        let both_objects = matches!((ma.get(k), bv), (Some(Value::Object(_)), Value::Object(_)));
        if deep == Some(true) && both_objects {
            continue;
        }
        if got.get(k) != Some(bv) {
            r = r.violation(Violation::new("C28.merge-b-wins-on-shared-keys", w.clone(), format!("result[{k:?}] == {}", vv::show(bv)), format!("{}", got.get(k).map_or("absent".to_string(), vv::show))));
        }
    }
    let want = ref_merge(ma, mb, deep == Some(true));
    if *got != want {
        r = r.violation(Violation::new("C28.merge-reference", w.clone(), vv::show(&Value::Object(want)), vv::show(&Value::Object(got.clone()))));
    }
    r
}

// ------------------------------------------------------------------------------------ dispatch

fn case(w: &J) -> CaseResult {
    match w["law"].as_str().unwrap_or("") {
        "idem" => law_idem(w),
        "casing-words" => law_casing_words(w),
        "strip" => law_strip(w),
        "split" => law_split(w),
        "affix" => law_affix(w),
        "truncate" => law_truncate(w),
        "strlen" => law_strlen(w),
        "slice" => law_slice(w),
        "unique" => law_unique(w),
        "compact" => law_compact(w),
        "kvl" => law_kvl(w),
        "merge" => law_merge(w),
        _ => CaseResult::trivial("unknown-law"),
    }
}

pub fn replay(_property: &str, w: &J) -> Vec<Violation> {
    case(w).violations
}

// ---------------------------------------------------------------------------------- alphabets

fn strs(alphabet: &[&str], max_len: usize) -> Vec<String> {
    law::strings_over(alphabet, max_len)
}

/// Case-mapping oddities: title-case digraph, ligature, dotted capital I, final sigma, ʼn,
/// capital sharp s, Kelvin sign, astral char, combining accent.
const CASE_SPECIALS: [&str; 16] =
    ["ǅ", "ﬁ", "İ", "ΑΣ", "ΑΣΑ", "ς", "ŉ", "ß", "ẞ", "\u{212a}", "😀", "a\u{301}", "ǅa", "aİb", "Σ", "ǆ"];

fn leafs() -> Vec<Value> {
    use vv::{arr, i, obj, s};
    vec![Value::Null, s(""), s(" "), s("-"), s("a"), i(0), Value::Boolean(false), arr(&[]), obj(&[])]
}

fn nested_items() -> Vec<Value> {
    use vv::{arr, obj, s};
    let mut v = leafs();
    v.extend([
        arr(&[Value::Null]),
        arr(&[s("")]),
        arr(&[arr(&[])]),
        arr(&[obj(&[])]),
        arr(&[s("a")]),
        arr(&[s(" ")]),
        arr(&[s("-")]),
        arr(&[arr(&[Value::Null])]),
        arr(&[Value::Null, s("a")]),
        obj(&[("k", Value::Null)]),
        obj(&[("k", s(""))]),
        obj(&[("k", arr(&[]))]),
        obj(&[("k", obj(&[]))]),
        obj(&[("k", s("a"))]),
        obj(&[("k", s("-"))]),
        obj(&[("k", s("\t\n"))]),
        obj(&[("k", arr(&[Value::Null]))]),
        obj(&[("k", obj(&[("j", Value::Null)]))]),
        obj(&[("k", Value::Null), ("l", s("a"))]),
    ]);
    v
}

fn tuples(items: &[Value], max_len: usize) -> Vec<Vec<Value>> {
    let mut out: Vec<Vec<Value>> = vec![vec![]];
    let mut level: Vec<Vec<Value>> = vec![vec![]];
    for _ in 0..max_len {
        let mut next = Vec::new();
        for t in &level {
            for it in items {
                let mut u = t.clone();
                u.push(it.clone());
                next.push(u);
            }
        }
        out.extend(next.iter().cloned());
        level = next;
    }
    out
}

fn objects(keys: &[&str], values: &[Value], max_keys: usize) -> Vec<Value> {
    // every key subset of size <= max_keys (in key order) x every value assignment
    let mut out = Vec::new();
    let n = keys.len();
    for mask in 0u32..(1 << n) {
        if mask.count_ones() as usize > max_keys {
            continue;
        }
        let chosen: Vec<&str> = (0..n).filter(|i| mask & (1 << i) != 0).map(|i| keys[i]).collect();
        for t in tuples_exact(values, chosen.len()) {
            out.push(Value::Object(chosen.iter().zip(t).map(|(k, v)| (KeyString::from(*k), v)).collect()));
        }
    }
    out
}

fn tuples_exact(items: &[Value], len: usize) -> Vec<Vec<Value>> {
    let mut level: Vec<Vec<Value>> = vec![vec![]];
    for _ in 0..len {
        let mut next = Vec::new();
        for t in &level {
            for it in items {
                let mut u = t.clone();
                u.push(it.clone());
                next.push(u);
            }
        }
        level = next;
    }
    level
}

// ---------------------------------------------------------------------------------------- run

pub fn run(tier: Tier) -> Report {
    let mut rep = Report::new("C28", tier, "exploration");
    let deep = tier.thorough();

    // ---- idempotence (and upcase/downcase reference)
    {
        let alpha: &[&str] = &["a", "b", "B", "C", "1", " ", "-", "_", ".", "é", "ß"];
        let mut inputs = strs(alpha, if deep { 5 } else { 4 });
        inputs.extend(CASE_SPECIALS.iter().map(|s| s.to_string()));
        inputs.extend(["fooBar", "FooBar", "foo_bar", "FOO_BAR", "foo-bar", "XMLHttpRequest", "s3BucketDetails", "version2Release", "a  b", " a", "a ", "__a", "a--b", "É", "éA", "aÉ"].map(String::from));
        let mut cases = Vec::new();
        for f in ["upcase", "downcase"].iter().chain(CASE_FNS.iter()) {
            // camelCase / PascalCase: one length less than the others (their one-letter-word
            // behaviour is a known finding; the longest strings add volume only)
            let reduced = matches!(*f, "camelcase" | "pascalcase");
            let longest = if deep { 5 } else { 4 };
            for s in &inputs {
                // (the enumerated strings of the greatest length are left out for these two)
                if reduced && s.chars().count() == longest && s.chars().all(|c| alpha.iter().any(|a| a.chars().next() == Some(c))) {
                    continue;
                }
                cases.push(json!({"law": "idem", "f": f, "opts": "", "s": s}));
            }
        }
        law::drive(&mut rep, "idempotent", &cases, case);

        let short = {
            let mut v = strs(alpha, 3);
            v.extend(["fooBar", "FooBar", "foo_bar", "FOO_BAR", "foo-bar", "XMLHttpRequest", "s3BucketDetails"].map(String::from));
            v
        };
        let mut cases = Vec::new();
        for f in CASE_FNS {
            for oc in ["camelCase", "PascalCase", "SCREAMING_SNAKE", "snake_case", "kebab-case"] {
                for s in &short {
                    cases.push(json!({"law": "idem", "f": f, "opts": format!(", original_case: \"{oc}\""), "s": s}));
                }
            }
        }
        for eb in [
            "[]",
            "[\"lower_upper\"]",
            "[\"upper_lower\"]",
            "[\"acronym\"]",
            "[\"lower_digit\"]",
            "[\"upper_digit\"]",
            "[\"digit_lower\"]",
            "[\"digit_upper\"]",
            "[\"digit_lower\", \"lower_digit\", \"upper_digit\"]",
            "[\"lower_upper\", \"upper_lower\", \"acronym\", \"lower_digit\", \"upper_digit\", \"digit_lower\", \"digit_upper\"]",
        ] {
            for s in &short {
                cases.push(json!({"law": "idem", "f": "snakecase", "opts": format!(", excluded_boundaries: {eb}"), "s": s}));
                cases.push(json!({"law": "idem", "f": "snakecase", "opts": format!(", original_case: \"camelCase\", excluded_boundaries: {eb}"), "s": s}));
            }
        }
        law::drive(&mut rep, "idempotent-with-options", &cases, case);
    }

    // ---- casing functions on plain word lists
    {
        let pool = ["ab", "foo", "x", "bar", "zz"];
        let mut lists: Vec<Vec<&str>> = Vec::new();
        for a in pool {
            lists.push(vec![a]);
            for b in pool {
                lists.push(vec![a, b]);
                for c in pool {
                    lists.push(vec![a, b, c]);
                }
            }
        }
        let mut cases = Vec::new();
        for f in CASE_FNS {
            for style in ["space", "kebab", "snake", "screaming", "camel", "pascal"] {
                for l in &lists {
                    // one-letter words are ambiguous in camel/Pascal/SCREAMING input (acronyms)
                    if matches!(style, "camel" | "pascal") && l.iter().any(|x| x.len() < 2) {
                        continue;
                    }
                    for hint in [false, true] {
                        if hint && style == "space" {
                            continue;
                        }
                        cases.push(json!({"law": "casing-words", "f": f, "style": style, "words": l, "hint": hint}));
                    }
                }
            }
        }
        law::drive(&mut rep, "casing-words", &cases, case);
    }

    // ---- strip_whitespace
    {
        let alpha: &[&str] = &[
            "a", " ", "\t", "\n", "\r", "\u{b}", "\u{c}", "\u{1c}", "\u{85}", "\u{a0}", "\u{1680}", "\u{180e}", "\u{2003}", "\u{200a}", "\u{200b}",
            "\u{2028}", "\u{202f}", "\u{205f}", "\u{3000}", "\u{feff}", "é",
        ];
        let mut inputs = strs(alpha, if deep { 4 } else { 3 });
        inputs.extend(["  a b  ", " \t\n", "a  \u{a0}b\u{3000}", "\u{2029}x\u{2029}"].map(String::from));
        let cases: Vec<J> = inputs.iter().map(|s| json!({"law": "strip", "s": s})).collect();
        law::drive(&mut rep, "strip_whitespace", &cases, case);
    }

    // ---- split / join
    {
        let mut inputs = strs(&["a", "B", " ", "\t", "é", "ß", ".", "-", ",", "b"], 3);
        inputs.extend(strs(&["a", ",", "b"], if deep { 7 } else { 5 }));
        inputs.extend(strs(&["é", "a"], 5));
        inputs.sort();
        inputs.dedup();
        let delims = [",", "", "ab", "é", " ", "aa", ".", "a", ",,", "a,a", "😀"];
        let limits: [Option<i64>; 8] = [None, Some(1), Some(2), Some(3), Some(999), Some(0), Some(-1), Some(i64::MAX)];
        let mut cases = Vec::new();
        for s in &inputs {
            for d in delims {
                for l in limits {
                    cases.push(json!({"law": "split", "s": s, "d": d, "limit": l, "regex": false}));
                    if d.is_empty() {
                        cases.push(json!({"law": "split", "s": s, "d": d, "limit": l, "regex": false, "omit_sep": true}));
                    }
                    if !d.is_empty() {
                        cases.push(json!({"law": "split", "s": s, "d": d, "limit": l, "regex": true}));
                    }
                }
            }
        }
        law::drive(&mut rep, "split-join", &cases, case);
    }

    // ---- starts_with / ends_with / contains (/ find)
    {
        let vs = strs(&["a", "b", "B", "é", "É", "."], if deep { 4 } else { 3 });
        let ss = strs(&["a", "b", "B", "é", "É", "."], 2);
        let mut cases = Vec::new();
        for cs in [J::Null, json!(true), json!(false)] {
            for v in &vs {
                for s in &ss {
                    cases.push(json!({"law": "affix", "v": v, "s": s, "cs": cs}));
                }
            }
        }
        // multi-byte / special-casing characters, all ordered pairs of short strings
        let sp = strs(&["i", "İ", "k", "\u{212a}", "Σ", "σ", "ς", "ß", "ẞ", "s", "a"], 2);
        for cs in [json!(true), json!(false)] {
            for v in &sp {
                for s in &sp {
                    cases.push(json!({"law": "affix", "v": v, "s": s, "cs": cs}));
                }
            }
        }
        law::drive(&mut rep, "affix", &cases, case);
    }

    // ---- truncate, strlen
    {
        let mut inputs = strs(&["a", "é", "😀", " ", "\u{301}"], if deep { 5 } else { 4 });
        inputs.extend(["Supercalifragilistic", "ééééééééééé", "0123456789", "0123456789a"].map(String::from));
        let limits = [-1i64, 0, 1, 2, 3, 4, 10, 11, i64::MAX, i64::MIN];
        let suffixes = [J::Null, json!(""), json!("…"), json!("..."), json!("[é]")];
        let mut cases = Vec::new();
        for s in &inputs {
            for l in limits {
                for x in &suffixes {
                    cases.push(json!({"law": "truncate", "s": s, "limit": l, "suffix": x}));
                }
            }
        }
        law::drive(&mut rep, "truncate", &cases, case);
        let mut inputs = strs(&["a", "é", "ß", "😀", "\u{301}", "\u{0}", "€", "\u{10ffff}"], if deep { 5 } else { 4 });
        inputs.extend(CASE_SPECIALS.iter().map(|s| s.to_string()));
        let cases: Vec<J> = inputs.iter().map(|s| json!({"law": "strlen", "s": s})).collect();
        law::drive(&mut rep, "strlen", &cases, case);
    }

    // ---- slice
    {
        let mut subjects: Vec<Value> = Vec::new();
        for n in 0..=4usize {
            subjects.push(Value::Array((0..n).map(|k| Value::Integer(10 + k as i64)).collect()));
        }
        subjects.push(vv::arr(&[vv::s("x"), Value::Null, vv::arr(&[]), vv::obj(&[("a", vv::i(1))])]));
        for s in ["", "a", "ab", "abc", "abcd", "é", "aéb", "😀x", "éé"] {
            subjects.push(vv::s(s));
        }
        let mut pos: Vec<i64> = (-6..=6).collect();
        pos.extend([i64::MIN, i64::MIN + 1, i64::MAX, i64::MAX - 1]);
        let mut cases = Vec::new();
        for v in &subjects {
            for s in &pos {
                cases.push(json!({"law": "slice", "v": vv::enc(v), "start": s, "end": J::Null}));
                for e in &pos {
                    cases.push(json!({"law": "slice", "v": vv::enc(v), "start": s, "end": e}));
                }
            }
        }
        law::drive(&mut rep, "slice", &cases, case);
    }

    // ---- unique
    {
        use vv::{arr, f, i, obj, s};
        let items = vec![
            i(1), f(1.0), s("1"), s("a"), s("A"), Value::Null, Value::Boolean(true), arr(&[]), arr(&[i(1)]), obj(&[]), obj(&[("a", i(1))]), i(0), s(""),
            vv::ts("2021-02-03T04:05:06Z"),
        ];
        let cases: Vec<J> = tuples(&items, if deep { 5 } else { 4 }).into_iter().map(|t| json!({"law": "unique", "v": vv::enc(&Value::Array(t))})).collect();
        law::drive(&mut rep, "unique", &cases, case);
    }

    // ---- compact
    {
        let nested = nested_items();
        let mut subjects: Vec<Value> = tuples(&nested, 2).into_iter().map(Value::Array).collect();
        subjects.extend(tuples_exact(&leafs(), 3).into_iter().map(Value::Array));
        subjects.extend(objects(&["a", "b"], &nested, 2));
        if deep {
            subjects.extend(tuples_exact(&nested, 3).into_iter().map(Value::Array));
        }
        // flag settings: every explicit combination, and every combination of "left out" vs
        // "explicit non-default"
        let mut flagsets: Vec<J> = Vec::new();
        for mask in 0u32..64 {
            let mut exp = serde_json::Map::new();
            let mut omit = serde_json::Map::new();
            for (i, (name, default)) in FLAGS.iter().enumerate() {
                let b = mask & (1 << i) != 0;
                exp.insert((*name).into(), json!(b));
                if b != *default {
                    omit.insert((*name).into(), json!(b));
                }
            }
            flagsets.push(J::Object(exp));
            flagsets.push(J::Object(omit));
        }
        let n = (subjects.len() * flagsets.len()) as u64;
        law::drive_indexed(
            &mut rep,
            "compact",
            n,
            |i| {
                let (si, fi) = ((i as usize) / flagsets.len(), (i as usize) % flagsets.len());
                json!({"law": "compact", "v": vv::enc(&subjects[si]), "flags": flagsets[fi]})
            },
            case,
        );
    }

    // ---- keys / values / length
    {
        let keys = ["", "a", "b", "a b", "é", "B", "a.b", "10", "9"];
        let vals = leafs();
        let mut subjects = objects(&keys, &vals[..5], 2);
        subjects.extend(objects(&keys[..6], &[vv::i(1), Value::Null, vv::obj(&[])], 4));
        subjects.extend(tuples(&vals, 3).into_iter().map(Value::Array));
        let cases: Vec<J> = subjects.iter().map(|v| json!({"law": "kvl", "v": vv::enc(v)})).collect();
        law::drive(&mut rep, "keys-values-length", &cases, case);
    }

    // ---- merge
    {
        use vv::{arr, i, obj};
        let vals = vec![
            i(1), Value::Null, obj(&[]), obj(&[("a", i(1))]), obj(&[("a", i(2)), ("b", i(3))]), arr(&[i(1)]),
            obj(&[("a", obj(&[("b", i(1))]))]), obj(&[("a", obj(&[("c", i(2))])), ("d", Value::Null)]),
        ];
        let objs = objects(&["a", "b", "c"], &vals, 2);
        let n = (objs.len() * objs.len() * 3) as u64;
        let deeps = [J::Null, json!(false), json!(true)];
        law::drive_indexed(
            &mut rep,
            "merge",
            n,
            |i| {
                let i = i as usize;
                let (d, rest) = (i % 3, i / 3);
                let (ai, bi) = (rest % objs.len(), rest / objs.len());
                json!({"law": "merge", "a": vv::enc(&objs[ai]), "b": vv::enc(&objs[bi]), "deep": deeps[d]})
            },
            case,
        );
    }

    rep.set(
        "rule",
        "one case = (law, input, options), evaluated by compiled VRL snippets and compared with a hand-written reference. Inputs: all strings up to length 3-5 over per-law alphabets (ASCII upper/lower/digit/delimiters, é ß, multi-byte and astral chars, every Unicode White_Space class plus look-alikes that are not white space, case-mapping oddities), delimiters incl. empty/multi-char/overlapping, all limit/suffix/case_sensitive/original_case/excluded_boundaries/deep settings, slice positions [-6,6] plus i64 extremes on arrays and strings of length 0-4, arrays up to length 4 over 14 items for unique, every 2^6 compact flag combination (explicit and by omission) over nested arrays/objects with empty members, objects over 9 keys for keys/values/length, all ordered pairs of 0-2-key objects for merge x deep. A case is non-trivial when the function under test had something to do (changed its input, found the substring, cut the string, removed an item, had shared keys); distinct_nontrivial counts distinct non-trivial witnesses.",
    );
    rep.assume("Rust std to_uppercase/to_lowercase are the reference for upcase/downcase; all other references are hand-written in c28.rs");
    rep.assume("strings that are not valid UTF-8 are outside the property's quantifier (\"all Unicode strings\") and are not enumerated");
    rep.assume("split with a non-positive limit, slice on multi-byte strings (bytes vs characters) and out-of-range slice bounds are observed but not judged");
    rep
}
