//! C19 — soundness of the Kind abstraction, checked as a simulation: state = (value v, kind K)
//! with v ∈ K; every action is applied to both components through the real `Value` and `Kind`
//! operations and the membership relation must be preserved.

use crate::explore::{self, BfsStats};
use crate::model::member::{member, member_lenient, why_not};
use crate::model::tree::{self, Path, Seg};
use crate::report::{Report, Tier, Violation};
use crate::util::guarded;
use crate::vv;
use serde_json::{Value as J, json};
use std::collections::BTreeSet;
use vrl::value::kind::Collection;
use vrl::value::kind::merge::{CollisionStrategy, Strategy};
use vrl::value::{Kind, Value};

#[derive(Clone)]
pub struct St {
    v: Value,
    k: Kind,
    /// witness: seed description + action trace
    seed: J,
    trace: Vec<J>,
}

fn value_pool(tier: Tier) -> Vec<Value> {
    use vv::{arr, f, i, obj, s};
    let mut v = vec![
        Value::Null,
        Value::Boolean(true),
        i(1),
        f(1.5),
        s("s"),
        vv::ts("2021-02-03T04:05:06Z"),
        arr(&[]),
        arr(&[i(1)]),
        arr(&[i(1), s("s"), Value::Boolean(true)]),
        arr(&[i(1), i(2)]),
        arr(&[arr(&[i(1)]), obj(&[("a", i(3))])]),
        arr(&[Value::Null, s("x")]),
        obj(&[]),
        obj(&[("a", i(1))]),
        obj(&[("a", s("s")), ("b", i(2))]),
        obj(&[("a", obj(&[("b", i(2))]))]),
        obj(&[("a", arr(&[i(1), s("s")]))]),
        obj(&[("a", Value::Null)]),
        obj(&[("b", arr(&[]))]),
        obj(&[("a", arr(&[i(1)])), ("b", s("x"))]),
    ];
    if tier.thorough() {
        v.extend([
            obj(&[("a", obj(&[("b", arr(&[i(1), i(2)]))])), ("b", s("x"))]),
            arr(&[obj(&[("a", arr(&[s("q")]))]), i(5), arr(&[])]),
            obj(&[("a", obj(&[])), ("b", obj(&[("a", Value::Null)]))]),
        ]);
    }
    v
}

/// Kinds containing `v`, by name (the name is part of the witness and is resolvable on replay).
fn kind_gens(v: &Value) -> Vec<(String, Kind)> {
    let exact = Kind::from(v);
    let mut out = vec![("exact".to_string(), exact.clone()), ("any".to_string(), Kind::any())];
    let plus = if matches!(v, Value::Bytes(_)) { exact.clone().or_integer() } else { exact.clone().or_bytes() };
    out.push(("exact|prim".into(), plus));
    out.push(("exact|undefined".into(), exact.clone().or_undefined()));
    out.push(("exact|null".into(), exact.clone().or_null()));
    match v {
        Value::Array(items) => {
            let union = items.iter().fold(Kind::never(), |acc, x| acc.union(Kind::from(x)));
            let un = if items.is_empty() { Kind::undefined() } else { union.clone() };
            out.push(("array<union>".into(), Kind::array(Collection::from_unknown(un))));
            let c = exact.as_array().cloned().expect("array");
            out.push(("array-known+any".into(), Kind::array(c.clone().with_unknown(Kind::any()))));
            out.push(("array-known+bytes".into(), Kind::array(c.clone().with_unknown(Kind::bytes()))));
            out.push(("array-known+opt".into(), Kind::array(c.clone().with_known(items.len(), Kind::integer().or_undefined()))));
            if items.len() >= 2 {
                let rest = items[1..].iter().fold(Kind::never(), |acc, x| acc.union(Kind::from(x)));
                out.push(("array-first+rest".into(), Kind::array(Collection::from_unknown(rest).with_known(0usize, Kind::from(&items[0])))));
            }
            out.push(("array|object-any".into(), exact.clone().or_object(Collection::any())));
            out.push(("array-of-any".into(), Kind::array(Collection::any())));
        }
        Value::Object(map) => {
            let union = map.values().fold(Kind::never(), |acc, x| acc.union(Kind::from(x)));
            let un = if map.is_empty() { Kind::undefined() } else { union.clone() };
            out.push(("object<union>".into(), Kind::object(Collection::from_unknown(un))));
            let c = exact.as_object().cloned().expect("object");
            out.push(("object-known+any".into(), Kind::object(c.clone().with_unknown(Kind::any()))));
            out.push(("object-known+bytes".into(), Kind::object(c.clone().with_unknown(Kind::bytes()))));
            out.push(("object-known+opt".into(), Kind::object(c.clone().with_known("z", Kind::integer().or_undefined()))));
            if let Some((k0, v0)) = map.iter().next() {
                let rest = map.iter().skip(1).fold(Kind::never(), |acc, (_, x)| acc.union(Kind::from(x)));
                let rest = if map.len() == 1 { Kind::undefined() } else { rest };
                out.push(("object-first+rest".into(), Kind::object(Collection::from_unknown(rest).with_known(k0.as_str(), Kind::from(v0).or_undefined()))));
            }
            out.push(("object|array-any".into(), exact.clone().or_array(Collection::any())));
            out.push(("object-of-any".into(), Kind::object(Collection::any())));
            out.push(("json".into(), Kind::json()));
        }
        Value::Timestamp(_) | Value::Regex(_) => {}
        _ => {
            out.push(("json".into(), Kind::json()));
        }
    }
    // nested collections opened up: every NESTED array / object keeps its known members and additionally admits
    // unknown members of the union of their kinds (`{a: [integer, ...integer]}`): schema-like kinds that no literal has
    if matches!(v, Value::Array(_) | Value::Object(_)) {
        let opened = open_nested(&exact, true);
        if opened != exact {
            out.push(("nested-open".into(), opened));
        }
    }
    out.retain(|(n, k)| n != "json" || member(v, k));
    out
}

fn open_nested(k: &Kind, top: bool) -> Kind {
    let mut out = k.clone();
    if let Some(a) = k.as_array() {
        let mut c: Collection<vrl::value::kind::Index> = Collection::empty();
        let mut un = Kind::never();
        for (i, e) in a.known() {
            let e2 = open_nested(e, false);
            un = un.union(e2.clone());
            c = c.with_known(*i, e2);
        }
        if !top {
            c.set_unknown(if un.is_never() { Kind::integer() } else { un });
        }
        out = Kind::array(c);
    } else if let Some(o) = k.as_object() {
        let mut c: Collection<vrl::value::kind::Field> = Collection::empty();
        let mut un = Kind::never();
        for (f, e) in o.known() {
            let e2 = open_nested(e, false);
            un = un.union(e2.clone());
            c = c.with_known(f.clone(), e2);
        }
        if !top {
            c.set_unknown(if un.is_never() { Kind::integer() } else { un });
        }
        out = Kind::object(c);
    }
    out
}

fn gen_by_name(v: &Value, name: &str) -> Option<Kind> {
    kind_gens(v).into_iter().find(|(n, _)| n == name).map(|(_, k)| k)
}

fn segs(wide: bool) -> Vec<Seg> {
    let mut v = vec![Seg::F("a".into()), Seg::F("b".into()), Seg::I(0), Seg::I(1), Seg::I(-1), Seg::I(-2)];
    if wide {
        v.extend([Seg::F("z".into()), Seg::I(2), Seg::I(-3)]);
    }
    v
}

fn paths(max_len: usize, wide: bool) -> Vec<Path> {
    let s = segs(wide);
    let mut out: Vec<Path> = vec![vec![]];
    let mut level: Vec<Path> = vec![vec![]];
    for _ in 0..max_len {
        let mut next = Vec::new();
        for p in &level {
            for seg in &s {
                let mut q = p.clone();
                q.push(seg.clone());
                next.push(q);
            }
        }
        out.extend(next.iter().cloned());
        level = next;
    }
    out
}

#[derive(Clone, Debug)]
enum Action {
    Get(Path),
    Insert(Path, Value, String),
    Remove(Path, bool),
    Union(String),
    Merge(Value, String, bool),
}

fn union_pool() -> Vec<(String, Kind)> {
    union_pool_with_members().into_iter().map(|(n, k, _)| (n, k)).collect()
}

/// Union operands together with some of their members ("a union contains every member of its operands").
fn union_pool_with_members() -> Vec<(String, Kind, Vec<Value>)> {
    use vv::{arr, i, obj, s};
    vec![
        ("bytes".into(), Kind::bytes(), vec![s("x")]),
        ("null".into(), Kind::null(), vec![Value::Null]),
        ("undefined".into(), Kind::undefined(), vec![]),
        ("array-any".into(), Kind::array(Collection::any()), vec![arr(&[]), arr(&[i(1), s("x")])]),
        ("array<int>".into(), Kind::array(Collection::from_unknown(Kind::integer())), vec![arr(&[]), arr(&[i(1), i(2)])]),
        ("array[0:bytes]".into(), Kind::array(Collection::empty().with_known(0usize, Kind::bytes())), vec![arr(&[s("x")])]),
        ("object{a:bytes}".into(), Kind::object(Collection::empty().with_known("a", Kind::bytes())), vec![obj(&[("a", s("x"))])]),
        ("object<float>".into(), Kind::object(Collection::from_unknown(Kind::float())), vec![obj(&[]), obj(&[("z", vv::f(1.5))])]),
        (
            "object{a:{b:ts}}".into(),
            Kind::object(Collection::empty().with_known("a", Kind::object(Collection::empty().with_known("b", Kind::timestamp())))),
            vec![obj(&[("a", obj(&[("b", vv::ts("2021-02-03T04:05:06Z"))]))])],
        ),
        // closed empty collections: their only member has NO fields / elements at all
        ("object{}".into(), Kind::object(Collection::empty()), vec![obj(&[])]),
        ("array[]".into(), Kind::array(Collection::empty()), vec![arr(&[])]),
        ("object{a:bytes?}".into(), Kind::object(Collection::empty().with_known("a", Kind::bytes().or_undefined())), vec![obj(&[]), obj(&[("a", s("x"))])]),
    ]
}

fn actions(plen: usize, wide: bool) -> Vec<Action> {
    use vv::{arr, i, obj, s};
    let mut out = Vec::new();
    let ps = paths(plen, wide);
    for p in &ps {
        out.push(Action::Get(p.clone()));
        out.push(Action::Remove(p.clone(), false));
        out.push(Action::Remove(p.clone(), true));
        for x in [i(7), s("x"), obj(&[("k", i(1))]), arr(&[i(9)]), Value::Null] {
            for g in ["exact", "any", "exact|prim", "exact|undefined"] {
                out.push(Action::Insert(p.clone(), x.clone(), g.to_string()));
            }
        }
    }
    for (n, _) in union_pool() {
        out.push(Action::Union(n));
    }
    for b in [obj(&[]), obj(&[("a", s("q"))]), obj(&[("b", obj(&[("a", i(1))]))]), obj(&[("a", arr(&[i(1)])), ("c", Value::Null)])] {
        for g in ["exact", "object-known+any", "object<union>", "object-first+rest", "any"] {
            for shallow in [true, false] {
                out.push(Action::Merge(b.clone(), g.to_string(), shallow));
            }
        }
    }
    out
}

fn path_json(p: &[Seg]) -> J {
    J::Array(p.iter().map(|s| match s { Seg::F(f) => json!(f), Seg::I(i) => json!(i) }).collect())
}

fn path_from_json(j: &J) -> Path {
    j.as_array().map(|a| a.iter().map(|s| if let Some(i) = s.as_i64() { Seg::I(i) } else { Seg::F(s.as_str().unwrap_or("").to_string()) }).collect()).unwrap_or_default()
}

fn action_json(a: &Action) -> J {
    match a {
        Action::Get(p) => json!({"op": "get", "path": path_json(p)}),
        Action::Insert(p, x, g) => json!({"op": "insert", "path": path_json(p), "value": vv::enc(x), "kind_of_value": g}),
        Action::Remove(p, prune) => json!({"op": "remove", "path": path_json(p), "prune": prune}),
        Action::Union(n) => json!({"op": "union", "with": n}),
        Action::Merge(b, g, shallow) => json!({"op": "merge", "value": vv::enc(b), "kind_of_value": g, "strategy": if *shallow { "overwrite" } else { "union" }}),
    }
}

fn action_from_json(j: &J) -> Action {
    let p = path_from_json(&j["path"]);
    match j["op"].as_str().unwrap_or("") {
        "get" => Action::Get(p),
        "insert" => Action::Insert(p, vv::dec(&j["value"]), j["kind_of_value"].as_str().unwrap_or("exact").to_string()),
        "remove" => Action::Remove(p, j["prune"].as_bool().unwrap_or(false)),
        "union" => Action::Union(j["with"].as_str().unwrap_or("").to_string()),
        _ => Action::Merge(vv::dec(&j["value"]), j["kind_of_value"].as_str().unwrap_or("exact").to_string(), j["strategy"] == "overwrite"),
    }
}

#[derive(Default)]
pub struct Acc {
    violations: Vec<Violation>,
    classes: BTreeSet<String>,
    checks: u64,
}

fn witness(st: &St, a: &Action) -> J {
    let mut trace = st.trace.clone();
    trace.push(action_json(a));
    json!({"seed": st.seed, "trace": trace, "state_value": vv::enc(&st.v), "state_kind": st.k.to_string()})
}

fn push_trace(st: &St, a: &Action, v: Value, k: Kind) -> St {
    let mut trace = st.trace.clone();
    trace.push(action_json(a));
    St { v, k, seed: st.seed.clone(), trace }
}

/// Invariants evaluated in every state (not per action).
fn state_invariants(st: &St, acc: &mut Acc) {
    let w = || json!({"seed": st.seed, "trace": st.trace, "state_value": vv::enc(&st.v), "state_kind": st.k.to_string()});
    acc.checks += 1;
    let r = guarded(|| st.k.is_superset(&Kind::from(&st.v)).is_ok());
    match r {
        Err(p) => acc.violations.push(Violation::new("C19.panic", w(), "no panic", p)),
        Ok(sup) => {
            // v ∈ K holds by construction of the state; the subtype test must agree
            if !sup {
                acc.violations.push(Violation::new("C19.subtype-test-rejects-member", w(), "K.is_superset(kind_of(v)) since v ∈ K", "not a superset"));
            }
        }
    }
}

pub fn step(st: &St, a: &Action, acc: &mut Acc) -> Option<St> {
    let w = || witness(st, a);
    acc.checks += 1;
    match a {
        Action::Get(p) => {
            let op = tree::to_owned_path(p);
            let r = guarded(|| (st.k.at_path(&op), st.k.get(&op)));
            let (kp, kg) = match r {
                Ok(x) => x,
                Err(panic) => {
                    acc.violations.push(Violation::new("C19.panic", w(), "no panic", panic));
                    return None;
                }
            };
            match st.v.get(&op) {
                Some(x) => {
                    acc.classes.insert("get:some".into());
                    if !kp.contains_any_defined() || !member(x, &kp) {
                        acc.violations.push(Violation::new("C19.get-some", w(), format!("{} ∈ at_path kind", vv::show(x)), format!("kind {kp}: {}", why_not(x, &kp).unwrap_or_default())));
                        return None;
                    }
                    if !member(x, &kg) {
                        acc.violations.push(Violation::new("C19.get-upgraded", w(), format!("{} ∈ get kind", vv::show(x)), format!("kind {kg}")));
                    }
                    Some(push_trace(st, a, x.clone(), kp))
                }
                None => {
                    acc.classes.insert("get:none".into());
                    if !kp.contains_undefined() {
                        acc.violations.push(Violation::new("C19.get-none", w(), "at_path kind admits undefined (value has nothing there)", format!("kind {kp}")));
                    }
                    if !kg.contains_null() {
                        acc.violations.push(Violation::new("C19.get-none-upgraded", w(), "get kind admits null", format!("kind {kg}")));
                    }
                    None
                }
            }
        }
        Action::Insert(p, x, g) => {
            let kx = gen_by_name(x, g)?;
            let op = tree::to_owned_path(p);
            let r = guarded(|| {
                let mut k2 = st.k.clone();
                k2.insert(&op, kx.clone());
                let mut v2 = st.v.clone();
                v2.insert(&op, x.clone());
                (v2, k2)
            });
            let (v2, k2) = match r {
                Ok(x) => x,
                Err(panic) => {
                    acc.violations.push(Violation::new("C19.panic", w(), "no panic", panic));
                    return None;
                }
            };
            acc.classes.insert(format!("insert:{}", p.len()));
            if let Some(why) = why_not(&v2, &k2) {
                acc.violations.push(Violation::new("C19.insert", w(), format!("{} ∈ {}", vv::show(&v2), k2), why));
                return None;
            }
            Some(push_trace(st, a, v2, k2))
        }
        Action::Remove(p, prune) => {
            let op = tree::to_owned_path(p);
            let r = guarded(|| {
                let mut k2 = st.k.clone();
                let rk = k2.remove(&op, *prune);
                let mut v2 = st.v.clone();
                let rv = v2.remove(&op, *prune);
                (v2, k2, rv, rk)
            });
            let (v2, k2, rv, rk) = match r {
                Ok(x) => x,
                Err(panic) => {
                    acc.violations.push(Violation::new("C19.panic", w(), "no panic", panic));
                    return None;
                }
            };
            acc.classes.insert(format!("remove:{}:{}:{}", p.len(), prune, rv.is_some()));
            match &rv {
                Some(x) => {
                    if !member_lenient(x, &rk) {
                        acc.violations.push(Violation::new("C19.removed-value", w(), format!("{} ∈ returned kind", vv::show(x)), format!("kind {rk}")));
                    }
                }
                None => {
                    if !(rk.contains_undefined() || rk.contains_null()) {
                        acc.violations.push(Violation::new("C19.removed-nothing", w(), "returned kind admits null/undefined", format!("kind {rk}")));
                    }
                }
            }
            if let Some(why) = why_not(&v2, &k2) {
                acc.violations.push(Violation::new("C19.remove", w(), format!("{} ∈ {}", vv::show(&v2), k2), why));
                return None;
            }
            Some(push_trace(st, a, v2, k2))
        }
        Action::Union(n) => {
            let k2 = union_pool().into_iter().find(|(x, _)| x == n)?.1;
            let r = guarded(|| (st.k.union(k2.clone()), k2.union(st.k.clone())));
            let (u1, u2) = match r {
                Ok(x) => x,
                Err(panic) => {
                    acc.violations.push(Violation::new("C19.panic", w(), "no panic", panic));
                    return None;
                }
            };
            acc.classes.insert("union".into());
            // every enumerated member of the OPERAND must be a member of the union as well
            if let Some((_, _, members)) = union_pool_with_members().into_iter().find(|(x, _, _)| x == n) {
                for m in &members {
                    for (side, u) in [("K∪K2", &u1), ("K2∪K", &u2)] {
                        if let Some(why) = why_not(m, u) {
                            acc.violations.push(Violation::new("C19.union-contains-operand-member", w(), format!("member {} of the operand ∈ {side} = {u}", vv::show(m)), why));
                            return None;
                        }
                    }
                }
            }
            for (side, u) in [("K∪K2", &u1), ("K2∪K", &u2)] {
                if let Some(why) = why_not(&st.v, u) {
                    acc.violations.push(Violation::new("C19.union", w(), format!("{} ∈ {side} = {u}", vv::show(&st.v)), why));
                    return None;
                }
            }
            Some(push_trace(st, a, st.v.clone(), u1))
        }
        Action::Merge(b, g, shallow) => {
            let (Value::Object(ao), Value::Object(bo)) = (&st.v, b) else { return None };
            // only object∪nothing-else kinds: merging is defined for objects
            if !st.k.contains_object() {
                return None;
            }
            let kb = gen_by_name(b, g)?;
            let strategy = Strategy { collisions: if *shallow { CollisionStrategy::Overwrite } else { CollisionStrategy::Union } };
            let r = guarded(|| {
                let mut k2 = st.k.clone();
                k2.merge(kb.clone(), strategy);
                k2
            });
            let k2 = match r {
                Ok(x) => x,
                Err(panic) => {
                    acc.violations.push(Violation::new("C19.panic", w(), "no panic", panic));
                    return None;
                }
            };
            let mut merged = ao.clone();
            for (k, v) in bo {
                merged.insert(k.clone(), v.clone());
            }
            let v2 = Value::Object(merged);
            acc.classes.insert(format!("merge:{shallow}"));
            if let Some(why) = why_not(&v2, &k2) {
                if *shallow {
                    // The property only promises that a merge "contains every member of its operands",
                    // which the Overwrite strategy cannot mean literally; the value-level overwrite merge
                    // is therefore observed (class counter) but not judged (DESIGN §8, correction 1).
                    acc.classes.insert("merge:overwrite-result-not-member(observed, not judged)".into());
                } else {
                    acc.violations.push(Violation::new("C19.merge", w(), format!("{} ∈ {}", vv::show(&v2), k2), why));
                }
                return None;
            }
            // both operands remain members of a union-strategy merge
            if !*shallow {
                for (side, x) in [("left", &st.v), ("right", b)] {
                    if let Some(why) = why_not(x, &k2) {
                        acc.violations.push(Violation::new("C19.merge-union-contains-operand", w(), format!("{side} operand {} ∈ {}", vv::show(x), k2), why));
                    }
                }
            }
            Some(push_trace(st, a, v2, k2))
        }
    }
}

fn seeds(tier: Tier) -> Vec<St> {
    let mut out = Vec::new();
    for v in value_pool(tier) {
        for (name, k) in kind_gens(&v) {
            assert!(member(&v, &k), "seed kind {name} must contain {}: {:?}", vv::show(&v), why_not(&v, &k));
            out.push(St { seed: json!({"value": vv::enc(&v), "kind_gen": name}), v: v.clone(), k, trace: vec![] });
        }
    }
    out
}

/// `K1.is_superset(K2)` ⇒ every enumerated member of K2 is a member of K1.
fn superset_sweep(tier: Tier, rep: &mut Report) -> u64 {
    let pool = value_pool(tier);
    let mut kinds: Vec<(String, Kind)> = Vec::new();
    for v in &pool {
        for (n, k) in kind_gens(v) {
            kinds.push((format!("{}/{}", vv::show(v), n), k));
        }
    }
    kinds.extend(union_pool());
    let mut n = 0;
    for (n1, k1) in &kinds {
        for (n2, k2) in &kinds {
            n += 1;
            let sup = match guarded(|| k1.is_superset(k2).is_ok()) {
                Ok(s) => s,
                Err(p) => {
                    rep.violation(Violation::new("C19.panic", json!({"is_superset": [n1, n2]}), "no panic", p));
                    continue;
                }
            };
            if sup {
                for v in &pool {
                    if member(v, k2) && !member(v, k1) {
                        rep.violation(Violation::new(
                            "C19.superset-implies-members",
                            json!({"k1": n1, "k2": n2, "value": vv::enc(v)}),
                            format!("{} ∈ {k1} because it is ∈ {k2} and k1 ⊇ k2", vv::show(v)),
                            why_not(v, k1).unwrap_or_default(),
                        ));
                    }
                }
            }
        }
    }
    n
}

pub fn run(tier: Tier) -> Report {
    let mut rep = Report::new("C19", tier, "model_checking");
    // thorough: larger value pool and a wider segment alphabet at the same depths. A full depth-2 pass
    // over 2-segment paths was measured (5.4·10^7 transitions, 573 s) but yields ≈9·10^5 violating
    // transitions of the known defect families on the pinned tree, too many to list by exact witness.
    let passes: Vec<(usize, u32)> = vec![(2, 1), (1, 2)];
    let mut total = BfsStats::default();
    let mut classes = BTreeSet::new();
    let mut checks = 0u64;
    let mut violations: Vec<Violation> = Vec::new();
    for (plen, depth) in passes {
        let acts = actions(plen, tier.thorough());
        let stats = explore::bfs(
            seeds(tier),
            |s: &St| format!("{}|{:?}", vv::show(&s.v), s.k),
            acts.len() as u64 + 1,
            depth,
            if tier.thorough() { 4_000_000 } else { 400_000 },
            Acc::default,
            |s, ai, _d, acc| {
                if ai as usize == acts.len() {
                    state_invariants(s, acc);
                    return None;
                }
                step(s, &acts[ai as usize], acc)
            },
            |acc| {
                classes.extend(acc.classes);
                checks += acc.checks;
                violations.extend(acc.violations);
            },
        );
        rep.notes.push(format!("pass path_len≤{plen} depth {depth} actions {}: {stats:?}", acts.len()));
        total.states += stats.states;
        total.transitions += stats.transitions;
        total.disabled += stats.disabled;
        total.max_depth = total.max_depth.max(stats.max_depth);
        total.capped |= stats.capped;
        total.frontier_at_bound += stats.frontier_at_bound;
    }
    for v in violations {
        rep.violation(v);
    }
    let sup = superset_sweep(tier, &mut rep);
    rep.set("states", total.states);
    rep.set("transitions", total.transitions);
    rep.set("traces_validated_against_impl", total.transitions);
    rep.set("disabled_or_terminal_actions", total.disabled);
    rep.set("max_depth", u64::from(total.max_depth));
    rep.set("frontier_at_bound", total.frontier_at_bound);
    rep.set("invariant_evaluations", checks);
    rep.set("superset_pairs", sup);
    rep.set("distinct_observation_classes", classes.len() as u64);
    rep.set("explanation", "explicit-state BFS on pairs (value, kind) with value ∈ kind; every action runs the real Value operation and the real Kind operation; the invariant is membership, decided by an independent checker written against Kind's public accessors; no separate model exists, so every transition is validated on the implementation");
    rep.exhaustive = !total.capped;
    let s = seeds(tier);
    let acts = actions(2, false);
    rep.sample(json!({"state": s[40].seed, "kind": s[40].k.to_string(), "action": action_json(&acts[17])}));
    rep.sample(json!({"state": s[90].seed, "kind": s[90].k.to_string(), "action": action_json(&acts[acts.len() - 5])}));
    rep
}

pub fn replay(_property: &str, w: &J) -> Vec<Violation> {
    let mut acc = Acc::default();
    if w.get("seed").is_none() {
        // superset sweep witness: re-run the sweep
        let mut rep = Report::new("C19", Tier::Thorough, "model_checking");
        superset_sweep(Tier::Thorough, &mut rep);
        return rep.violations;
    }
    let v = vv::dec(&w["seed"]["value"]);
    let Some(k) = gen_by_name(&v, w["seed"]["kind_gen"].as_str().unwrap_or("")) else { return vec![] };
    let mut st = St { v, k, seed: w["seed"].clone(), trace: vec![] };
    let trace = w["trace"].as_array().cloned().unwrap_or_default();
    state_invariants(&st, &mut acc);
    for aj in trace {
        let a = action_from_json(&aj);
        match step(&st, &a, &mut acc) {
            Some(n) => {
                st = n;
                state_invariants(&st, &mut acc);
            }
            None => break,
        }
    }
    acc.violations
}
