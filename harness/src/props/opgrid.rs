//! Operator typing grid (part of C01 and C02): every binary operator and `!` applied to two event fields
//! whose DECLARED kinds range over all singletons and all two-member unions of the nine scalar / container
//! kinds. Whenever the compiler accepts `.r = .a OP .b` without error handling, the program is run on every
//! pair of representative values of those kinds: it must not fail (C02) and its result and the written field
//! must belong to the reported types (C01).

use crate::law::{self, CaseResult};
use crate::model::member::member_lenient;
use crate::report::{Report, Tier, Violation};
use crate::util::guarded;
use crate::vrlx::{self, Outcome};
use crate::vv;
use serde_json::{Value as J, json};
use vrl::compiler::CompileConfig;
use vrl::value::kind::Collection;
use vrl::value::{Kind, Value};

const BASE: [&str; 8] = ["null", "boolean", "integer", "float", "bytes", "timestamp", "array", "object"];
const OPS: [&str; 13] = ["+", "-", "*", "/", "==", "!=", "<", "<=", ">", ">=", "&&", "||", "|"];

fn base_kind(n: &str) -> Kind {
    match n {
        "null" => Kind::null(),
        "boolean" => Kind::boolean(),
        "integer" => Kind::integer(),
        "float" => Kind::float(),
        "bytes" => Kind::bytes(),
        "timestamp" => Kind::timestamp(),
        "array" => Kind::array(Collection::any()),
        _ => Kind::object(Collection::any()),
    }
}

fn base_values(n: &str) -> Vec<Value> {
    use vv::{arr, f, i, obj, s, ts};
    match n {
        "null" => vec![Value::Null],
        "boolean" => vec![Value::Boolean(true), Value::Boolean(false)],
        "integer" => vec![i(0), i(1), i(-3), i(7)], // (no extreme counts: `"a" * i64::MAX` exhausts memory, out of scope here)
        "float" => vec![f(0.0), f(1.5), f(-2.25)],
        "bytes" => vec![s(""), s("a"), s("5")],
        "timestamp" => vec![ts("2021-03-01T00:00:00Z"), ts("1969-12-31T23:59:59.5Z")],
        "array" => vec![arr(&[]), arr(&[i(1)])],
        _ => vec![obj(&[]), obj(&[("k", i(1))])],
    }
}

fn kind_of(names: &[String]) -> Kind {
    let mut k = Kind::never();
    for n in names {
        k = k.union(base_kind(n));
    }
    k
}

fn values_of(names: &[String]) -> Vec<Value> {
    names.iter().flat_map(|n| base_values(n)).collect()
}

fn kind_sets() -> Vec<Vec<String>> {
    let mut out: Vec<Vec<String>> = BASE.iter().map(|b| vec![(*b).to_string()]).collect();
    for (i, a) in BASE.iter().enumerate() {
        for b in &BASE[i + 1..] {
            out.push(vec![(*a).to_string(), (*b).to_string()]);
        }
    }
    out
}

fn env_for(ka: &[String], kb: &[String]) -> vrl::compiler::state::ExternalEnv {
    let mut c: Collection<vrl::value::kind::Field> = Collection::empty();
    c = c.with_known("a", kind_of(ka));
    c = c.with_known("b", kind_of(kb));
    vrlx::ext_env(Kind::object(c), Kind::object(Collection::any()))
}

pub fn run(rep: &mut Report, prop: &'static str, tier: Tier) {
    let sets = kind_sets();
    let mut cases: Vec<J> = Vec::new();
    for (ia, ka) in sets.iter().enumerate() {
        for (ib, kb) in sets.iter().enumerate() {
            // quick: at least one operand has a single kind; thorough: every pair of (≤ 2)-member unions
            if !tier.thorough() && ia >= BASE.len() && ib >= BASE.len() {
                continue;
            }
            for op in OPS {
                cases.push(json!({"property": prop, "opgrid": true, "program": format!(".r = .a {op} .b"), "ka": ka, "kb": kb}));
            }
        }
        cases.push(json!({"property": prop, "opgrid": true, "program": ".r = !.a", "ka": ka, "kb": ["null"]}));
        cases.push(json!({"property": prop, "opgrid": true, "program": "if .a { .r = 1 } else { .r = 2 }", "ka": ka, "kb": ["null"]}));
        cases.push(json!({"property": prop, "opgrid": true, "program": ".r = \"t{{ .a }}\"", "ka": ka, "kb": ["null"]}));
    }
    rep.set("operator_grid_rule", "`.r = .a OP .b` for OP in + - * / == != < <= > >= && || | (plus `!.a`, `if .a`, a template string) under an event schema declaring .a and .b with every singleton and every two-member union of {null, boolean, integer, float, bytes, timestamp, array, object} (quick: at least one side a singleton); every ACCEPTED program is run on every pair of representative values of the declared kinds");
    law::drive(rep, "operator-typing-grid", &cases, case);
}

fn names(j: &J) -> Vec<String> {
    j.as_array().map(|a| a.iter().filter_map(|x| x.as_str().map(String::from)).collect()).unwrap_or_default()
}

pub fn case(w: &J) -> CaseResult {
    let prop = w["property"].as_str().unwrap_or("C02").to_string();
    let src = w["program"].as_str().unwrap_or("");
    let (ka, kb) = (names(&w["ka"]), names(&w["kb"]));
    let env = env_for(&ka, &kb);
    let compiled = guarded(|| vrlx::compile_ext(src, &vrlx::fns(), &env, CompileConfig::default()));
    let program = match compiled {
        Err(p) => return CaseResult::ok("panic").violation(Violation::new(&format!("{prop}.compile-panic"), w.clone(), "no panic", p)),
        Ok(Err(_)) => return CaseResult::trivial("rejected-by-compiler"),
        Ok(Ok(r)) => r.program,
    };
    let info = program.final_type_info();
    let result_kind = info.result.kind().clone();
    let target_kind = info.state.external.target_kind().clone();
    let tz = vrlx::utc();
    let mut res = CaseResult::ok("accepted");
    let mut runs = 0u64;
    for va in values_of(&ka) {
        for vb in values_of(&kb) {
            runs += 1;
            let event = vv::obj(&[("a", va.clone()), ("b", vb.clone())]);
            let mut t = vrlx::target(event, vrlx::empty_object());
            let o = match guarded(|| vrlx::run_runtime(&program, &mut t, &tz)) {
                Ok(o) => o,
                Err(p) => {
                    res.violations.push(Violation::new(&format!("{prop}.panic"), with_vals(w, &va, &vb), "no panic", p));
                    continue;
                }
            };
            match &o {
                Outcome::Ok(v) => {
                    if prop == "C01" {
                        if !member_lenient(v, &result_kind) {
                            res.violations.push(Violation::new("C01.operator-result-in-kind", with_vals(w, &va, &vb), format!("result ∈ {result_kind}"), vv::show(v)));
                        }
                        if !member_lenient(&t.value, &target_kind) {
                            res.violations.push(Violation::new("C01.operator-event-in-final-kind", with_vals(w, &va, &vb), format!("event ∈ {target_kind}"), vv::show(&t.value)));
                        }
                    }
                }
                other => {
                    if prop == "C02" {
                        res.violations.push(Violation::new(
                            "C02.operator-accepted-as-infallible-fails",
                            with_vals(w, &va, &vb),
                            "a program accepted without error handling (no `!`, no abort) finishes successfully".to_string(),
                            other.show(),
                        ));
                    }
                }
            }
        }
    }
    res.count("operator_grid_runs", runs)
}

fn with_vals(w: &J, a: &Value, b: &Value) -> J {
    let mut w = w.clone();
    w["a"] = vv::enc(a);
    w["b"] = vv::enc(b);
    w
}

pub fn replay(w: &J) -> Vec<Violation> {
    // a replay re-runs the whole cell and keeps the violations of the recorded value pair
    let mut cell = w.clone();
    if let Some(o) = cell.as_object_mut() {
        o.remove("a");
        o.remove("b");
    }
    case(&cell).violations.into_iter().filter(|v| v.witness == *w).collect()
}
