//! C10 (comparisons) and C11 (arithmetic): exhaustive operand-pair enumeration through compiled
//! VRL programs `.a <op> .b`, compiled under an external environment that declares the operand
//! kinds exactly (so the infallible code paths are the ones exercised) and under `any`.

use crate::report::{Report, Tier, Violation};
use crate::util::{guarded, par_for};
use crate::vrlx::{self, Outcome};
use crate::vv;
use serde_json::{Value as J, json};
use std::collections::BTreeSet;
use vrl::compiler::{CompileConfig, Program};
use vrl::value::kind::Collection;
use vrl::value::{Kind, Value};

fn int_alphabet(tier: Tier) -> Vec<i64> {
    let mut s: BTreeSet<i64> = BTreeSet::new();
    let r = if tier.thorough() { 1000 } else { 300 };
    for i in -r..=r {
        s.insert(i);
    }
    for k in [7u32, 8, 15, 16, 24, 31, 32, 33, 48, 52, 53, 54, 61, 62] {
        let p = 1i64 << k;
        for d in [-2, -1, 0, 1, 2] {
            s.insert(p + d);
            s.insert(-(p + d));
        }
    }
    for v in [i64::MIN, i64::MIN + 1, i64::MIN + 2, i64::MAX, i64::MAX - 1, i64::MAX - 2, 3_037_000_500, -3_037_000_500] {
        s.insert(v);
    }
    s.into_iter().collect()
}

fn float_alphabet() -> Vec<f64> {
    let mut v = vec![
        0.0, -0.0, 0.5, -0.5, 1.0, -1.0, 1.5, -1.5, 2.5, -2.5, 0.1, 0.2, 0.3, 1e300, -1e300, 1e-300, 5e-324,
        f64::MAX, f64::MIN, f64::INFINITY, f64::NEG_INFINITY, 9_007_199_254_740_992.0, 9_007_199_254_740_994.0,
        -9_007_199_254_740_992.0, 9.223_372_036_854_775_8e18, -9.223_372_036_854_775_8e18, 4_294_967_296.0, 3.0, 7.0,
    ];
    v.dedup();
    v
}

fn bytes_alphabet() -> Vec<Value> {
    let mut v: Vec<Value> =
        ["", "a", "ab", "b", "B", "é", "e", "a b", "1", "10", "2", "\u{0}", "~"].iter().map(|s| Value::from(*s)).collect();
    v.push(Value::Bytes(vec![0xffu8].into()));
    v.push(Value::Bytes(vec![0xc3u8].into()));
    v.push(Value::Bytes(vec![0x61u8, 0x00].into()));
    v
}

fn ts_alphabet() -> Vec<Value> {
    ["1970-01-01T00:00:00Z", "1970-01-01T00:00:00.000000001Z", "1969-12-31T23:59:59.999999999Z", "2021-02-03T04:05:06.789Z", "9999-12-31T23:59:59Z", "0001-01-01T00:00:00Z"]
        .iter()
        .map(|s| vv::ts(s))
        .collect()
}

fn structured_alphabet() -> Vec<Value> {
    use vv::{arr, i, obj, s};
    vec![
        arr(&[]),
        arr(&[i(1)]),
        arr(&[i(1), i(2)]),
        arr(&[i(2), i(1)]),
        arr(&[i(9_007_199_254_740_993)]),
        arr(&[i(9_007_199_254_740_992)]),
        arr(&[arr(&[i(1)])]),
        arr(&[obj(&[("a", i(1))])]),
        obj(&[]),
        obj(&[("a", i(1))]),
        obj(&[("a", i(2))]),
        obj(&[("b", i(1))]),
        obj(&[("a", i(1)), ("b", s("x"))]),
        obj(&[("a", arr(&[i(1), i(2)]))]),
        obj(&[("a", arr(&[i(2), i(1)]))]),
        obj(&[("a", obj(&[("b", Value::Null)]))]),
        obj(&[("a", obj(&[]))]),
        Value::Null,
        Value::Boolean(true),
        Value::Boolean(false),
        s(""),
        i(0),
    ]
}

const CMP_OPS: [&str; 6] = ["==", "!=", "<", "<=", ">", ">="];
const ARITH_OPS: [&str; 4] = ["+", "-", "*", "/"];

fn env_for(ka: &Kind, kb: &Kind) -> vrl::compiler::state::ExternalEnv {
    let coll = Collection::empty().with_known("a", ka.clone()).with_known("b", kb.clone());
    vrlx::ext_env(Kind::object(coll), Kind::object(Collection::any()))
}

/// Compile `.a <op> .b`; returns (program, handled) where handled = wrapped in `?? "E"` because
/// the compiler considers the operation fallible for these kinds.
fn compile_op(op: &str, ka: &Kind, kb: &Kind) -> Option<(Program, bool)> {
    let fns = vrlx::fns();
    let env = env_for(ka, kb);
    let plain = format!(".a {op} .b");
    if let Ok(r) = vrlx::compile_ext(&plain, &fns, &env, CompileConfig::default()) {
        return Some((r.program, false));
    }
    let handled = format!("(.a {op} .b) ?? \"$E\"");
    vrlx::compile_ext(&handled, &fns, &env, CompileConfig::default()).ok().map(|r| (r.program, true))
}

fn run_op(p: &Program, a: &Value, b: &Value) -> Result<Outcome, String> {
    let ev = vv::obj(&[("a", a.clone()), ("b", b.clone())]);
    let mut t = vrlx::target(ev, vrlx::empty_object());
    let tz = vrlx::utc();
    guarded(|| vrlx::run_runtime(p, &mut t, &tz))
}

fn witness(op: &str, typed: bool, a: &Value, b: &Value) -> J {
    json!({"op": op, "typed_env": typed, "a": vv::enc(a), "b": vv::enc(b)})
}

#[derive(Default)]
struct Acc {
    evals: u64,
    violations: Vec<Violation>,
    classes: BTreeSet<String>,
}

struct Group {
    name: &'static str,
    values: Vec<Value>,
    kind: Kind,
}

/// The reference verdict for a comparison operator on two same-kind operands, or None where the
/// property does not define one.
fn cmp_ref(op: &str, a: &Value, b: &Value) -> Option<bool> {
    use std::cmp::Ordering::*;
    let ord = match (a, b) {
        (Value::Integer(x), Value::Integer(y)) => Some(x.cmp(y)),
        (Value::Float(x), Value::Float(y)) => x.into_inner().partial_cmp(&y.into_inner()),
        (Value::Bytes(x), Value::Bytes(y)) => Some(x.as_ref().cmp(y.as_ref())),
        (Value::Timestamp(x), Value::Timestamp(y)) => Some(x.cmp(y)),
        _ => None,
    }?;
    Some(match op {
        "==" => ord == Equal,
        "!=" => ord != Equal,
        "<" => ord == Less,
        "<=" => ord != Greater,
        ">" => ord == Greater,
        ">=" => ord != Less,
        _ => return None,
    })
}

fn check_cmp_pair(progs: &[(Option<(Program, bool)>, Option<(Program, bool)>)], a: &Value, b: &Value, same_kind: bool, structural: bool, acc: &mut Acc) {
    // typed (exact kinds) and untyped (any) programs for each op
    for (typed_idx, typed) in [true, false].into_iter().enumerate() {
        let mut res: Vec<Option<bool>> = Vec::new();
        for (oi, op) in CMP_OPS.iter().enumerate() {
            let slot = if typed_idx == 0 { &progs[oi].0 } else { &progs[oi].1 };
            let Some((p, _handled)) = slot else {
                res.push(None);
                continue;
            };
            acc.evals += 1;
            match run_op(p, a, b) {
                Err(panic) => {
                    acc.violations.push(Violation::new("C10.panic", witness(op, typed, a, b), "no panic", panic));
                    res.push(None);
                }
                Ok(Outcome::Ok(Value::Boolean(x))) => {
                    acc.classes.insert(format!("{op}:{x}"));
                    res.push(Some(x));
                }
                Ok(Outcome::Ok(Value::Bytes(ref m))) if m.as_ref() == b"$E" => {
                    acc.classes.insert(format!("{op}:err"));
                    if same_kind && !structural {
                        acc.violations.push(Violation::new(
                            "C10.error-on-comparable",
                            witness(op, typed, a, b),
                            "a boolean",
                            "runtime error (coalesced)",
                        ));
                    }
                    res.push(None);
                }
                Ok(o) => {
                    acc.violations.push(Violation::new("C10.non-boolean", witness(op, typed, a, b), "a boolean", o.show()));
                    res.push(None);
                }
            }
        }
        let [eq, ne, lt, le, gt, ge] = [res[0], res[1], res[2], res[3], res[4], res[5]];
        let w = |op: &str| witness(op, typed, a, b);
        // `!=` is the negation of `==` (every pair, every kind).
        if let (Some(e), Some(n)) = (eq, ne) {
            if e == n {
                acc.violations.push(Violation::new("C10.ne-is-not-eq", w("!="), format!("!= is {}", !e), format!("== {e}, != {n}")));
            }
        }
        if same_kind && !structural {
            // reference verdict per operator
            for (oi, op) in CMP_OPS.iter().enumerate() {
                if let (Some(got), Some(want)) = (res[oi], cmp_ref(op, a, b)) {
                    if got != want {
                        acc.violations.push(Violation::new("C10.reference", w(op), want.to_string(), got.to_string()));
                    }
                }
            }
            // trichotomy and consistency, stated on the operators themselves
            if let (Some(l), Some(e), Some(g)) = (lt, eq, gt) {
                let n = u8::from(l) + u8::from(e) + u8::from(g);
                if n != 1 {
                    acc.violations.push(Violation::new("C10.trichotomy", w("<,==,>"), "exactly one true", format!("< {l}, == {e}, > {g}")));
                }
                if let Some(le) = le {
                    if le != (l || e) {
                        acc.violations.push(Violation::new("C10.le", w("<="), (l || e).to_string(), le.to_string()));
                    }
                }
                if let Some(ge) = ge {
                    if ge != (g || e) {
                        acc.violations.push(Violation::new("C10.ge", w(">="), (g || e).to_string(), ge.to_string()));
                    }
                }
            }
        }
        if structural {
            if let Some(e) = eq {
                let want = vv::enc(a) == vv::enc(b);
                if e != want {
                    acc.violations.push(Violation::new("C10.structural-eq", w("=="), want.to_string(), e.to_string()));
                }
            }
        }
    }
}

fn compile_all(ops: &[&str], ka: &Kind, kb: &Kind) -> Vec<(Option<(Program, bool)>, Option<(Program, bool)>)> {
    ops.iter().map(|op| (compile_op(op, ka, kb), compile_op(op, &Kind::any(), &Kind::any()))).collect()
}

fn groups(tier: Tier) -> Vec<Group> {
    vec![
        Group { name: "integer", values: int_alphabet(tier).into_iter().map(Value::Integer).collect(), kind: Kind::integer() },
        Group { name: "float", values: float_alphabet().into_iter().map(vv::f).collect(), kind: Kind::float() },
        Group { name: "bytes", values: bytes_alphabet(), kind: Kind::bytes() },
        Group { name: "timestamp", values: ts_alphabet(), kind: Kind::timestamp() },
    ]
}

struct Tot {
    distinct: BTreeSet<String>,
    evals: u64,
    pairs: u64,
}

#[allow(clippy::too_many_arguments)]
fn run_cmp_group(name: &str, va: &[Value], ka: &Kind, vb: &[Value], kb: &Kind, same: bool, structural: bool, rep: &mut Report, tot: &mut Tot) {
    let n = (va.len() * vb.len()) as u64;
    tot.pairs += n;
    let accs = par_for(
        n,
        256,
        || (compile_all(&CMP_OPS, ka, kb), Acc::default()),
        |i, (progs, acc)| {
            let a = &va[(i as usize) % va.len()];
            let b = &vb[(i as usize) / va.len()];
            check_cmp_pair(progs, a, b, same, structural, acc);
        },
    );
    for (_, acc) in accs {
        tot.evals += acc.evals;
        for c in acc.classes {
            tot.distinct.insert(format!("{name}:{c}"));
        }
        for v in acc.violations {
            rep.violation(v);
        }
    }
    rep.sample(json!({"group": name, "program": ".a <op> .b", "a": vv::enc(&va[va.len() / 2]), "b": vv::enc(&vb[vb.len() / 3])}));
}

pub fn run_c10(tier: Tier) -> Report {
    let mut rep = Report::new("C10", tier, "exploration");
    let mut tot = Tot { distinct: BTreeSet::new(), evals: 0, pairs: 0 };
    for g in groups(tier) {
        run_cmp_group(g.name, &g.values, &g.kind, &g.values, &g.kind, true, false, &mut rep, &mut tot);
    }
    // mixed integer/float: `!=` = ¬`==` and symmetry of `==` only.
    let ints: Vec<Value> = int_alphabet(Tier::Quick).into_iter().map(Value::Integer).collect();
    let floats: Vec<Value> = float_alphabet().into_iter().map(vv::f).collect();
    run_cmp_group("int-float", &ints, &Kind::integer(), &floats, &Kind::float(), false, false, &mut rep, &mut tot);
    run_cmp_group("float-int", &floats, &Kind::float(), &ints, &Kind::integer(), false, false, &mut rep, &mut tot);
    {
        let p1 = compile_op("==", &Kind::integer(), &Kind::float()).map(|x| x.0);
        let p2 = compile_op("==", &Kind::float(), &Kind::integer()).map(|x| x.0);
        if let (Some(p1), Some(p2)) = (p1, p2) {
            for a in &ints {
                for b in &floats {
                    let r1 = run_op(&p1, a, b);
                    let r2 = run_op(&p2, b, a);
                    tot.evals += 2;
                    if r1 != r2 {
                        rep.violation(Violation::new("C10.eq-symmetry", witness("==", true, a, b), format!("{r2:?}"), format!("{r1:?}")));
                    }
                }
            }
        }
    }
    // structural equality on nested values
    let st = structured_alphabet();
    run_cmp_group("structured", &st, &Kind::any(), &st, &Kind::any(), true, true, &mut rep, &mut tot);

    // cross-kind equality: values of DIFFERENT kinds are never equal (no lossy coercion: "1" != 1, 0 != false,
    // null != "", [] != {} …), `!=` is the negation; integers only on the numeric side (int/float is judged above)
    let cross: Vec<Value> = vec![
        Value::Null, Value::Boolean(true), Value::Boolean(false), vv::i(0), vv::i(1), vv::s(""), vv::s("1"), vv::s("0"), vv::s("true"), vv::s("null"),
        vv::s("[]"), vv::s("1970-01-01T00:00:00Z"), vv::ts("1970-01-01T00:00:00Z"), vv::arr(&[]), vv::arr(&[vv::i(1)]), vv::arr(&[vv::i(0)]), vv::arr(&[Value::Null]),
        vv::obj(&[]), vv::obj(&[("a", vv::i(1))]),
    ];
    run_cmp_group("cross-kind", &cross, &Kind::any(), &cross, &Kind::any(), true, true, &mut rep, &mut tot);

    rep.set("evaluations", tot.evals);
    rep.set("operand_pairs", tot.pairs);
    rep.set("distinct_nontrivial", tot.distinct.len() as u64);
    rep.set("rule", "(plus a cross-kind equality group of 19 values of 7 kinds) every ordered operand pair of each per-kind alphabet (integers: [-300,300] (thorough [-1000,1000]) ∪ 2^k±{0,1,2} ∪ i64 extremes; floats incl. ±0, ±inf, 2^53, subnormal; byte strings incl. non-UTF-8; timestamps; nested values) × 6 operators × {exact-kind env, any env}; distinct_nontrivial counts distinct (group, operator, verdict) classes observed");
    rep
}

// ------------------------------------------------------------------------------------------ C11

fn fl(x: f64) -> Option<Value> {
    if x.is_nan() { None } else { Some(vv::f(x)) }
}

/// Reference result: Ok(Some(v)) = must equal v; Ok(None) = must be an error; Err(()) = the
/// property does not define this combination.
fn arith_ref(op: &str, a: &Value, b: &Value) -> Result<Option<Value>, ()> {
    use Value::{Bytes, Float, Integer, Null};
    let af = |v: &Value| match v {
        Integer(i) => Some(*i as f64),
        Float(f) => Some(f.into_inner()),
        _ => None,
    };
    Ok(match (op, a, b) {
        ("+", Integer(x), Integer(y)) => Some(Integer(((*x as i128) + (*y as i128)) as i64)),
        ("-", Integer(x), Integer(y)) => Some(Integer(((*x as i128) - (*y as i128)) as i64)),
        ("*", Integer(x), Integer(y)) => Some(Integer(((*x as i128).wrapping_mul(*y as i128)) as i64)),
        ("/", _, _) if af(a).is_some() && af(b).is_some() => {
            let (x, y) = (af(a).unwrap(), af(b).unwrap());
            if y == 0.0 { None } else { fl(x / y) }
        }
        ("+", _, _) if af(a).is_some() && af(b).is_some() => fl(af(a).unwrap() + af(b).unwrap()),
        ("-", _, _) if af(a).is_some() && af(b).is_some() => fl(af(a).unwrap() - af(b).unwrap()),
        ("*", _, _) if af(a).is_some() && af(b).is_some() => fl(af(a).unwrap() * af(b).unwrap()),
        ("+", Bytes(x), Bytes(y)) => Some(Bytes([x.as_ref(), y.as_ref()].concat().into())),
        ("+", Bytes(x), Null) | ("+", Null, Bytes(x)) => Some(Bytes(x.clone())),
        ("*", Bytes(x), Integer(n)) | ("*", Integer(n), Bytes(x)) => {
            if *n > 4096 {
                return Err(());
            }
            Some(Bytes(x.repeat((*n).max(0) as usize).into()))
        }
        _ => return Err(()),
    })
}

fn check_arith_pair(progs: &[(Option<(Program, bool)>, Option<(Program, bool)>)], a: &Value, b: &Value, acc: &mut Acc) {
        for (oi, op) in ARITH_OPS.iter().enumerate() {
            let Ok(want) = arith_ref(op, a, b) else { continue };
            for (typed, slot) in [(true, &progs[oi].0), (false, &progs[oi].1)] {
                let Some((p, handled)) = slot else { continue };
                acc.evals += 1;
                let got = match run_op(p, a, b) {
                    Err(panic) => {
                        acc.violations.push(Violation::new("C11.panic", witness(op, typed, a, b), "no panic", panic));
                        continue;
                    }
                    Ok(o) => o,
                };
                // normalise: coalesced error marker or runtime error => None
                let got_v: Option<Value> = match &got {
                    Outcome::Ok(Value::Bytes(m)) if *handled && m.as_ref() == b"$E" => None,
                    Outcome::Ok(v) => Some(v.clone()),
                    Outcome::Error(_) => None,
                    o => {
                        acc.violations.push(Violation::new("C11.outcome", witness(op, typed, a, b), "value or error", o.show()));
                        continue;
                    }
                };
                if let Some(Value::Float(f)) = &got_v {
                    if f.into_inner().is_nan() {
                        acc.violations.push(Violation::new("C11.nan-value", witness(op, typed, a, b), "an error", "NaN value"));
                    }
                }
                let same = match (&got_v, &want) {
                    (None, None) => true,
                    (Some(Value::Float(x)), Some(Value::Float(y))) => x.into_inner().to_bits() == y.into_inner().to_bits() || (x.into_inner() == 0.0 && y.into_inner() == 0.0),
                    (Some(x), Some(y)) => vv::enc(x) == vv::enc(y),
                    _ => false,
                };
                acc.classes.insert(format!("{op}:{}", match &got_v { None => "error".to_string(), Some(v) => v.kind_str().to_string() }));
                if !same {
                    acc.violations.push(Violation::new(
                        "C11.reference",
                        witness(op, typed, a, b),
                        want.as_ref().map_or("error".to_string(), vv::show),
                        got_v.as_ref().map_or(format!("error ({})", got.show()), vv::show),
                    ));
                }
            }
        }
}

pub fn run_c11(tier: Tier) -> Report {
    let mut rep = Report::new("C11", tier, "exploration");
    let ints: Vec<Value> = int_alphabet(tier).into_iter().map(Value::Integer).collect();
    let floats: Vec<Value> = float_alphabet().into_iter().map(vv::f).collect();
    let strs = bytes_alphabet();
    let counts: Vec<Value> = [-1i64, 0, 1, 2, 3, 17, i64::MIN].iter().map(|x| Value::Integer(*x)).collect();
    let nulls = vec![Value::Null];
    let mut distinct = BTreeSet::new();
    let mut evals = 0u64;
    let mut pairs = 0u64;
    let combos: Vec<(&str, &[Value], Kind, &[Value], Kind)> = vec![
        ("int-int", &ints, Kind::integer(), &ints, Kind::integer()),
        ("float-float", &floats, Kind::float(), &floats, Kind::float()),
        ("int-float", &ints, Kind::integer(), &floats, Kind::float()),
        ("float-int", &floats, Kind::float(), &ints, Kind::integer()),
        ("str-str", &strs, Kind::bytes(), &strs, Kind::bytes()),
        ("str-null", &strs, Kind::bytes(), &nulls, Kind::null()),
        ("null-str", &nulls, Kind::null(), &strs, Kind::bytes()),
        ("str-count", &strs, Kind::bytes(), &counts, Kind::integer()),
        ("count-str", &counts, Kind::integer(), &strs, Kind::bytes()),
    ];
    for (name, va, ka, vb, kb) in combos {
        let n = (va.len() * vb.len()) as u64;
        pairs += n;
        let accs = par_for(
            n,
            256,
            || (compile_all(&ARITH_OPS, &ka, &kb), Acc::default()),
            |i, (progs, acc)| {
                let a = &va[(i as usize) % va.len()];
                let b = &vb[(i as usize) / va.len()];
                check_arith_pair(progs, a, b, acc);
            },
        );
        for (_, acc) in accs {
            evals += acc.evals;
            for c in acc.classes {
                distinct.insert(format!("{name}:{c}"));
            }
            for v in acc.violations {
                rep.violation(v);
            }
        }
        rep.sample(json!({"group": name, "program": ".a <op> .b", "a": vv::enc(&va[va.len() / 2]), "b": vv::enc(&vb[vb.len() / 3])}));
    }
    rep.set("evaluations", evals);
    rep.set("operand_pairs", pairs);
    rep.set("distinct_nontrivial", distinct.len() as u64);
    rep.set("rule", "every ordered operand pair over the C10 integer/float/byte-string alphabets plus null and repeat counts × {+,-,*,/} × {exact-kind env, any env}; oracle = i128-then-truncate for integers, IEEE f64 on converted operands, NaN ⇒ error, zero divisor ⇒ error, concatenation / max(n,0) repetition; distinct_nontrivial counts distinct (group, operator, result-kind|error) classes");
    rep
}

pub fn replay(property: &str, w: &J) -> Vec<Violation> {
    // Re-run exactly one operand pair (all operators of the property; violations are filtered
    // by the caller against the replay's clause).
    let a = vv::dec(&w["a"]);
    let b = vv::dec(&w["b"]);
    let mut acc = Acc::default();
    let (ka, kb) = (Kind::from(&a), Kind::from(&b));
    let prim = |k: &Kind, v: &Value| if matches!(v, Value::Array(_) | Value::Object(_)) { Kind::any() } else { k.clone() };
    let (ka, kb) = (prim(&ka, &a), prim(&kb, &b));
    if property == "C10" {
        let progs = compile_all(&CMP_OPS, &ka, &kb);
        let same = std::mem::discriminant(&a) == std::mem::discriminant(&b);
        let structural = matches!(a, Value::Array(_) | Value::Object(_) | Value::Null | Value::Boolean(_))
            || matches!(b, Value::Array(_) | Value::Object(_) | Value::Null | Value::Boolean(_));
        check_cmp_pair(&progs, &a, &b, same || structural, structural, &mut acc);
    } else {
        let progs = compile_all(&ARITH_OPS, &ka, &kb);
        check_arith_pair(&progs, &a, &b, &mut acc);
    }
    acc.violations
}
