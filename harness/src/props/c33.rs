//! C33 — diagnostics are always renderable and point into the source.
//!
//! For every enumerated source text the real `compile_with_external` is called (under a default
//! and under a typed/read-only environment); every diagnostic it reports — the error list of a
//! rejected program or the warnings of an accepted one — is checked label by label against the
//! text (`start`/`end` ≤ `len`, both on `char` boundaries: computed with `str::is_char_boundary`,
//! independent of vrl) and rendered with `vrl::diagnostic::Formatter` through `write!`, plain and
//! coloured (a `fmt::Error` or a panic is "rendering does not succeed").
//!
//! Text space (DESIGN §3.4), five groups:
//!  * `seq`   all sequences of ≤ k tokens over Σ_tok, joined with "" and with " ";
//!  * `mut1`  every 1-token edit (delete / replace by σ / insert σ, σ ∈ Σ_tok) of every corpus
//!            program (corpus = valid programs + one seed per diagnostic code family);
//!  * `seq-small` all sequences of ≤ 4 (thorough: and of exactly 5) tokens over the unicode/escape heavy Σ_small;
//!  * `mut2`  (thorough) every pair of edits with σ ∈ Σ_tiny;
//!  * `fill`  error-triggering templates × unicode/escape fillers for fields, strings, idents.

use crate::law::{self, CaseResult};
use crate::report::{Report, Tier, Violation};
use crate::util::guarded;
use crate::vrlx;
use serde_json::{Value as J, json};
use std::collections::{BTreeMap, BTreeSet};
use std::fmt::Write as _;
use std::sync::Mutex;
use vrl::compiler::state::ExternalEnv;
use vrl::compiler::{CompileConfig, Function};
use vrl::diagnostic::{DiagnosticList, Formatter};
use vrl::value::Kind;
use vrl::value::kind::Collection;

// ---------------------------------------------------------------------------------------------
// Σ_tok: one or more inputs at every branch point of `Lexer::next_token`, `string_literal`,
// `escape_code`, `unicode_escape`, `quoted_literal`, `numeric_literal_or_identifier`,
// `StringLiteralToken::template`, `query_start` and the parser's error arms.

const SIGMA: &[&str] = &[
    // string literals: plain, multi-byte, escapes (valid, invalid ASCII, invalid multi-byte, at EOF)
    "\"s\"",
    "\"é\"",
    "\"😀\"",
    "\"\"",
    "\"\\n\"",
    "\"é\\n\\n\"",
    "\"\\é\"",
    "\"\\q\"",
    "\"\\u{e9}\"",
    "\"\\u{}\"",
    "\"\\u{110000}\"",
    "\"\\u{é}\"",
    "\"\\ué\"",
    // line continuation (backslash newline) followed by ASCII / multi-byte whitespace
    "\"a\\\n b\"",
    "\"a\\\n\u{a0}b\"",
    "\"é\\\n\u{3000}\u{2003}{{ x }}\"",
    // templates: char-counted spans (`StringLiteralToken::template`)
    "\"{{ x }}\"",
    "\"é{{ x }}\"",
    "\"é{{ é }}\"",
    "\"\\{{ é }}\"",
    "\"{{ }}\"",
    "\"a{{ x\"",
    // unterminated
    "\"",
    "\"é",
    "\"\\",
    // r'' s'' t''
    "r'a'",
    "r'é('",
    "r'",
    "s'é'",
    "s'",
    "t'2021-01-01T00:00:00Z'",
    "t'é'",
    "t'",
    // identifiers, keywords, reserved words, invalid tokens
    "a",
    "x",
    "_",
    "_u",
    "@t",
    "é",
    "😀",
    "for",
    "if",
    "else",
    "null",
    "true",
    "abort",
    "return",
    "err",
    // numbers
    "1",
    "-1",
    "1.5",
    "1_0",
    "99999999999999999999",
    "1a",
    "0.",
    // operators
    "=",
    "|=",
    "==",
    "!=",
    "+",
    "-",
    "*",
    "/",
    "??",
    "||",
    "&&",
    "|",
    "!",
    "?",
    "<",
    "=>",
    "->",
    // punctuation, whitespace, comments, line continuation
    ".",
    "%",
    "&",
    ":",
    ",",
    ";",
    "\n",
    " ",
    "\\",
    "(",
    ")",
    "[",
    "]",
    "{",
    "}",
    "#é\n",
    "#",
    // paths
    ".a",
    ".s",
    ".ro",
    ".\"é\"",
    ".a.\"é\\n\\n\"",
    "[0]",
    "[-1]",
    "[99999999999999999999]",
    ".(a|b)",
    "%m",
    // calls / closures
    "del(",
    "upcase(",
    "upcase!(",
    "to_int(",
    "foo(",
    "é(",
    "for_each(",
    "|k, v|",
];

/// Unicode / escape heavy subset for the second edit of `mut2` and the thorough `seq` depth.
const SIGMA_SMALL: &[&str] = &[
    "\"é\"",
    "\"é\\n\\n\"",
    "\"\\é\"",
    "\"é{{ é }}\"",
    "\"é",
    "r'é('",
    "t'é'",
    "é",
    "😀",
    "1",
    "=",
    "??",
    "!",
    ".",
    ",",
    ";",
    "\n",
    "(",
    ")",
    "[",
    "]",
    "{",
    "}",
    ".a",
    ".\"é\"",
    "x",
    "upcase!(",
    "é(",
    "|k, v|",
    "#é\n",
];

/// Alphabet of both edits of `mut2`.
const SIGMA_TINY: &[&str] = &["\"é\"", "\"\\é\"", "\"é{{ é }}\"", "\"é", "é", ".", "=", "(", "{", "[", "\n", "#é\n"];

/// Corpus: valid programs covering the grammar + one (or more) seed per diagnostic code family.
const CORPUS: &[&str] = &[
    // ---- valid programs
    ".a = 1",
    ".a.b = upcase!(.s)",
    "x = \"é\"; .r = x + \"{{ x }}\"",
    "if .c == true { .a = 1 } else { .b = 2 }",
    ".r, err = to_int(.s)",
    ".r = to_int(.s) ?? 0",
    "del(.a)",
    "for_each([1, 2]) -> |_i, v| { .n = v }",
    ".r = map_values({\"k\": 1}) -> |v| { v + 1 }",
    "abort \"msg\"",
    "return .a",
    ".\"é\" = \"ü\"; .r = .\"é\"",
    ".a[0] = 1; .a[-1] = 2",
    "%m = .a",
    ".r = .(a | b)",
    ".r = [1, 2.5, \"s\", null, true, r'a+', t'2021-01-01T00:00:00Z', s'raw']",
    ".r = {\"k\": 1, \"é\": [.a]}",
    "x = {}; x.a = 1; .r = x.a",
    ".r = !exists(.a) && is_string(.s) || false",
    ".r = 1 + 2 * 3 - 4 / 2",
    "# comment é\n.a = 1",
    ".r = \"a\\tb\\n\\u{e9}\\\\\"",
    "x = 1; .r = \"é{{ x }}ü\"",
    ".a = 1\n.b = 2\n\n.c = 3",
    ".r = if .c == true { 1 } else if .d == true { 2 } else { 3 }",
    ".r = parse_json!(.s).a",
    ".r = { x = 1; x }",
    ".r = to_string(.a) ?? \"d\"",
    ".o |= {\"k\": 2}",
    ".r = \"line1 \\\n   line2\"",
    // ---- E1xx expression / call errors
    "to_int(.s)",
    ".r = r'('",
    "if 1 { .a = 1 }",
    ".r = to_int(.s)",
    ".r, err = 1",
    ".r = foo(1)",
    ".r = upcase(\"a\", \"b\")",
    ".r = upcase()",
    ".r = upcase(valu: \"a\")",
    ".r = upcase(\"a\") -> |x| { x }",
    ".r = upcase(1)",
    ".r = for_each([1])",
    ".r = parse_grok!(.s, \"%{NOPE}\")",
    "abort 1",
    "for_each([1]) -> |k| { k }",
    ".r = map_keys({\"a\": 1}) -> |k| { 1 }",
    ".r = map_keys(\"s\") -> |k| { k }",
    // ---- E3xx value errors at compile time
    ".r = 1 / 0",
    ".r = 1 + \"a\"",
    ".ro = 1",
    "del(.ro)",
    // ---- E4xx function argument errors
    ".r = to_unix_timestamp(now(), unit: \"é\")",
    ".r = to_unix_timestamp(now(), unit: .a)",
    ".r = parse_regex!(\"a\", .s)",
    ".r = match(\"a\", \"b\")",
    // ---- E6xx compiler errors
    ".r = t'é'",
    ".r = upcase!(\"a\")",
    ".r = upcase(to_int(.s))",
    "abort to_int(.s)",
    "return to_int(.s)",
    "_ = 1",
    "_, _ = to_int(.s)",
    ".a = 1; .a.b = 2",
    "x = 1; x[0] = 2",
    ".a = 1; .a.b.c[0] = 2",
    ".s.k = 1",
    ".arr.k = 1",
    ".o.k.z[1] = 1",
    ".r = 1 < 2 < 3",
    ".r = 1 ?? 2",
    ".r = 1 | 2",
    ".r = !1",
    // ---- E701
    ".r = y",
    ".r = \"{{ y }}\"",
    // ---- warnings (E900)
    "1\n.",
    "{\"é\": 1}\n.",
    "upcase(\"é\")\n.",
    "x = 1",
    "{ \"é\"; .a = 1 }",
];

// ---------------------------------------------------------------------------------------------
// `fill`: templates with holes {F} (path field), {S} (string content), {I} (identifier-ish).

const FILL_TEMPLATES: &[&str] = &[
    ".a = 1; .a.{F} = 2",
    ".a = 1; .a.{F}.b = 2",
    ".a = 1; .a.b.{F} = 2",
    ".a = 1; .a.{F}[0] = 2",
    ".a = 1; .a.{F}.{F} = 2",
    ".a = 1; .a[0].{F} = 2",
    "x = 1; x.{F} = 2",
    "x = 1; x.{F}.{F} = 2",
    ".{F} = 1; .{F}.b = 2",
    "%m = 1; %m.{F} = 2",
    ".s.{F} = 1",
    ".o.k.{F} = 1",
    ".arr.{F} = 1",
    ".ro.{F} = 1",
    ".{F}, err = 1",
    ".{F} = to_int(.s)",
    ".{F}, .{F} = 1",
    "_ = .{F}",
    ".r = .{F}.{I}(",
    ".r = \"{S}{{ y }}\"",
    ".r = \"{S}{{ y }}{S}\"",
    ".r = \"{{ y }}{S}\"",
    ".r = \"{S}{{ {I} }}\"",
    "y = 1; .r = \"{S}{{ y }}{{ z }}\"",
    ".r = upcase!(\"{S}\")",
    ".r = foo(\"{S}\")",
    ".r = {I}(\"{S}\")",
    ".r = upcase(\"{S}\", \"{S}\")",
    ".r = upcase(valu: \"{S}\")",
    ".r = upcase(\"{S}\") -> |{I}| { 1 }",
    ".r = r'{S}('",
    ".r = t'{S}'",
    "\"{S}\"\n.",
    "{\"{S}\": 1}\n.",
    "upcase(\"{S}\")\n.",
    "s'{S}'\n.",
    ".r = \"{S}\" + 1",
    ".r = 1 + \"{S}\"",
    ".r = \"{S}\" ?? 1",
    "if \"{S}\" { .a = 1 }",
    ".r = !\"{S}\"",
    "abort {\"{S}\": 1}",
    ".r = \"{S}\" < \"{S}\" < 1",
    ".r = \"{S}\" | 1",
    ".r = {I}",
    "{I} = 1",
    "{I} = \"{S}\"; {I}.{F} = 2",
    ".r = to_unix_timestamp(now(), unit: \"{S}\")",
    ".r = parse_grok!(.s, \"%{{S}}\")",
    "\"{S}\" = 1",
    ".r = \"{S}",
    ".r = \"{S}\\",
    ".r = \"{S}\\{I}\"",
    ".r = [\"{S}\", ]  ]",
    "# {S}\n.r = {I}",
];

const FILL_F: &[&str] = &[
    "a",
    "\"é\"",
    "\"é\\n\\n\"",
    "\"é\\t\"",
    "\"a b\"",
    "\"b\"",
    "\"😀\\n\\n\\n\"",
    "\"\\u{e9}\"",
    "@t",
    "\"é\".c",
    "\"\\\"é\"",
    "\"éé\\\\\\\\\"",
];

const FILL_S: &[&str] = &["", "s", "é", "éé", "😀", "\\n", "é\\n", "\\u{e9}", "é\\\\", "a\\{{ b \\}}", "\\t\\t\\té", "é\né", "\n"];

const FILL_I: &[&str] = &["y", "é", "_é", "foo", "😀", "for", "y1"];

fn fill_cases() -> Vec<String> {
    let mut out: BTreeSet<String> = BTreeSet::new();
    for t in FILL_TEMPLATES {
        let fs: &[&str] = if t.contains("{F}") { FILL_F } else { &[""] };
        let ss: &[&str] = if t.contains("{S}") { FILL_S } else { &[""] };
        let is: &[&str] = if t.contains("{I}") { FILL_I } else { &[""] };
        for f in fs {
            for s in ss {
                for i in is {
                    out.insert(t.replace("{F}", f).replace("{S}", s).replace("{I}", i));
                }
            }
        }
    }
    out.into_iter().collect()
}

// ---------------------------------------------------------------------------------------------
// Harness-side tokenizer for corpus programs (it only has to cut at sensible places; it need not
// agree with vrl's lexer).

fn tokenize(src: &str) -> Vec<String> {
    let cs: Vec<char> = src.chars().collect();
    let mut out = Vec::new();
    let mut i = 0;
    let is_id = |c: char| c.is_ascii_alphanumeric() || c == '_' || c == '@';
    while i < cs.len() {
        let c = cs[i];
        let start = i;
        if c.is_whitespace() {
            while i < cs.len() && cs[i].is_whitespace() {
                i += 1;
            }
        } else if c == '"' || (matches!(c, 'r' | 's' | 't') && cs.get(i + 1) == Some(&'\'')) {
            let q = if c == '"' { '"' } else { '\'' };
            i += if c == '"' { 1 } else { 2 };
            while i < cs.len() && cs[i] != q {
                if cs[i] == '\\' {
                    i += 1;
                }
                i += 1;
            }
            i = (i + 1).min(cs.len());
        } else if c == '#' {
            while i < cs.len() && cs[i] != '\n' {
                i += 1;
            }
        } else if is_id(c) {
            while i < cs.len() && is_id(cs[i]) {
                i += 1;
            }
        } else {
            let two: String = cs[i..(i + 2).min(cs.len())].iter().collect();
            if ["==", "!=", "??", "||", "&&", "|=", "->", "<=", ">="].contains(&two.as_str()) {
                i += 2;
            } else {
                i += 1;
            }
        }
        out.push(cs[start..i].iter().collect());
    }
    out
}

/// All 1-token edits of `toks` with replacement alphabet `sigma` (unranked): index space is
/// `len` deletes + `len·|σ|` replaces + `(len+1)·|σ|` inserts.
fn n_edits(len: usize, sigma: usize) -> u64 {
    (len + len * sigma + (len + 1) * sigma) as u64
}

fn apply_edit(toks: &[String], sigma: &[&str], mut e: u64) -> Vec<String> {
    let len = toks.len() as u64;
    let ns = sigma.len() as u64;
    let mut v = toks.to_vec();
    if e < len {
        v.remove(e as usize);
        return v;
    }
    e -= len;
    if e < len * ns {
        v[(e / ns) as usize] = sigma[(e % ns) as usize].to_string();
        return v;
    }
    e -= len * ns;
    v.insert((e / ns) as usize, sigma[(e % ns) as usize].to_string());
    v
}

// ---------------------------------------------------------------------------------------------
// environments

thread_local! {
    static FNS: Vec<Box<dyn Function>> = vrlx::fns();
    static TYPED: ExternalEnv = typed_env();
}

fn typed_env() -> ExternalEnv {
    let target = Collection::empty()
        .with_known("a", Kind::integer())
        .with_known("s", Kind::bytes())
        .with_known("ro", Kind::bytes())
        .with_known("é", Kind::bytes())
        .with_known("o", Kind::object(Collection::empty().with_known("k", Kind::integer())))
        .with_known("arr", Kind::array(Collection::from_unknown(Kind::integer())));
    vrlx::ext_env(Kind::object(target), Kind::object(Collection::any()))
}

fn typed_config() -> CompileConfig {
    let mut cfg = CompileConfig::default();
    cfg.set_read_only_path(vrl::path::parse_target_path(".ro").expect("path"), true);
    cfg.set_read_only_path(vrl::path::parse_target_path("%rm").expect("path"), true);
    cfg
}

const ENVS: [&str; 2] = ["default", "typed"];

/// C04 reuses this enumeration: in C04 mode a case only looks for panics (compile, render, run of the
/// accepted program on an empty event) and label positions are not judged.
pub static C04_MODE: std::sync::atomic::AtomicBool = std::sync::atomic::AtomicBool::new(false);

fn c04_mode() -> bool {
    C04_MODE.load(std::sync::atomic::Ordering::Relaxed)
}

/// C04 mode: run an accepted program on an empty event; Some(panic text) if it panics.
fn c04_run_accepted(src: &str, env: &str) -> Option<String> {
    let program = FNS.with(|fns| {
        guarded(|| {
            if env == "typed" {
                TYPED.with(|e| vrlx::compile_ext(src, fns, e, typed_config()))
            } else {
                vrlx::compile_ext(src, fns, &ExternalEnv::default(), CompileConfig::default())
            }
        })
    });
    let program = program.ok()?.ok()?.program;
    let mut t = vrlx::target(vrlx::empty_object(), vrlx::empty_object());
    let tz = vrlx::utc();
    guarded(|| vrlx::run_runtime(&program, &mut t, &tz)).err()
}

/// (diagnostics reported, accepted?) or Err(panic text).
fn compile(src: &str, env: &str) -> Result<(DiagnosticList, bool), String> {
    FNS.with(|fns| {
        guarded(|| {
            let r = if env == "typed" {
                TYPED.with(|e| vrlx::compile_ext(src, fns, e, typed_config()))
            } else {
                vrlx::compile_ext(src, fns, &ExternalEnv::default(), CompileConfig::default())
            };
            match r {
                Ok(res) => (res.warnings, true),
                Err(d) => (d, false),
            }
        })
    })
}

fn render(src: &str, d: &DiagnosticList, colored: bool) -> Result<String, String> {
    let mut out = String::new();
    let r = guarded(|| {
        let f = Formatter::new(src, d.clone());
        let f = if colored { f.colored() } else { f };
        write!(out, "{f}")
    });
    match r {
        Ok(Ok(())) => Ok(out),
        Ok(Err(_)) => Err("Formatter returned fmt::Error".into()),
        Err(p) => Err(format!("Formatter panicked: {p}")),
    }
}

fn verbose() -> bool {
    std::env::var("VRLMC_VERBOSE").is_ok()
}

/// Label findings of one diagnostic list: (clause, observed text).
fn label_findings(src: &str, diags: &DiagnosticList) -> Vec<(String, String)> {
    let mut oob: Vec<String> = Vec::new();
    let mut nob: Vec<String> = Vec::new();
    for d in diags.iter() {
        for l in &d.labels {
            let (s, e) = (l.span.start(), l.span.end());
            if s > src.len() || e > src.len() {
                oob.push(format!("E{:03} label {s}..{e} but source length is {}", d.code, src.len()));
            } else if !src.is_char_boundary(s) || !src.is_char_boundary(e) {
                nob.push(format!("E{:03} label {s}..{e} is not on char boundaries", d.code));
            }
        }
    }
    let mut out = Vec::new();
    if !oob.is_empty() {
        out.push((format!("C33.label-out-of-range.{}", &oob[0][..4]), oob.join("; ")));
    }
    if !nob.is_empty() {
        out.push((format!("C33.label-not-char-boundary.{}", &nob[0][..4]), nob.join("; ")));
    }
    out
}

fn render_findings(src: &str, diags: &DiagnosticList, colored_too: bool) -> (Vec<(String, String)>, u64, u64) {
    let mut out = Vec::new();
    let (mut renders, mut empty) = (0, 0);
    if diags.is_empty() {
        return (out, 0, 0);
    }
    for colored in [false, true] {
        if colored && !colored_too {
            continue;
        }
        renders += 1;
        match render(src, diags, colored) {
            Ok(text) => {
                if text.trim().is_empty() {
                    empty += 1;
                }
                if verbose() && !colored {
                    eprintln!("{text}");
                }
            }
            Err(why) => {
                let first = diags.iter().next().map_or(0, |d| d.code);
                out.push((format!("C33.render-fails.E{first:03}"), format!("{why} (colored={colored})")));
                break;
            }
        }
    }
    (out, renders, empty)
}

/// Does `clause` fire for (`src`, `env`)? Used by the shrinker only.
fn fires(src: &str, env: &str, clause: &str) -> Option<String> {
    let (diags, _) = compile(src, env).ok()?;
    let found = if clause.starts_with("C33.render") { render_findings(src, &diags, true).0 } else { label_findings(src, &diags) };
    found.into_iter().find(|(c, _)| c == clause).map(|(_, o)| o)
}

/// ddmin-style reduction: remove chunks of decreasing size, then single items, left to right,
/// while `still` holds. Deterministic.
fn greedy<T: Clone>(items: &mut Vec<T>, still: impl Fn(&[T]) -> bool) {
    let mut chunk = items.len() / 2;
    while chunk >= 1 {
        let mut i = 0;
        while i < items.len() {
            let end = (i + chunk).min(items.len());
            let mut cand = items.clone();
            cand.drain(i..end);
            if still(&cand) {
                *items = cand;
            } else {
                i += chunk;
            }
        }
        chunk = if chunk > 1 { chunk / 2 } else { 0 };
    }
    loop {
        let mut changed = false;
        let mut i = 0;
        while i < items.len() {
            let mut cand = items.clone();
            cand.remove(i);
            if still(&cand) {
                *items = cand;
                changed = true;
            } else {
                i += 1;
            }
        }
        if !changed {
            break;
        }
    }
}

static CHAR_SHRUNK: Mutex<BTreeMap<(String, String, String), String>> = Mutex::new(BTreeMap::new());
static REPORTED: Mutex<BTreeSet<(String, String, String)>> = Mutex::new(BTreeSet::new());

/// Deterministic 1-minimal reduction of a violating text (first whole tokens, then single chars,
/// always left to right) so that the thousands of texts embedding the same defect are reported as
/// one witness. The reduced text is itself re-executed: it is a complete failing input.
fn shrink(src: &str, env: &str, clause: &str) -> String {
    let mut toks = tokenize(src);
    // shortcut: most violating texts embed the defect in one to three adjacent tokens
    'window: for w in 1..=3usize {
        if toks.len() <= w {
            break;
        }
        for i in 0..=(toks.len() - w) {
            if fires(&toks[i..i + w].concat(), env, clause).is_some() {
                toks = toks[i..i + w].to_vec();
                break 'window;
            }
        }
    }
    greedy(&mut toks, |c| fires(&c.concat(), env, clause).is_some());
    let mid = toks.concat();
    let key = (mid.clone(), env.to_string(), clause.to_string());
    if let Some(hit) = CHAR_SHRUNK.lock().ok().and_then(|g| g.get(&key).cloned()) {
        return hit;
    }
    let mut cs: Vec<char> = mid.chars().collect();
    let still = |c: &[char]| fires(&c.iter().collect::<String>(), env, clause).is_some();
    greedy(&mut cs, still);
    // canonical spelling: replace every char by the most preferred of `a`, `1`, ` ` that keeps the clause firing
    const PREF: [char; 3] = ['a', '1', ' '];
    for i in 0..cs.len() {
        let cur = PREF.iter().position(|p| *p == cs[i]).unwrap_or(PREF.len());
        for r in &PREF[..cur] {
            let mut cand = cs.clone();
            cand[i] = *r;
            if still(&cand) {
                cs = cand;
                break;
            }
        }
    }
    greedy(&mut cs, still);
    // every contiguous range (short texts only), until nothing can be removed any more
    let mut changed = cs.len() <= 40;
    while changed {
        changed = false;
        'outer: for len in (2..cs.len()).rev() {
            for i in 0..=(cs.len() - len) {
                let mut cand = cs.clone();
                cand.drain(i..i + len);
                if still(&cand) {
                    cs = cand;
                    changed = true;
                    break 'outer;
                }
            }
        }
    }
    greedy(&mut cs, still);
    let out: String = cs.into_iter().collect();
    if let Ok(mut g) = CHAR_SHRUNK.lock() {
        g.insert(key, out.clone());
    }
    out
}

fn case(w: &J) -> CaseResult {
    case_opts(w, true, true)
}

fn case_opts(w: &J, colored_too: bool, do_shrink: bool) -> CaseResult {
    let src = w["src"].as_str().expect("src");
    let only_env = w["env"].as_str();
    let mut res = CaseResult::default();
    let mut classes: Vec<String> = Vec::new();
    let mut seen_clauses: BTreeSet<String> = BTreeSet::new();
    for env in ENVS {
        if only_env.is_some_and(|e| e != env) {
            continue;
        }
        let (diags, accepted) = match compile(src, env) {
            Ok(x) => x,
            Err(p) => {
                // a compiler panic reports no diagnostics: C04's business, only counted here
                res.counters.push(("compile_panicked", 1));
                classes.push("compile-panic".into());
                if c04_mode() && !p.starts_with("capacity overflow") {
                    res.nontrivial = true;
                    res.violations.push(Violation::new("C04.compile-panic", json!({"src": src, "env": env}), "compiling any source text does not panic", p.clone()));
                }
                if verbose() {
                    eprintln!("[{env}] compile panicked: {p}");
                }
                continue;
            }
        };
        res.counters.push(("compilations", 1));
        res.counters.push((if accepted { "accepted" } else { "rejected" }, 1));
        if c04_mode() {
            res.nontrivial = true;
            if let Err(e) = render(src, &diags, false) {
                if e.contains("panicked") {
                    res.violations.push(Violation::new("C04.render-panic", json!({"src": src, "env": env}), "rendering the diagnostics does not panic", e));
                }
            }
            if accepted {
                res.counters.push(("accepted_programs_run", 1));
                if let Some(p) = c04_run_accepted(src, env) {
                    if !p.starts_with("capacity overflow") {
                        res.violations.push(Violation::new("C04.run-panic", json!({"src": src, "env": env}), "running an accepted program does not panic", p));
                    }
                }
            }
            classes.push((if accepted { "ok" } else { "err" }).to_string());
            if !accepted && diags.iter().all(|d| (200..300).contains(&d.code)) && only_env.is_none() {
                break;
            }
            continue;
        }
        let mut codes: BTreeSet<usize> = BTreeSet::new();
        let mut labels = 0u64;
        let mut multibyte_before_label = 0u64;
        for d in diags.iter() {
            codes.insert(d.code);
            for l in &d.labels {
                labels += 1;
                let (s, e) = (l.span.start(), l.span.end());
                if s > e {
                    res.counters.push(("inverted_spans", 1));
                }
                if s <= src.len() && src.is_char_boundary(s) && !src[..s].is_ascii() {
                    multibyte_before_label += 1;
                }
            }
        }
        if verbose() {
            eprintln!("[{env}] accepted={accepted}");
            for d in diags.iter() {
                eprintln!("  E{:03} {:?} {}", d.code, d.severity, d.message);
                for l in &d.labels {
                    eprintln!("     label {}..{} {:?}", l.span.start(), l.span.end(), l.message);
                }
            }
        }
        res.counters.push(("diagnostics", diags.len() as u64));
        res.counters.push(("labels_checked", labels));
        res.counters.push(("labels_after_multibyte_text", multibyte_before_label));
        let mut found = label_findings(src, &diags);
        let (rf, renders, empty) = render_findings(src, &diags, colored_too);
        found.extend(rf);
        res.counters.push(("renderings", renders));
        res.counters.push(("empty_renderings", empty));
        if !diags.is_empty() {
            res.nontrivial = true;
        }
        for (clause, observed) in found {
            // the same clause under the second environment is the same finding
            if !seen_clauses.insert(clause.clone()) {
                continue;
            }
            res.counters.push(("violating_cases", 1));
            let (wsrc, observed) = if do_shrink {
                let m = shrink(src, env, &clause);
                let o = fires(&m, env, &clause).unwrap_or(observed);
                (m, o)
            } else {
                (src.to_string(), observed)
            };
            // report each reduced witness once per run
            let fresh = !do_shrink
                || REPORTED.lock().map(|mut g| g.insert((wsrc.clone(), env.to_string(), clause.clone()))).unwrap_or(true);
            if fresh {
                let expected = if clause.contains("out-of-range") {
                    "every label position ≤ source length"
                } else if clause.contains("char-boundary") {
                    "every label position on a char boundary of the source"
                } else {
                    "Formatter renders the reported diagnostics"
                };
                res.violations.push(Violation::new(&clause, json!({"src": wsrc, "env": env}), expected, observed));
            }
        }
        let cls = format!(
            "{}:{}",
            if accepted { "ok" } else { "err" },
            codes.iter().map(|c| format!("E{c:03}")).collect::<Vec<_>>().join("+")
        );
        classes.push(cls);
        // A parser/lexer error does not depend on the environment: skip the typed compile.
        if !accepted && codes.iter().all(|c| (200..300).contains(c)) && only_env.is_none() {
            break;
        }
    }
    res.class = classes.join(" | ");
    res
}

// ---------------------------------------------------------------------------------------------

fn seq_text(sigma: &[&str], k: u32, joiners: &[&str], idx: u64) -> Option<String> {
    // idx = |joiners|·rank + joiner; rank enumerates lengths 0..=k in order
    let nj = joiners.len() as u64;
    let joiner = joiners[(idx % nj) as usize];
    let mut rank = idx / nj;
    let n = sigma.len() as u64;
    let mut len = 0u32;
    loop {
        let block = n.pow(len);
        if rank < block {
            break;
        }
        rank -= block;
        len += 1;
        if len > k {
            return None;
        }
    }
    if len <= 1 && !joiner.is_empty() {
        return None; // same text as with the empty joiner
    }
    let mut toks = Vec::with_capacity(len as usize);
    for _ in 0..len {
        toks.push(sigma[(rank % n) as usize]);
        rank /= n;
    }
    Some(toks.join(joiner))
}

fn seq_count(sigma: usize, k: u32, joiners: usize) -> u64 {
    joiners as u64 * (0..=k).map(|l| (sigma as u64).pow(l)).sum::<u64>()
}

const BOTH: &[&str] = &["", " "];

pub fn run(tier: Tier) -> Report {
    run_with(Report::new("C33", tier, "exploration"), tier)
}

/// C04 only: programs with extreme integer / index / float literals in every position that does arithmetic on them.
pub fn c04_extreme_texts() -> Vec<String> {
    let ints = [
        "0", "1", "-1", "9223372036854775807", "-9223372036854775808", "9223372036854775808", "-9223372036854775809", "18446744073709551616", "99999999999999999999999999",
        "-0", "00", "4294967296", "-2147483649",
    ];
    let floats = ["0.0", "-0.0", "1.5", "179769313486231570000000000000000000000000000000000000000000000000000000000000000000000000000000000000000000000000000000000000000000000000000000000000000000000000000000000000000000000000000000000000000000000000000000000000000000000000000000000000000000000000000000000000000000000000000000000000000000000000000.0", "99999999999999999999999999999999999999999999999999999999999999999999999999999999999999999999999999999999999999999999999999999999999999999999999999999999999999999999999999999999999999999999999999999999999999999999999999999999999999999999999999999999999999999999999999999999999999999999999999999999999999999999999999999999.0", "0.000000000000000000000000000000000000000000000000000000000000000000000000000000000000000000000000000000000000000000000000000000000000000000000000000000000000000000000000000000000000000000000000000000000000000000000000000000000000000000000000000000000000000000000000000000000000000000000000000000000000000000000000000000000000000000001", "1.", ".5"];
    let int_templates = [
        ".a[{}]", "x = .a[{}]", ".a[{}] = 1", "del(.a[{}])", "x = [1, 2][{}]", "x = [1, 2]; x[{}] = 0; x", "%m[{}]", ".a[{}].b[{}]", "x = {}", "x = {} + 1", "x = {} - 1", "x = -({})", "x = {} * {}",
        "x = {} * 2", "x = 1 / {}", "x = 10 / ({} - {})", "x = mod(5, {})", "x = slice(\"ab\", {})", "x = slice([1, 2], 0, {})", "x = abs({})", "x = format_int!({}, 2)", "x = to_float({})",
        "x = from_unix_timestamp!({})", "x = \"ab\" * {}", "x = truncate(\"abc\", {})", "x = chunks(\"abc\", {})", "x = [1, 2, 3][{}] ?? 0", "x = {{\"a\": [1]}}.a[{}]", "exists(.a[{}])",
        "x = to_int({}) == {}", "if {} > {} {{ 1 }} else {{ 2 }}", "x = format_number({}, scale: 2)", "x = round(1.5, precision: {})", "x = 1.5 * {}", "x = push([1], {})[{}]",
    ];
    let float_templates = ["x = {}", "x = {} + {}", "x = {} * {}", "x = 1.0 / {}", "x = {} / {}", "x = to_int({})", "x = round({})", "x = ceil({}, precision: 2)", "x = format_number({})", "x = to_string({})", "x = {} == {}", "x = mod({}, 2)", "x = abs(-({}))", "x = floor({} * {})"];
    let mut out = Vec::new();
    for t in int_templates {
        for i in ints {
            out.push(t.replace("{{", "\u{1}").replace("}}", "\u{2}").replace("{}", i).replace('\u{1}', "{").replace('\u{2}', "}"));
        }
    }
    for t in float_templates {
        for f in floats {
            out.push(t.replace("{}", f));
        }
    }
    out.sort();
    out.dedup();
    out
}

pub fn run_with(mut rep: Report, tier: Tier) -> Report {
    rep.set(
        "rule",
        "cases = source texts: (seq) all sequences of ≤k tokens over Σ_tok joined by \"\" and \" \"; (mut1) all 1-token \
         delete/replace/insert edits of each corpus program with σ∈Σ_tok; (seq-small) all sequences of ≤4 tokens juxtaposed (thorough: also space-separated, and all of exactly 5 juxtaposed) over the unicode/escape heavy Σ_small; (mut2, thorough) all pairs of edits with σ∈Σ_tiny; \
         (fill) error templates × unicode/escape fillers. Each text is compiled under a default and (unless the parser rejected \
         it) a typed+read-only environment. A case is non-trivial when at least one diagnostic was reported (labels checked, \
         list rendered plain and coloured); distinct = distinct texts; outcome class = accepted/rejected + set of codes.",
    );
    rep.assume("oracle: str::len / str::is_char_boundary of the Rust standard library on the exact text given to the compiler");
    rep.assume("a label with start > end is only counted (inverted_spans); the property text does not order the two positions");
    rep.assume("a panic inside compile_* reports no diagnostics and is counted (compile_panicked), not judged here (C04)");
    rep.assume("every violating text is reduced (greedy deletion of tokens, then chars, while the same clause still fires on the real compiler) and each reduced witness is reported once; violating_cases counts the unreduced texts");
    rep.set("sigma_tok", SIGMA.len() as u64);
    rep.set("corpus_programs", CORPUS.len() as u64);

    // fill
    let fills: Vec<J> = fill_cases().into_iter().map(|s| json!({"src": s})).collect();
    law::drive(&mut rep, "fill", &fills, case);

    // mut1
    let corpus: Vec<Vec<String>> = CORPUS.iter().map(|p| tokenize(p)).collect();
    for (p, t) in CORPUS.iter().zip(&corpus) {
        assert_eq!(&t.concat(), p, "tokenizer must be lossless");
    }
    let mut offsets = Vec::new();
    let mut total = 0u64;
    for t in &corpus {
        offsets.push(total);
        total += 1 + n_edits(t.len(), SIGMA.len());
    }
    let locate = |i: u64| -> (usize, u64) {
        let p = offsets.partition_point(|&o| o <= i) - 1;
        (p, i - offsets[p])
    };
    law::drive_indexed(
        &mut rep,
        "mut1",
        total,
        |i| {
            let (p, e) = locate(i);
            let text = if e == 0 { CORPUS[p].to_string() } else { apply_edit(&corpus[p], SIGMA, e - 1).concat() };
            json!({"src": text})
        },
        case,
    );

    // seq
    let (sigma, k): (&[&str], u32) = (SIGMA, 3);
    law::drive_indexed(
        &mut rep,
        "seq",
        seq_count(sigma.len(), k, 2),
        |i| seq_text(sigma, k, BOTH, i).map_or(J::Null, |s| json!({"src": s})),
        |w| case_opts(w, false, true),
    );
    rep.set("seq_max_tokens", u64::from(k));
    // one token deeper over the unicode/escape heavy subset
    // (quick: juxtaposed only; thorough: also space-separated)
    let js: &[&str] = if tier.thorough() { BOTH } else { &[""] };
    law::drive_indexed(
        &mut rep,
        "seq-small",
        seq_count(SIGMA_SMALL.len(), 4, js.len()),
        |i| seq_text(SIGMA_SMALL, 4, js, i).map_or(J::Null, |s| json!({"src": s})),
        |w| case_opts(w, false, true),
    );
    rep.set("seq_small_max_tokens", 4u64);
    rep.set("sigma_small", SIGMA_SMALL.len() as u64);
    if tier.thorough() {
        // exactly five tokens, juxtaposed
        law::drive_indexed(
            &mut rep,
            "seq-small-5",
            seq_count(SIGMA_SMALL.len(), 5, 1),
            |i| seq_text(SIGMA_SMALL, 5, &[""], i).filter(|_| i >= seq_count(SIGMA_SMALL.len(), 4, 1)).map_or(J::Null, |s| json!({"src": s})),
            |w| case_opts(w, false, true),
        );
        rep.set("seq_small_max_tokens", 5u64);
    }

    if tier.thorough() {
        // mut2: all pairs of edits over Σ_tiny
        let mut offs2 = Vec::new();
        let mut total2 = 0u64;
        for t in &corpus {
            offs2.push(total2);
            let n1 = n_edits(t.len(), SIGMA_TINY.len());
            // the second edit acts on a token list of length len-1, len or len+1: bound by len+1
            total2 += n1 * n_edits(t.len() + 1, SIGMA_TINY.len());
        }
        law::drive_indexed(
            &mut rep,
            "mut2",
            total2,
            |i| {
                let p = offs2.partition_point(|&o| o <= i) - 1;
                let r = i - offs2[p];
                let n2max = n_edits(corpus[p].len() + 1, SIGMA_TINY.len());
                let (e1, e2) = (r / n2max, r % n2max);
                let t1 = apply_edit(&corpus[p], SIGMA_TINY, e1);
                if e2 >= n_edits(t1.len(), SIGMA_TINY.len()) {
                    return J::Null;
                }
                json!({"src": apply_edit(&t1, SIGMA_TINY, e2).concat()})
            },
            |w| case_opts(w, false, true),
        );
        rep.set("sigma_tiny", SIGMA_TINY.len() as u64);
    }
    rep
}

pub fn replay(_property: &str, w: &J) -> Vec<Violation> {
    // no reduction on replay: the recorded witness is judged as it is
    case_opts(w, true, false).violations
}
