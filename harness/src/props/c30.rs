//! C30 — Datadog search queries round-trip through their text form.
//!
//! For every enumerated query text `q` that `QueryNode::from_str` accepts:
//! `parse(to_lucene(parse(q)))` must be the same tree as `parse(q)` (compared through the derived
//! `Debug` rendering, which is structural and — unlike `PartialEq` — reflexive on NaN bounds).
//!
//! Two enumerations:
//!  * `tokens`  — all sequences of ≤ N grammar tokens (terms, phrases, wildcards, field prefixes,
//!                comparison operators, ranges, modifiers, conjunctions, parentheses, escapes),
//!                joined with and without blanks: exercises the *structure* printer (grouping,
//!                negation, AND/OR nesting, field-scoped groups).
//!  * `values`  — all strings of ≤ L characters over an alphabet that holds every character of
//!                `lucene_escape`'s list in escaped form (plus plain, multi-byte and keyword-like
//!                ones), placed in every value position of the grammar (term, field value, phrase,
//!                prefix, comparison operand, range bound, `_exists_`/`_missing_` operand, field
//!                name, multiterm member): exercises the *escaping* printers.

use crate::law::{self, CaseResult};
use crate::report::{Report, Tier, Violation};
use crate::util::{guarded, product, unrank};
use serde_json::{Value as J, json};
use vrl::datadog_search_syntax::QueryNode;

const TOKENS: &[&str] = &[
    "a", "b", "\"a b\"", "a*", "a?b", "*", "*:*", "f:", "@f.g:", "_exists_:", "_missing_:", "_default_:", ">", ">=",
    "<", "<=", "1", "1.5", "1.0", "-1", "[1 TO 5]", "{a TO *}", "[* TO 2]", "NOT", "-", "+", "AND", "OR", "&&", "||",
    "(", ")", "a\\:b", "a\\ b", "\"\"", "[1 TO 5}",
];

/// Value-position characters. Every character `lucene_escape` treats specially occurs escaped;
/// the ones the grammar allows unescaped inside a term (`- + = / . !`…) also occur bare.
const CHARS: &[&str] = &[
    "a", "1", "A", "é", ".", "-", "+", "=", "/", "!", "~", "^", "*", "?", " ", ":", "\"", "\\:", "\\ ", "\\*", "\\?",
    "\\\"", "\\\\", "\\(", "\\)", "\\[", "\\]", "\\{", "\\}", "\\!", "\\~", "\\^", "\\<", "\\>", "\\/", "\\-", "\\+",
    "\\=", "\\a", "OR", "NOT", "TO",
];

/// Value-position contexts; `$` is replaced by the enumerated string.
const CONTEXTS: &[&str] = &[
    "$",
    "f:$",
    "\"$\"",
    "f:\"$\"",
    "$*",
    "f:$*",
    ">$",
    "f:>=$",
    "[$ TO x]",
    "f:{x TO $}",
    "f:[$ TO $]",
    "_exists_:$",
    "_missing_:\"$\"",
    "$:x",
    "@$:x",
    "x $",
    "-$",
    "NOT ($)",
    "f:($)",
    "f:(x $)",
    "x OR $",
];

fn parse(q: &str) -> Result<QueryNode, String> {
    match guarded(|| q.parse::<QueryNode>()) {
        Ok(Ok(n)) => Ok(n),
        Ok(Err(_)) => Err("rejected".into()),
        Err(p) => Err(format!("panic: {p}")),
    }
}

fn root_kind(n: &QueryNode) -> &'static str {
    match n {
        QueryNode::MatchAllDocs => "all",
        QueryNode::MatchNoDocs => "none",
        QueryNode::AttributeExists { .. } => "exists",
        QueryNode::AttributeMissing { .. } => "missing",
        QueryNode::AttributeRange { .. } => "range",
        QueryNode::AttributeComparison { .. } => "cmp",
        QueryNode::AttributeTerm { .. } => "term",
        QueryNode::QuotedAttribute { .. } => "phrase",
        QueryNode::AttributePrefix { .. } => "prefix",
        QueryNode::AttributeWildcard { .. } => "wildcard",
        QueryNode::NegatedNode { .. } => "not",
        QueryNode::Boolean { oper, .. } => match oper {
            vrl::datadog_search_syntax::BooleanType::And => "and",
            vrl::datadog_search_syntax::BooleanType::Or => "or",
        },
    }
}

fn node_count(n: &QueryNode) -> u64 {
    match n {
        QueryNode::NegatedNode { node } => 1 + node_count(node),
        QueryNode::Boolean { nodes, .. } => 1 + nodes.iter().map(node_count).sum::<u64>(),
        _ => 1,
    }
}

/// Primary character class of one string slot of a node (what the printer has to cope with).
fn feat(s: &str) -> &'static str {
    if s.is_empty() {
        "empty"
    } else if s.chars().any(char::is_whitespace) {
        "blank"
    } else if s.starts_with("AND") || s.starts_with("OR") || s.starts_with("NOT") || s.starts_with("&&") || s.starts_with("||") {
        "keyword"
    } else if s.contains('*') || s.contains('?') {
        "wildcard-char"
    } else if s.chars().any(|c| "+-=><!(){}[]^~/:\"\\".contains(c)) {
        "special-char"
    } else if s.parse::<f64>().is_ok() {
        "numeric"
    } else {
        "plain"
    }
}

fn cv_feat(v: &vrl::datadog_search_syntax::ComparisonValue) -> String {
    use vrl::datadog_search_syntax::ComparisonValue as CV;
    match v {
        CV::Unbounded => "unbounded".into(),
        CV::Integer(_) => "int".into(),
        CV::Float(x) => {
            if x.is_nan() {
                "float-nan".into()
            } else if x.fract() == 0.0 {
                "float-integral".into()
            } else {
                "float".into()
            }
        }
        CV::String(s) => format!("str:{}", feat(s)),
    }
}

fn fails(n: &QueryNode) -> bool {
    let Ok(s) = guarded(|| n.to_lucene()) else { return true };
    match parse(&s) {
        Ok(t2) => format!("{t2:?}") != format!("{n:?}"),
        Err(_) => true,
    }
}

fn neutral() -> QueryNode {
    QueryNode::AttributeTerm { attr: "zz".into(), value: "zz".into() }
}

/// (attr, same node with a harmless attr, same node with harmless values, value classes)
fn leaf_parts(n: &QueryNode) -> Option<(String, QueryNode, QueryNode, String)> {
    use vrl::datadog_search_syntax::ComparisonValue as CV;
    let z = || "zz".to_string();
    Some(match n {
        QueryNode::AttributeExists { attr } => (attr.clone(), QueryNode::AttributeExists { attr: z() }, n.clone(), String::new()),
        QueryNode::AttributeMissing { attr } => (attr.clone(), QueryNode::AttributeMissing { attr: z() }, n.clone(), String::new()),
        QueryNode::AttributeTerm { attr, value } => (
            attr.clone(),
            QueryNode::AttributeTerm { attr: z(), value: value.clone() },
            QueryNode::AttributeTerm { attr: attr.clone(), value: z() },
            feat(value).into(),
        ),
        QueryNode::QuotedAttribute { attr, phrase } => (
            attr.clone(),
            QueryNode::QuotedAttribute { attr: z(), phrase: phrase.clone() },
            QueryNode::QuotedAttribute { attr: attr.clone(), phrase: z() },
            feat(phrase).into(),
        ),
        QueryNode::AttributePrefix { attr, prefix } => (
            attr.clone(),
            QueryNode::AttributePrefix { attr: z(), prefix: prefix.clone() },
            QueryNode::AttributePrefix { attr: attr.clone(), prefix: z() },
            feat(prefix).into(),
        ),
        QueryNode::AttributeWildcard { attr, wildcard } => (
            attr.clone(),
            QueryNode::AttributeWildcard { attr: z(), wildcard: wildcard.clone() },
            QueryNode::AttributeWildcard { attr: attr.clone(), wildcard: "z*z".into() },
            // the glob characters themselves are only named when nothing else is remarkable
            match feat(&wildcard.replace(['*', '?'], "")) {
                "plain" | "empty" | "numeric" => "wildcard-char".to_string(),
                other => other.to_string(),
            },
        ),
        QueryNode::AttributeComparison { attr, comparator, value } => (
            attr.clone(),
            QueryNode::AttributeComparison { attr: z(), comparator: *comparator, value: value.clone() },
            QueryNode::AttributeComparison { attr: attr.clone(), comparator: *comparator, value: CV::String(z()) },
            cv_feat(value),
        ),
        QueryNode::AttributeRange { attr, lower, lower_inclusive, upper, upper_inclusive } => (
            attr.clone(),
            QueryNode::AttributeRange {
                attr: z(),
                lower: lower.clone(),
                lower_inclusive: *lower_inclusive,
                upper: upper.clone(),
                upper_inclusive: *upper_inclusive,
            },
            QueryNode::AttributeRange {
                attr: attr.clone(),
                lower: CV::String(z()),
                lower_inclusive: *lower_inclusive,
                upper: CV::String(z()),
                upper_inclusive: *upper_inclusive,
            },
            format!("{}/{}", cv_feat(lower), cv_feat(upper)),
        ),
        _ => return None,
    })
}

/// Root causes of a leaf that does not round-trip: which slot (field name / value) is to blame,
/// found by replacing the other slot with harmless text.
fn leaf_causes(n: &QueryNode, out: &mut Vec<String>) {
    let kind = root_kind(n);
    let Some((attr, neutral_attr, neutral_value, value_class)) = leaf_parts(n) else {
        out.push(kind.to_string());
        return;
    };
    let attr_class = if attr == "_default_" { "default" } else { feat(&attr) };
    let has_value = !value_class.is_empty();
    let fixed_by_attr = attr != "_default_" && !fails(&neutral_attr);
    let fixed_by_value = has_value && !fails(&neutral_value);
    match (fixed_by_attr, fixed_by_value) {
        (true, false) => out.push(format!("{kind}.field-name:{attr_class}")),
        (false, true) => out.push(format!("{kind}.value:{value_class}")),
        (true, true) => out.push(format!("{kind}.field-name:{attr_class}+value:{value_class}")),
        (false, false) => {
            // each slot is bad on its own (or the node kind itself is)
            if attr != "_default_" {
                out.push(format!("{kind}.field-name:{attr_class}"));
            }
            if has_value {
                out.push(format!("{kind}.value:{value_class}"));
            }
            if attr == "_default_" && !has_value {
                out.push(kind.to_string());
            }
        }
    }
}

/// The smallest subtrees that do not survive render + re-parse on their own. For a compound node
/// whose children all do, the children that matter (found by deleting / neutralising children).
fn minimal_failing(n: &QueryNode, out: &mut Vec<String>) {
    let before = out.len();
    match n {
        QueryNode::NegatedNode { node } => minimal_failing(node, out),
        QueryNode::Boolean { nodes, .. } => {
            for c in nodes {
                minimal_failing(c, out);
            }
        }
        _ => {}
    }
    if out.len() != before || !fails(n) {
        return;
    }
    match n {
        QueryNode::NegatedNode { node } => {
            let mut inner = Vec::new();
            match &**node {
                QueryNode::Boolean { .. } | QueryNode::NegatedNode { .. } => inner.push(root_kind(node).to_string()),
                leaf => {
                    // describe the operand by its non-plain slots
                    if let Some((attr, _, _, vc)) = leaf_parts(leaf) {
                        let ac = if attr == "_default_" { "default" } else { feat(&attr) };
                        inner.push(format!("{}({ac},{vc})", root_kind(leaf)));
                    } else {
                        inner.push(root_kind(leaf).to_string());
                    }
                }
            }
            out.push(format!("not[{}]", inner.join(",")));
        }
        QueryNode::Boolean { oper, nodes } => {
            // 1-minimal failing sub-list
            let mut keep: Vec<QueryNode> = nodes.clone();
            let mut i = 0;
            while keep.len() > 2 && i < keep.len() {
                let mut fewer = keep.clone();
                fewer.remove(i);
                if fails(&QueryNode::Boolean { oper: *oper, nodes: fewer.clone() }) {
                    keep = fewer;
                } else {
                    i += 1;
                }
            }
            let mut parts: Vec<String> = Vec::new();
            let mut any = false;
            for i in 0..keep.len() {
                let mut sub = keep.clone();
                sub[i] = neutral();
                if fails(&QueryNode::Boolean { oper: *oper, nodes: sub }) {
                    any = true;
                } else {
                    let c = &keep[i];
                    parts.push(match leaf_parts(c) {
                        Some((attr, _, _, vc)) => {
                            let ac = if attr == "_default_" { "default" } else { feat(&attr) };
                            format!("{}({ac},{vc})", root_kind(c))
                        }
                        None => root_kind(c).to_string(),
                    });
                }
            }
            parts.sort();
            parts.dedup();
            if any {
                parts.push("any".into());
            }
            out.push(format!("{}[{}]", root_kind(n), parts.join(",")));
        }
        leaf => leaf_causes(leaf, out),
    }
}

/// Root-cause labels of a failing case (sorted, de-duplicated).
fn causes(t: &QueryNode) -> Vec<String> {
    let mut v = Vec::new();
    minimal_failing(t, &mut v);
    v.sort();
    v.dedup();
    if v.is_empty() {
        v.push("unclassified".into());
    }
    v
}

fn case(w: &J) -> CaseResult {
    let q = w["q"].as_str().unwrap_or("");
    let t1 = match parse(q) {
        Ok(t) => t,
        Err(e) if e.starts_with("panic") => {
            // Outside the property's quantifier ("texts the parser accepts"): counted, not judged.
            return CaseResult::trivial("parse-panic").count("parse_panics", 1);
        }
        Err(_) => return CaseResult::trivial("rejected").count("rejected", 1),
    };
    let kind = root_kind(&t1);
    let d1 = format!("{t1:?}");
    let mut res = CaseResult::ok("").count("accepted", 1);
    if node_count(&t1) > 1 {
        res = res.count("accepted_compound", 1);
    }
    let s = match guarded(|| t1.to_lucene()) {
        Ok(s) => s,
        Err(p) => {
            res.class = format!("{kind}/render-panic");
            return res.violation(Violation::new(
                "C30.render-panic",
                w.clone(),
                "to_lucene renders the accepted query",
                format!("panic: {p}"),
            ));
        }
    };
    let (expected, observed) = match parse(&s) {
        Ok(t2) => {
            let d2 = format!("{t2:?}");
            if d1 == d2 {
                res.class = format!("{kind}/same");
                if s != q.trim() {
                    res = res.count("rendered_text_differs_from_input", 1);
                }
                return res;
            }
            res.class = format!("{kind}/differs");
            (format!("parse(to_lucene(t)) == t where t = {d1}"), format!("to_lucene(t) = {s:?} parses as {d2}"))
        }
        Err(e) => {
            res.class = format!("{kind}/unparsable");
            (format!("to_lucene(t) parses back to t = {d1}"), format!("to_lucene(t) = {s:?} is {e}"))
        }
    };
    res = res.count("violating_cases", 1);
    for c in causes(&t1) {
        res = res.violation(Violation::new(&format!("C30.roundtrip[{c}]"), w.clone(), expected.clone(), observed.clone()));
    }
    res
}

fn join_tokens(toks: &[&str], gaps: u64) -> String {
    let mut q = String::new();
    for (k, t) in toks.iter().enumerate() {
        if k > 0 && (gaps >> (k - 1)) & 1 == 1 {
            q.push(' ');
        }
        q.push_str(t);
    }
    q
}

/// Tokens used for the longest (5-token, thorough) sequences.
const LONG_TOKENS: &[&str] = &[
    "a", "\"a b\"", "a*", "a?b", "*", "*:*", "f:", "_exists_:", ">", "<=", "1", "1.0", "[1 TO 5]", "{a TO *}", "NOT", "-", "+",
    "AND", "OR", "||", "(", ")", "a\\ b", "\"\"",
];

/// Streaming "one representative per root cause" filter: a violation passes only while it is the
/// best (shortest, then smallest query text) seen so far for its clause. The global best always
/// passes, so the final choice does not depend on thread scheduling; counts are exact.
struct Reducer {
    best: std::sync::Mutex<std::collections::BTreeMap<String, (u64, (usize, String))>>,
}

impl Reducer {
    fn filter(&self, mut r: CaseResult) -> CaseResult {
        if r.violations.is_empty() {
            return r;
        }
        let mut best = self.best.lock().expect("reducer lock");
        r.violations.retain(|v| {
            let q = v.witness["q"].as_str().unwrap_or("").to_string();
            let key = (q.chars().count(), q);
            match best.get_mut(&v.clause) {
                None => {
                    best.insert(v.clause.clone(), (1, key));
                    true
                }
                Some((n, b)) => {
                    *n += 1;
                    if key < *b {
                        *b = key;
                        true
                    } else {
                        false
                    }
                }
            }
        });
        r
    }
}

pub fn run(tier: Tier) -> Report {
    let mut rep = Report::new("C30", tier, "exploration");
    let red = Reducer { best: std::sync::Mutex::new(std::collections::BTreeMap::new()) };
    let check = |w: &J| red.filter(case(w));
    // token sequences: every gap pattern (blank / no blank per gap) up to `full_gap_len` tokens,
    // all-blank and no-blank joins for the longest length (thorough: over the first 24 tokens).
    let (full_gap_len, max_len) = if tier.thorough() { (4usize, 5usize) } else { (3, 4) };
    for len in 1..=max_len {
        let gap_patterns: Vec<u64> = if len <= full_gap_len {
            (0..(1u64 << (len - 1))).collect()
        } else {
            vec![0, (1u64 << (len - 1)) - 1]
        };
        let nt = if len == 5 { LONG_TOKENS.len() as u64 } else { TOKENS.len() as u64 };
        let mut dims = vec![nt; len];
        dims.push(gap_patterns.len() as u64);
        let n = product(&dims);
        let gp = gap_patterns.clone();
        law::drive_indexed(
            &mut rep,
            &format!("tokens{len}"),
            n,
            |i| {
                let c = unrank(i, &dims);
                let toks: Vec<&str> = c[..len].iter().map(|&k| if len == 5 { LONG_TOKENS[k] } else { TOKENS[k] }).collect();
                json!({"q": join_tokens(&toks, gp[c[len]])})
            },
            check,
        );
    }
    // value strings (thorough: length 4 over the first 30 symbols)
    let max_chars = if tier.thorough() { 4usize } else { 3 };
    for len in 0..=max_chars {
        let nc = if len == 4 { 30 } else { CHARS.len() as u64 };
        let mut dims = vec![nc; len];
        dims.push(CONTEXTS.len() as u64);
        let n = product(&dims);
        law::drive_indexed(
            &mut rep,
            &format!("values{len}"),
            n,
            |i| {
                let c = unrank(i, &dims);
                let v: String = c[..len].iter().map(|&k| CHARS[k]).collect();
                json!({"q": CONTEXTS[c[len]].replace('$', &v)})
            },
            check,
        );
    }
    // One representative per root cause: the case with the shortest (then smallest) query text.
    // Every failing case is still counted (per root cause) in the evidence.
    {
        let best = red.best.lock().expect("reducer lock");
        let all = std::mem::take(&mut rep.violations);
        let mut total = 0;
        let counts: serde_json::Map<String, J> = best
            .iter()
            .map(|(k, (n, _))| {
                total += n;
                (k.clone(), json!(n))
            })
            .collect();
        rep.set("violations_before_reduction", total);
        // a root-cause clause with MORE failing cases than listed is a new violation of its own
        for (clause, n) in &counts {
            let n = n.as_u64().unwrap_or(0);
            if let Some(ceiling) = crate::report::clause_ceiling("C30", tier, clause) {
                if n > ceiling {
                    rep.violation(Violation::new(
                        "C30.more-failing-cases-than-listed",
                        json!({"root_cause_clause": clause, "tier": tier.name(), "failing_cases": n}),
                        format!("at most {ceiling} accepted query texts fail to round-trip through this (listed) root cause"),
                        format!("{n} fail"),
                    ));
                }
            }
        }
        rep.set("violating_cases_by_root_cause", J::Object(counts));
        for v in all {
            let q = v.witness["q"].as_str().unwrap_or("").to_string();
            if best.get(&v.clause).is_some_and(|(_, b)| *b == (q.chars().count(), q.clone())) {
                rep.violation(v);
            }
        }
    }
    let nt = TOKENS.len();
    let nc = CHARS.len();
    rep.set(
        "rule",
        format!(
            "tokens: all sequences of 1..={max_len} tokens over a {nt}-token alphabet, every blank/no-blank gap pattern up to \
             {full_gap_len} tokens and all-blank / no-blank joins for {max_len}; values: all strings of 0..={max_chars} symbols over a \
             {nc}-symbol alphabet (every lucene-special character escaped, the term-legal ones also bare) in {} grammar positions. \
             (thorough tier: 5-token sequences over a {}-token sub-alphabet, 4-symbol strings over the first 30 symbols.) \
             A case is non-trivial when the parser accepted the text (so render + re-parse ran); distinct = distinct query text.",
            CONTEXTS.len(),
            LONG_TOKENS.len()
        ),
    );
    rep.set("token_alphabet", json!(TOKENS));
    rep.set("value_alphabet", json!(CHARS));
    rep.set("value_contexts", json!(CONTEXTS));
    rep.assume("tree identity is judged on the derived Debug rendering of QueryNode (structural; floats by their shortest round-trip text)");
    rep.assume("violations are reported once per root cause (clause = abstract signature of a smallest subtree that does not round-trip on its own + its failure mode; a failing case is attributed to each of its root causes), with the shortest failing query text as witness; all failing cases are counted in violating_cases_by_root_cause");
    rep.assume("texts on which the parser panics are outside the quantifier (\"texts the parser accepts\"): counted as parse_panics, not judged");
    rep
}

pub fn replay(_property: &str, w: &J) -> Vec<Violation> {
    case(w).violations
}
