//! Differential program enumeration against the reference interpreter (DESIGN §3.2):
//! C06 (`return`), C07 (`abort`), C08 (`??`, `ok, err =`), C09 (`||`, `&&`, `if`), C13 (closure
//! parameter scoping). All programs of a focused grammar are printed, compiled with the real
//! compiler (rejected ones are counted and skipped) and run on every event of the alphabet; the
//! model's expectation is embedded in the witness, so a replay is a plain unit test.

use crate::law::{self, CaseResult};
use crate::model::interp::{self as m, Ctl, P, Tgt, World};
use crate::model::member::member_lenient;
use crate::model::tree::Seg;
use crate::report::{Report, Tier, Violation};
use crate::util::guarded;
use crate::vrlx::{self, Outcome};
use crate::vv;
use serde_json::{Value as J, json};
use std::collections::{BTreeMap, BTreeSet};
use vrl::compiler::state::RuntimeState;
use vrl::parser::ast::Ident;
use vrl::value::Value;

const UNSET: &str = "\u{1}$UNSET$\u{1}";

fn model_matches(model: &Value, real: &Value) -> bool {
    if *model == m::err_marker() {
        return matches!(real, Value::Bytes(_));
    }
    if m::is_wild(model) {
        return true;
    }
    match (model, real) {
        (Value::Array(a), Value::Array(b)) => a.len() == b.len() && a.iter().zip(b).all(|(x, y)| model_matches(x, y)),
        (Value::Object(a), Value::Object(b)) => a.len() == b.len() && a.iter().zip(b).all(|((ka, x), (kb, y))| ka == kb && model_matches(x, y)),
        _ => model == real,
    }
}

/// Build the witness for (program, event): runs the model; None when the model does not define
/// the case.
pub fn make_case(prop: &str, stmts: &[P], event: &Value, check_vars: &[&str], skipped: &mut BTreeMap<String, u64>) -> Option<J> {
    let mut w = World::new(event.clone(), vrlx::empty_object());
    let r = w.run(stmts);
    let (class, value, msg) = match r {
        Ok(v) => ("ok", vv::enc(&v), J::Null),
        Err(Ctl::Error) => ("error", J::Null, J::Null),
        Err(Ctl::Abort(mm)) => ("abort", J::Null, mm.map_or(J::Null, J::String)),
        Err(Ctl::Return(_)) => unreachable!("run() maps return"),
        Err(Ctl::Unmodelled(why)) => {
            *skipped.entry(why).or_insert(0) += 1;
            return None;
        }
    };
    let mut vars = serde_json::Map::new();
    for n in check_vars {
        vars.insert((*n).to_string(), w.vars.get(*n).map_or(J::String(UNSET.into()), vv::enc));
    }
    Some(json!({
        "property": prop,
        "program": m::program_text(stmts),
        "event": vv::enc(event),
        "expect": {"class": class, "value": value, "abort_message": msg, "event": vv::enc(&w.event), "metadata": vv::enc(&w.metadata), "vars": vars},
    }))
}

thread_local! {
    static REJECTIONS: std::cell::RefCell<BTreeMap<String, String>> = const { std::cell::RefCell::new(BTreeMap::new()) };
}

/// "rejected-by-compiler:<first diagnostic code>" (so that the evidence shows WHY programs were skipped: a
/// syntax error would mean the printer, not the type checker, removed them).
fn rejection_class(src: &str) -> String {
    REJECTIONS.with(|r| {
        if let Some(c) = r.borrow().get(src) {
            return c.clone();
        }
        let why = law::why_rejected(src);
        let code = why.trim_start_matches("rejected: ").split(':').next().unwrap_or("?").to_string();
        let c = format!("rejected-by-compiler:{code}");
        let mut m = r.borrow_mut();
        if m.len() > 100_000 {
            m.clear();
        }
        m.insert(src.to_string(), c.clone());
        c
    })
}

/// Execute one witness against the real code and compare with the embedded expectation.
pub fn case(w: &J) -> CaseResult {
    let prop = w["property"].as_str().unwrap_or("C06").to_string();
    let src = w["program"].as_str().unwrap_or("");
    let event = vv::dec(&w["event"]);
    let exp = &w["expect"];
    let Some(program) = law::prog(src) else { return CaseResult::trivial(&rejection_class(src)) };
    let tz = vrlx::utc();
    // 1. the embedder's path
    let mut t1 = vrlx::target(event.clone(), vrlx::empty_object());
    let o1 = match guarded(|| vrlx::run_runtime(&program, &mut t1, &tz)) {
        Ok(o) => o,
        Err(p) => {
            return CaseResult::ok("panic").violation(Violation::new(&format!("{prop}.panic"), w.clone(), "no panic", p));
        }
    };
    // 2. Program::resolve on a harness-owned state (variables become observable)
    let mut t2 = vrlx::target(event, vrlx::empty_object());
    let mut rs = RuntimeState::default();
    let o2 = match guarded(|| vrlx::run_program(&program, &mut t2, &mut rs, &tz)) {
        Ok(o) => o,
        Err(p) => return CaseResult::ok("panic").violation(Violation::new(&format!("{prop}.panic"), w.clone(), "no panic", p)),
    };
    let mut res = CaseResult::ok(&format!("{}→{}", exp["class"].as_str().unwrap_or("?"), o1.class()));
    let class_of = |o: &Outcome| match o {
        Outcome::Ok(_) | Outcome::Return(_) => "ok",
        Outcome::Error(_) => "error",
        Outcome::Abort(_) | Outcome::Other(_) => "abort",
    };
    let mut push = |clause: &str, expected: String, observed: String| {
        res.violations.push(Violation::new(&format!("{prop}.{clause}"), w.clone(), expected, observed));
    };
    // the two execution paths must agree (pins Runtime::resolve's Return/Abort/Error mapping)
    let o2r = o2.as_runtime();
    let same_paths = class_of(&o1) == class_of(&o2r) && o1.value() == o2r.value() && t1.value == t2.value && t1.metadata == t2.metadata;
    if !same_paths {
        push("runtime-vs-program-resolve", format!("Runtime::resolve agrees with Program::resolve: {}", o2r.show()), o1.show());
    }
    let want_class = exp["class"].as_str().unwrap_or("");
    if class_of(&o1) != want_class {
        push("outcome", format!("outcome {want_class} {}", exp["value"]), o1.show());
        return res;
    }
    match &o1 {
        Outcome::Ok(v) => {
            let mv = vv::dec(&exp["value"]);
            if !model_matches(&mv, v) {
                push("result", format!("result {}", vv::show(&mv)), vv::show(v));
            }
        }
        Outcome::Abort(msg) => {
            let want = exp["abort_message"].as_str().map(String::from);
            if *msg != want {
                push("abort-message", format!("abort message {want:?}"), format!("{msg:?}"));
            }
        }
        _ => {}
    }
    if want_class != "error" {
        let me = vv::dec(&exp["event"]);
        if !model_matches(&me, &t1.value) {
            push("event", format!("final event {}", vv::show(&me)), vv::show(&t1.value));
        }
        let mm = vv::dec(&exp["metadata"]);
        if !model_matches(&mm, &t1.metadata) {
            push("metadata", format!("final metadata {}", vv::show(&mm)), vv::show(&t1.metadata));
        }
        // Variables are only observable by later expressions of the same run: compared on success only.
        if let Some(vars) = exp["vars"].as_object().filter(|_| want_class == "ok") {
            for (n, mv) in vars {
                let real = rs.variable(&Ident::new(n.as_str()));
                if mv.as_str() == Some(UNSET) {
                    if let Some(r) = real {
                        push("variable", format!("variable {n} is unset"), format!("{n} = {}", vv::show(r)));
                    }
                } else {
                    let mv = vv::dec(mv);
                    match real {
                        Some(r) if model_matches(&mv, r) => {}
                        Some(r) => push("variable", format!("variable {n} = {}", vv::show(&mv)), format!("{n} = {}", vv::show(r))),
                        // an unset variable reads as null: indistinguishable from a stored null
                        None if mv == Value::Null => {}
                        None => push("variable", format!("variable {n} = {}", vv::show(&mv)), format!("{n} is unset")),
                    }
                }
            }
        }
        // C08: whatever `ok, err =` stored must belong to the static type of the variable
        if prop == "C08" && want_class == "ok" {
            for (name, kind, _) in program.final_type_info().state.local.verif_bindings() {
                // under the shared contexts only the targets of the infallible assignment itself are judged (the
                // typing of what encloses it, e.g. map_keys, is C01's subject)
                if w.get("context").is_some() && name.as_str() != "ok8" && name.as_str() != "err8" {
                    continue;
                }
                let real = rs.variable(&Ident::new(name.as_str())).cloned().unwrap_or(Value::Null);
                if !member_lenient(&real, &kind) {
                    push("stored-value-in-static-type", format!("variable {name} ∈ {kind}"), vv::show(&real));
                }
            }
        }
    }
    res
}

// ---------------------------------------------------------------------------------------------
// Event alphabet

pub fn events() -> Vec<Value> {
    use vv::{arr, i, obj, s};
    let t = Value::Boolean(true);
    let f = Value::Boolean(false);
    vec![
        obj(&[]),
        obj(&[("c", t.clone())]),
        obj(&[("c", f.clone())]),
        obj(&[("c", t.clone()), ("s", s("5"))]),
        obj(&[("c", f.clone()), ("s", s("x"))]),
        obj(&[("s", s("5")), ("d", t.clone())]),
        obj(&[("c", t.clone()), ("d", t.clone()), ("s", s("x")), ("n", i(0))]),
        obj(&[("c", f.clone()), ("d", t.clone()), ("s", s("5")), ("n", i(2)), ("k", i(1))]),
        obj(&[("a", arr(&[i(1), i(2)])), ("c", t.clone()), ("n", i(1))]),
        obj(&[("a", obj(&[("k", i(1))])), ("s", s("abc")), ("c", Value::Null)]),
    ]
}

// ---------------------------------------------------------------------------------------------
// Contexts shared by C06 / C07

type ExprCtx = (&'static str, fn(P) -> P);
type StmtCtx = (&'static str, fn(P) -> Vec<P>);

fn b(items: Vec<P>) -> P {
    P::Block(items)
}
fn f_(name: &str) -> Seg {
    Seg::F(name.to_string())
}
fn evp(name: &str) -> P {
    P::Ev(vec![f_(name)])
}
fn evt(name: &str) -> Tgt {
    Tgt::Ev(vec![f_(name)])
}
fn c_true() -> P {
    m::bin("==", evp("c"), m::lit_b(true))
}
fn to_int_s() -> P {
    m::call("to_int", vec![evp("s")])
}

fn expr_contexts() -> Vec<ExprCtx> {
    vec![
        ("id", |e| e),
        ("block", |e| b(vec![m::marker(5), e])),
        ("array-element", |e| P::Arr(vec![m::lit_i(1), e, b(vec![m::marker(6), m::lit_i(2)])])),
        ("object-value", |e| P::Obj(vec![("j".into(), e), ("k".into(), b(vec![m::marker(6), m::lit_i(2)]))])),
        ("add-left", |e| m::bin("+", e, b(vec![m::marker(6), m::lit_i(2)]))),
        ("add-right", |e| m::bin("+", m::lit_i(1), e)),
        ("eq-left", |e| m::bin("==", e, m::lit_i(1))),
        ("or-left", |e| m::bin("||", e, b(vec![m::marker(6), m::lit_i(5)]))),
        ("or-right", |e| m::bin("||", m::null(), e)),
        ("and-right", |e| m::bin("&&", m::lit_b(true), m::bin("==", e, m::lit_i(1)))),
        ("not", |e| P::Not(Box::new(m::bin("==", e, m::lit_i(1))))),
        ("call-argument", |e| m::call("to_string", vec![e])),
        ("call-argument-2", |e| m::call("push", vec![P::Arr(vec![m::lit_i(0)]), e])),
        ("coalesce-left", |e| m::bin("??", b(vec![e, to_int_s()]), b(vec![m::marker(7), m::lit_i(1)]))),
        ("coalesce-right", |e| m::bin("??", to_int_s(), e)),
        ("if-predicate", |e| m::if_else(m::bin("==", e, m::lit_i(1)), vec![m::lit_i(7)], vec![m::lit_i(8)])),
        ("if-branch", |e| m::if_else(m::bin("==", evp("d"), m::lit_b(true)), vec![e], vec![m::lit_i(0)])),
        ("else-branch", |e| m::if_else(m::bin("==", evp("d"), m::lit_b(true)), vec![m::lit_i(0)], vec![e])),
        // optional (defaulted) parameters of stdlib functions, passed positionally
        ("optional-argument-round", |e| m::call("round", vec![m::lit_i(7), e])),
        ("optional-argument-contains", |e| m::call("contains", vec![m::lit_s("abc"), m::lit_s("B"), m::bin("==", e, m::lit_i(1))])),
        ("optional-argument-replace", |e| m::call("length", vec![m::call("replace", vec![m::lit_s("aaa"), m::lit_s("a"), m::lit_s("bb"), e])])),
        ("optional-argument-join", |e| m::call("length", vec![m::call("join", vec![P::Arr(vec![m::lit_s("a"), m::lit_s("b")]), m::call("to_string", vec![e])])])),
        // the ordinary (non-closure) argument of closure-taking functions
        ("closure-collection-array", |e| m::call("length", vec![P::Closure("map_values", Box::new(P::Arr(vec![e, m::lit_i(2)])), vec!["w".into()], vec![m::marker(7), m::var("w")])])),
        ("closure-collection-object", |e| {
            m::call("length", vec![P::Closure("filter", Box::new(P::Obj(vec![("a".into(), e), ("b".into(), m::lit_i(2))])), vec!["_k".into(), "w".into()], vec![m::bin("==", m::var("w"), m::lit_i(2))])])
        }),
    ]
}

fn stmt_contexts() -> Vec<StmtCtx> {
    vec![
        ("statement", |e| vec![m::marker(1), e, m::marker(2)]),
        ("variable-assignment", |e| vec![m::marker(1), m::set(m::var_t("x"), e), m::marker(2)]),
        ("event-assignment", |e| vec![m::marker(1), m::set(evt("r"), e), m::marker(2)]),
        ("infallible-assignment", |e| vec![m::marker(1), P::SetErr(m::var_t("x"), m::var_t("err"), Box::new(b(vec![e, to_int_s()]))), m::marker(2)]),
        ("infallible-assignment-event", |e| vec![m::marker(1), P::SetErr(evt("ok"), evt("err"), Box::new(b(vec![e, to_int_s()]))), m::marker(2)]),
        ("last-statement", |e| vec![m::marker(1), e]),
        ("for_each-object", |e| {
            vec![
                m::marker(1),
                P::Closure("for_each", Box::new(P::Obj(vec![("a".into(), m::lit_i(1)), ("b".into(), m::lit_i(2))])), vec!["k".into(), "v".into()], vec![m::marker(3), e, m::marker(4)]),
                m::marker(2),
            ]
        }),
        ("for_each-array", |e| {
            vec![
                m::marker(1),
                P::Closure("for_each", Box::new(P::Arr(vec![m::lit_i(1), m::lit_i(2)])), vec!["k".into(), "v".into()], vec![m::marker(3), e, m::marker(4)]),
                m::marker(2),
            ]
        }),
        ("map_values-object", |e| {
            vec![
                m::set(m::var_t("x"), P::Closure("map_values", Box::new(P::Obj(vec![("a".into(), m::lit_i(1)), ("b".into(), m::lit_i(2))])), vec!["v".into()], vec![m::marker(3), e, m::var("v")])),
                m::marker(2),
            ]
        }),
        ("map_values-array", |e| {
            vec![
                m::set(m::var_t("x"), P::Closure("map_values", Box::new(P::Arr(vec![m::lit_i(1), m::lit_i(2)])), vec!["v".into()], vec![m::marker(3), e, m::var("v")])),
                m::marker(2),
            ]
        }),
        ("filter-object", |e| {
            vec![
                m::set(m::var_t("x"), P::Closure("filter", Box::new(P::Obj(vec![("a".into(), m::lit_i(1)), ("b".into(), m::lit_i(2))])), vec!["k".into(), "v".into()], vec![e, m::lit_b(true)])),
                m::marker(2),
            ]
        }),
        ("filter-array", |e| {
            vec![
                m::set(m::var_t("x"), P::Closure("filter", Box::new(P::Arr(vec![m::lit_i(1), m::lit_i(2)])), vec!["k".into(), "v".into()], vec![e, m::lit_b(true)])),
                m::marker(2),
            ]
        }),
        ("for_each-array-underscores", |e| {
            vec![
                m::marker(1),
                P::Closure("for_each", Box::new(P::Arr(vec![m::lit_i(1), m::lit_i(2)])), vec!["_".into(), "_".into()], vec![m::marker(3), e, m::marker(4)]),
                m::marker(2),
            ]
        }),
        ("for_each-object-underscores", |e| {
            vec![
                m::marker(1),
                P::Closure("for_each", Box::new(P::Obj(vec![("a".into(), m::lit_i(1)), ("b".into(), m::lit_i(2))])), vec!["_".into(), "_".into()], vec![m::marker(3), e, m::marker(4)]),
                m::marker(2),
            ]
        }),
        ("filter-array-underscores", |e| {
            vec![
                m::set(m::var_t("x"), P::Closure("filter", Box::new(P::Arr(vec![m::lit_i(1), m::lit_i(2)])), vec!["_".into(), "_".into()], vec![e, m::lit_b(true)])),
                m::marker(2),
            ]
        }),
        ("for_each-array-half-underscore", |e| {
            vec![
                m::marker(1),
                P::Closure("for_each", Box::new(P::Arr(vec![m::lit_i(1), m::lit_i(2)])), vec!["_".into(), "v".into()], vec![m::marker(3), e, m::marker(4)]),
                m::marker(2),
            ]
        }),
        ("map_values-array-underscore", |e| {
            vec![
                m::set(m::var_t("x"), P::Closure("map_values", Box::new(P::Arr(vec![m::lit_i(1), m::lit_i(2)])), vec!["_".into()], vec![m::marker(3), e, m::lit_i(5)])),
                m::marker(2),
            ]
        }),
        ("map_keys-object-underscore", |e| {
            vec![
                m::set(m::var_t("x"), P::Closure("map_keys", Box::new(P::Obj(vec![("a".into(), m::lit_i(1))])), vec!["_".into()], vec![e, m::lit_s("z")])),
                m::marker(2),
            ]
        }),
        ("map_keys-object", |e| {
            vec![
                m::set(m::var_t("x"), P::Closure("map_keys", Box::new(P::Obj(vec![("a".into(), m::lit_i(1)), ("b".into(), m::lit_i(2))])), vec!["k".into()], vec![e, m::var("k")])),
                m::marker(2),
            ]
        }),
    ]
}

/// Enumerate S(E1(E2(hole))) for all statement contexts, all pairs of expression contexts and
/// all holes × all events.
const CORE_CONTEXTS: usize = 18;

fn context_cases(prop: &str, holes: &[(&'static str, P)], in_closure_holes: &[(&'static str, P)], depth2: bool, skipped: &mut BTreeMap<String, u64>) -> Vec<J> {
    context_cases_tier(prop, holes, in_closure_holes, depth2, true, skipped)
}

fn context_cases_tier(prop: &str, holes: &[(&'static str, P)], in_closure_holes: &[(&'static str, P)], depth2: bool, full_pairs: bool, skipped: &mut BTreeMap<String, u64>) -> Vec<J> {
    let ectx = expr_contexts();
    let sctx = stmt_contexts();
    let evs = events();
    let mut out = Vec::new();
    let mut seen: BTreeSet<String> = BTreeSet::new();
    for (sname, s) in &sctx {
        let closure = sname.contains('-') && !sname.contains("underscore") && (sname.starts_with("for_each") || sname.starts_with("map_") || sname.starts_with("filter"));
        let hs: Vec<&(&'static str, P)> = if closure { holes.iter().chain(in_closure_holes.iter()).collect() } else { holes.iter().collect() };
        for (_hname, h) in hs {
            for (i1, (_n1, e1)) in ectx.iter().enumerate() {
                for (i2, (_n2, e2)) in ectx.iter().enumerate() {
                    if !depth2 && i2 != 0 {
                        continue;
                    }
                    // the six contexts added later (optional stdlib parameters, closure collections) are
                    // composed with the others only in the thorough tier; the quick tier has them at depth 1
                    if !full_pairs && (i1 >= CORE_CONTEXTS || i2 >= CORE_CONTEXTS) && i1 != 0 && i2 != 0 {
                        continue;
                    }
                    if i1 == 0 && i2 != 0 {
                        continue; // id∘E2 is enumerated as E2∘id
                    }
                    let prog = s(e1(e2(h.clone())));
                    let text = m::program_text(&prog);
                    if !seen.insert(text) {
                        continue;
                    }
                    for ev in &evs {
                        if let Some(mut w) = make_case(prop, &prog, ev, &["x", "err", "k", "v"], skipped) {
                            w["context"] = json!(format!("{sname}"));
                            out.push(w);
                        }
                    }
                }
            }
        }
    }
    out
}

fn finish(rep: &mut Report, cases: &[J], skipped: &BTreeMap<String, u64>, rule: &str) {
    let distinct_programs: BTreeSet<&str> = cases.iter().filter_map(|c| c["program"].as_str()).collect();
    rep.set("programs_enumerated", distinct_programs.len() as u64);
    rep.set("model_skipped_unmodelled", json!(skipped));
    rep.set("rule", rule);
    law::drive(rep, "programs×events", cases, case);
    rep.assume("reference interpreter harness/src/model/interp.rs implements the property wording for VRL-core; cases outside its domain are skipped (counted)");
    rep.assume("error message texts are never compared; the default stored by `ok, err =` is compared only where the right-hand side has one static type");
}

pub fn run_c06(tier: Tier) -> Report {
    let mut rep = Report::new("C06", tier, "exploration");
    let mut skipped = BTreeMap::new();
    let one = b(vec![m::ret(m::lit_i(9)), m::lit_i(1)]);
    let holes: Vec<(&'static str, P)> = vec![
        ("return 9", one),
        ("if .c == true { return 9 }; 1", b(vec![m::if_(c_true(), vec![m::ret(m::lit_i(9))]), m::lit_i(1)])),
        ("if .c == true { return .s } else { 1 }", m::if_else(c_true(), vec![m::ret(evp("s"))], vec![m::lit_i(1)])),
    ];
    let closure_holes: Vec<(&'static str, P)> = vec![
        ("if v == 1 { return 9 }; 1", b(vec![m::if_(m::bin("==", m::var("v"), m::lit_i(1)), vec![m::ret(m::lit_i(9))]), m::lit_i(1)])),
        ("if k == \"a\" { return 9 }; 1", b(vec![m::if_(m::bin("==", m::var("k"), m::lit_s("a")), vec![m::ret(m::lit_i(9))]), m::lit_i(1)])),
    ];
    let mut cases = context_cases_tier("C06", &holes, &closure_holes, true, true, &mut skipped);
    // closure-specific: the returned value IS the iteration's value
    let evs = events();
    let colls = [P::Obj(vec![("a".into(), m::lit_i(1)), ("b".into(), m::lit_i(2))]), P::Arr(vec![m::lit_i(1), m::lit_i(2)])];
    for coll in &colls {
        let is_obj = matches!(coll, P::Obj(_));
        let mut progs: Vec<Vec<P>> = vec![
            vec![m::set(m::var_t("x"), P::Closure("map_values", Box::new(coll.clone()), vec!["v".into()], vec![m::if_(m::bin("==", m::var("v"), m::lit_i(1)), vec![m::ret(m::lit_i(7))]), m::var("v")])), m::marker(2)],
            vec![m::set(m::var_t("x"), P::Closure("map_values", Box::new(coll.clone()), vec!["v".into()], vec![m::ret(m::lit_s("r")), m::var("v")])), m::marker(2)],
            vec![m::set(m::var_t("x"), P::Closure("filter", Box::new(coll.clone()), vec!["k".into(), "v".into()], vec![m::if_(m::bin("==", m::var("v"), m::lit_i(1)), vec![m::ret(m::lit_b(false))]), m::lit_b(true)])), m::marker(2)],
            vec![m::set(m::var_t("x"), P::Closure("filter", Box::new(coll.clone()), vec!["k".into(), "v".into()], vec![m::ret(m::bin("==", m::var("v"), m::lit_i(2)))])), m::marker(2)],
            vec![P::Closure("for_each", Box::new(coll.clone()), vec!["k".into(), "v".into()], vec![m::if_(m::bin("==", m::var("v"), m::lit_i(1)), vec![m::ret(m::null())]), m::set(evt("seen"), m::var("v"))]), m::marker(2)],
            vec![P::Closure("for_each", Box::new(coll.clone()), vec!["k".into(), "v".into()], vec![m::set(evt("before"), m::var("v")), m::ret(m::var("v")), m::set(evt("after"), m::lit_i(1))]), m::marker(2)],
        ];
        if is_obj {
            progs.push(vec![m::set(m::var_t("x"), P::Closure("map_keys", Box::new(coll.clone()), vec!["k".into()], vec![m::if_(m::bin("==", m::var("k"), m::lit_s("a")), vec![m::ret(m::lit_s("z"))]), m::var("k")])), m::marker(2)]);
            progs.push(vec![m::set(m::var_t("x"), P::Closure("map_keys", Box::new(coll.clone()), vec!["k".into()], vec![m::ret(m::bin("+", m::var("k"), m::lit_s("_")))])), m::marker(2)]);
        }
        for p in progs {
            for ev in &evs[..3] {
                if let Some(mut w) = make_case("C06", &p, ev, &["x", "k", "v"], &mut skipped) {
                    w["context"] = json!("closure-iteration-value");
                    cases.push(w);
                }
            }
        }
    }
    // `replace_with` (not modelled by the reference interpreter): hand-written expectations
    let rw: Vec<J> = vec![
        fixed("C06", ".r = replace_with(\"abcb\", r'b') -> |m| { if m.string == \"b\" { return \"R\" }; \"x\" }\n.m2 = 1", json!({}), json!({"class": "ok", "value": 1, "event": {"r": "aRcR", "m2": 1}})),
        fixed("C06", ".r = replace_with(\"abcb\", r'b') -> |m| { .before = 1; return upcase(m.string); .after = 1; \"never\" }\n.m2 = 1", json!({}), json!({"class": "ok", "value": 1, "event": {"r": "aBcB", "before": 1, "m2": 1}})),
        fixed("C06", ".r = replace_with(\"abcb\", r'[bc]') -> |m| { if m.string == \"c\" { return \"\" }; m.string }\n.m2 = 1", json!({}), json!({"class": "ok", "value": 1, "event": {"r": "abb", "m2": 1}})),
        fixed("C06", ".r = replace_with(\"ab\", r'b') -> |m| { x = map_values([1, 2]) -> |v| { if v == 1 { return 7 }; v }; to_string(x[0]) + to_string(x[1]) }\n.m2 = 1", json!({}), json!({"class": "ok", "value": 1, "event": {"r": "a72", "m2": 1}})),
        fixed("C06", ".r = map_values([\"ab\", \"cb\"]) -> |v| { replace_with(v, r'b') -> |m| { return \"R\"; \"x\" } }\n.m2 = 1", json!({}), json!({"class": "ok", "value": 1, "event": {"r": ["aR", "cR"], "m2": 1}})),
        fixed("C06", ".r = replace_with(string!(.s), r'b', count: 1) -> |m| { return \"R\" }\n.m2 = 1", json!({"s": "abcb"}), json!({"class": "ok", "value": 1, "event": {"s": "abcb", "r": "aRcb", "m2": 1}})),
        fixed("C06", "if .c == true { return replace_with(\"ab\", r'b') -> |m| { return \"R\" } }\n.m2 = 1", json!({"c": true}), json!({"class": "ok", "value": "aR", "event": {"c": true}})),
        fixed("C06", ".r = replace_with(\"xyz\", r'b') -> |m| { return \"R\" }\n.m2 = 1", json!({}), json!({"class": "ok", "value": 1, "event": {"r": "xyz", "m2": 1}})),
    ];
    law::drive(&mut rep, "replace_with (hand-written expectations)", &rw, fixed_case);
    let _ = tier;
    finish(&mut rep, &cases, &skipped, "all programs S(E1(E2(hole))) over 19 statement contexts × 24×24 expression contexts (incl. optional stdlib parameters and the collection argument of closure functions) × return-holes (3 plain + 2 per-iteration inside closures) plus closure iteration-value programs, each on every event of the 10-event alphabet; a case is non-trivial when the real compiler accepts the program and the reference interpreter defines its outcome; distinct = distinct (program, event)");
    rep
}

pub fn run_c07(tier: Tier) -> Report {
    let mut rep = Report::new("C07", tier, "exploration");
    let mut skipped = BTreeMap::new();
    let holes: Vec<(&'static str, P)> = vec![
        ("abort", b(vec![P::Abort(None), m::lit_i(1)])),
        ("if .c == true { abort \"m\" }; 1", b(vec![m::if_(c_true(), vec![P::Abort(Some(Box::new(m::lit_s("m"))))]), m::lit_i(1)])),
        ("if .c == true { abort } else { 1 }", m::if_else(c_true(), vec![P::Abort(None)], vec![m::lit_i(1)])),
        ("if .c == true { abort .s }; 1", b(vec![m::if_(c_true(), vec![P::Abort(Some(Box::new(m::call_bang("string", vec![evp("s")]))))]), m::lit_i(1)])),
    ];
    let closure_holes: Vec<(&'static str, P)> =
        vec![
            ("if v == 2 { abort \"it\" }; 1", b(vec![m::if_(m::bin("==", m::var("v"), m::lit_i(2)), vec![P::Abort(Some(Box::new(m::lit_s("it"))))]), m::lit_i(1)])),
            // abort on the FIRST element: later iterations must not run (their side effect and their own abort would show)
            (
                "if v == 1 { abort \"first\" }; .seen = v; if v == 2 { abort \"second\" }; 1",
                b(vec![
                    m::if_(m::bin("==", m::var("v"), m::lit_i(1)), vec![P::Abort(Some(Box::new(m::lit_s("first"))))]),
                    m::set(evt("seen"), m::var("v")),
                    m::if_(m::bin("==", m::var("v"), m::lit_i(2)), vec![P::Abort(Some(Box::new(m::lit_s("second"))))]),
                    m::lit_i(1),
                ]),
            ),
            (
                "if k == \"a\" { abort \"first\" }; .seen = k; 1",
                b(vec![m::if_(m::bin("==", m::var("k"), m::lit_s("a")), vec![P::Abort(Some(Box::new(m::lit_s("first"))))]), m::set(evt("seen"), m::var("k")), m::lit_i(1)]),
            ),
        ];
    let cases = context_cases_tier("C07", &holes, &closure_holes, true, true, &mut skipped);
    let rw: Vec<J> = vec![
        fixed("C07", ".r = replace_with(\"abcb\", r'b') -> |m| { .n = 1; abort; \"x\" }\n.m2 = 1", json!({}), json!({"class": "abort", "abort_message": null, "event": {"n": 1}})),
        fixed("C07", ".r = { to_int(.t); replace_with(string!(.s), r'b') -> |m| { abort \"stop\" } } ?? \"caught\"\n.m2 = 1", json!({"s": "abcb"}), json!({"class": "abort", "abort_message": "stop", "event": {"s": "abcb"}})),
        fixed("C07", ".r = { to_int(.t); replace_with(string!(.s), r'b') -> |m| { abort \"stop\" } } ?? \"caught\"\n.m2 = 1", json!({"s": "abcb", "t": "x"}), json!({"class": "ok", "value": 1, "event": {"s": "abcb", "t": "x", "r": "caught", "m2": 1}})),
        fixed("C07", ".r, .e = { x = replace_with(string!(.s), r'b') -> |m| { if .c == true { abort \"stop\" }; \"x\" }; to_int(.t); x }\n.m2 = 1", json!({"s": "ab", "c": true}), json!({"class": "abort", "abort_message": "stop", "event": {"s": "ab", "c": true}})),
        fixed("C07", ".r, .e = { x = replace_with(string!(.s), r'b') -> |m| { if .c == true { abort \"stop\" }; \"x\" }; to_int(.t); x }\n.m2 = 1", json!({"s": "ab", "c": false}), json!({"class": "ok", "value": 1, "event": {"s": "ab", "c": false, "r": "ax", "e": null, "m2": 1}})),
        fixed("C07", ".r = replace_with(\"xyz\", r'b') -> |m| { abort }\n.m2 = 1", json!({}), json!({"class": "ok", "value": 1, "event": {"r": "xyz", "m2": 1}})),
        fixed("C07", ".r = map_values([\"ab\"]) -> |v| { replace_with(v, r'b') -> |m| { abort \"inner\" } }\n.m2 = 1", json!({}), json!({"class": "abort", "abort_message": "inner", "event": {}})),
    ];
    law::drive(&mut rep, "replace_with (hand-written expectations)", &rw, fixed_case);
    let _ = tier;
    finish(&mut rep, &cases, &skipped, "all programs S(E1(E2(hole))) over 19 statement contexts × 24×24 expression contexts (incl. optional stdlib parameters and the collection argument of closure functions) × abort-holes (4 plain + 3 per-iteration inside closures, incl. abort on the first element followed by side-effecting later iterations), each on every event of the 10-event alphabet; non-trivial = accepted by the real compiler and defined by the reference interpreter; distinct = distinct (program, event)");
    rep
}

pub fn run_c08(tier: Tier) -> Report {
    let mut rep = Report::new("C08", tier, "exploration");
    let mut skipped = BTreeMap::new();
    let side = |n: u32, e: P| b(vec![m::marker(n), e]);
    // fallible left-hand sides of several result types
    let ls: Vec<P> = vec![
        to_int_s(),
        side(3, to_int_s()),
        m::call("string", vec![evp("s")]),
        side(3, m::call("string", vec![evp("s")])),
        m::call("int", vec![evp("n")]),
        m::call("bool", vec![evp("c")]),
        m::call("array", vec![evp("a")]),
        m::call("object", vec![evp("a")]),
        m::bin("/", m::lit_i(10), evp("n")),
        m::bin("??", to_int_s(), m::call("int", vec![evp("n")])),
        m::call("to_int", vec![evp("a")]),
        b(vec![m::set(evt("pre"), m::lit_i(1)), m::call("int", vec![evp("s")])]),
        m::call("upcase", vec![m::call_bang("string", vec![evp("s")])]),
    ];
    let rs: Vec<P> = vec![
        m::lit_i(0),
        m::lit_s("d"),
        m::null(),
        side(4, m::lit_i(2)),
        P::Arr(vec![m::lit_i(1)]),
        b(vec![P::Del(evt("k")), m::lit_b(false)]),
    ];
    let fallible_rs: Vec<P> = vec![m::call("int", vec![evp("n")]), side(4, to_int_s())];
    let evs = events();
    let mut cases = Vec::new();
    let mut progs: Vec<Vec<P>> = Vec::new();
    for l in &ls {
        for r in &rs {
            progs.push(vec![m::set(m::var_t("x"), m::bin("??", l.clone(), r.clone())), m::marker(2)]);
            progs.push(vec![m::set(evt("r"), m::bin("??", l.clone(), r.clone())), m::marker(2)]);
        }
        for r in &fallible_rs {
            progs.push(vec![m::set(m::var_t("x"), m::bin("??", m::bin("??", l.clone(), r.clone()), m::lit_i(99))), m::marker(2)]);
            progs.push(vec![P::SetErr(m::var_t("x"), m::var_t("err"), Box::new(m::bin("??", l.clone(), r.clone()))), m::marker(2)]);
        }
        // infallible assignment forms
        progs.push(vec![P::SetErr(m::var_t("x"), m::var_t("err"), Box::new(l.clone())), m::marker(2)]);
        progs.push(vec![m::set(m::var_t("y"), P::SetErr(m::var_t("x"), m::var_t("err"), Box::new(l.clone()))), m::marker(2)]);
        progs.push(vec![P::SetErr(evt("ok"), evt("err"), Box::new(l.clone())), m::marker(2)]);
        progs.push(vec![P::SetErr(m::var_t("x"), evt("err"), Box::new(l.clone())), m::marker(2)]);
        progs.push(vec![P::SetErr(evt("ok"), m::var_t("err"), Box::new(l.clone())), m::marker(2)]);
        progs.push(vec![P::SetErr(Tgt::Noop, m::var_t("err"), Box::new(l.clone())), m::marker(2)]);
        progs.push(vec![P::SetErr(m::var_t("x"), Tgt::Noop, Box::new(l.clone())), m::marker(2)]);
        // the VALUE of the assignment expression when one of the targets is `_`
        progs.push(vec![m::set(m::var_t("y"), P::SetErr(m::var_t("x"), Tgt::Noop, Box::new(l.clone()))), m::set(evt("y_after"), m::var("y")), m::marker(2)]);
        progs.push(vec![m::set(m::var_t("y"), P::SetErr(Tgt::Noop, m::var_t("err"), Box::new(l.clone()))), m::set(evt("y_after"), m::var("y")), m::marker(2)]);
        progs.push(vec![m::set(evt("y_after"), P::SetErr(evt("ok"), Tgt::Noop, Box::new(l.clone()))), m::marker(2)]);
        progs.push(vec![
            m::set(m::var_t("x"), P::Obj(vec![("q".into(), m::lit_i(1))])),
            P::SetErr(Tgt::Var("x".into(), vec![f_("f")]), m::var_t("err"), Box::new(l.clone())),
            m::marker(2),
        ]);
        progs.push(vec![
            m::set(m::var_t("x"), m::lit_s("old")),
            m::set(m::var_t("err"), m::lit_s("olderr")),
            P::SetErr(m::var_t("x"), m::var_t("err"), Box::new(l.clone())),
            m::marker(2),
        ]);
        progs.push(vec![P::SetErr(Tgt::Ev(vec![f_("o"), f_("p")]), Tgt::Ev(vec![f_("o"), f_("e")]), Box::new(l.clone())), m::marker(2)]);
    }
    // the same `ok` / `err` targets re-used by consecutive infallible assignments: a failure followed by a
    // success must reset `err` to null (and a success followed by a failure must overwrite `ok`)
    for l1 in &ls {
        for l2 in ls.iter().take(6) {
            progs.push(vec![
                P::SetErr(m::var_t("x"), m::var_t("err"), Box::new(l1.clone())),
                P::SetErr(m::var_t("y"), m::var_t("err"), Box::new(l2.clone())),
                m::set(evt("e_after"), m::var("err")),
                m::set(evt("y_after"), m::var("y")),
            ]);
            progs.push(vec![
                P::SetErr(evt("ok"), evt("err"), Box::new(l1.clone())),
                P::SetErr(evt("ok"), evt("err"), Box::new(l2.clone())),
                m::marker(2),
            ]);
            progs.push(vec![
                m::set(m::var_t("x"), m::bin("??", l1.clone(), m::lit_s("d1"))),
                m::set(m::var_t("x"), m::bin("??", l2.clone(), m::lit_s("d2"))),
                m::set(evt("x_after"), m::var("x")),
            ]);
        }
    }
    // inside a closure: the err variable of one iteration is seen by the next
    for coll in [P::Arr(vec![m::lit_s("x"), m::lit_s("5"), m::lit_s("y")]), P::Arr(vec![m::lit_s("5"), m::lit_s("x"), m::lit_s("7")])] {
        progs.push(vec![
            m::set(evt("log"), P::Arr(vec![])),
            P::Closure(
                "for_each",
                Box::new(coll),
                vec!["_i".into(), "v".into()],
                vec![P::SetErr(m::var_t("n"), m::var_t("err"), Box::new(m::call("to_int", vec![m::var("v")]))), m::set(evt("log"), m::call("push", vec![evp("log"), P::Arr(vec![m::var("n"), m::bin("==", m::var("err"), m::null())])]))],
            ),
            m::marker(2),
        ]);
    }
    for p in &progs {
        for ev in &evs {
            if let Some(w) = make_case("C08", p, ev, &["x", "y", "err"], &mut skipped) {
                cases.push(w);
            }
        }
    }
    // the constructs as integer-valued holes under every statement context × expression context (× a second
    // expression context in the thorough tier): what encloses a coalescing / infallible assignment must not matter
    let c_holes: Vec<(&'static str, P)> = vec![
        ("to_int(.s) ?? {m8; 0}", m::bin("??", to_int_s(), side(8, m::lit_i(0)))),
        ("{.pre = 1; to_int(.s)} ?? 0", m::bin("??", b(vec![m::set(evt("pre"), m::lit_i(1)), to_int_s()]), m::lit_i(0))),
        ("to_int(.s) ?? int(.n) ?? 7", m::bin("??", m::bin("??", to_int_s(), m::call("int", vec![evp("n")])), m::lit_i(7))),
        (
            "{ok8, err8 = to_int(.s); if err8 == null {ok8} else {-1}}",
            b(vec![
                P::SetErr(m::var_t("ok8"), m::var_t("err8"), Box::new(to_int_s())),
                m::if_else(m::bin("==", m::var("err8"), m::null()), vec![m::var("ok8")], vec![m::lit_i(-1)]),
            ]),
        ),
        (
            "{.ok8, .err8 = int(.n); 1}",
            b(vec![P::SetErr(evt("ok8"), evt("err8"), Box::new(m::call("int", vec![evp("n")]))), m::lit_i(1)]),
        ),
    ];
    let closure_c_holes: Vec<(&'static str, P)> = vec![(
        "to_int(v) ?? {m8; 0}",
        m::bin("??", m::call("to_int", vec![m::var("v")]), side(8, m::lit_i(0))),
    )];
    cases.extend(context_cases("C08", &c_holes, &closure_c_holes, true, &mut skipped));
    typed_defaults(&mut rep, tier);
    finish(&mut rep, &cases, &skipped, "(plus 5+1 coalescing / infallible-assignment holes under 19 statement contexts × 24 expression contexts, ×24 again) all programs `t = L ?? R`, `t = (L ?? R') ?? 99`, `ok, err = L` over 13 fallible left sides (int, string, bool, array, object, float results; with and without side effects), 6+2 right sides and 10 target shapes (variable, event path, variable path, `_`, pre-bound), each on every event of the 10-event alphabet; non-trivial = accepted and modelled; distinct = distinct (program, event)");
    rep
}

/// C08, model-free half: `ok8, err8 = F(.s)` for stdlib calls and literals whose declared type is a
/// structured / exact one. Whatever the run stored in `ok8` and `err8` must belong to their reported types,
/// exactly one of "err8 is null" / "err8 is a message and ok8 is the default of the right-hand side's type"
/// holds, and a later read of a declared field of `ok8` sees a member of that field's reported type.
fn typed_defaults(rep: &mut Report, tier: Tier) {
    let rhs: Vec<&str> = vec![
        "parse_url(.s)", "parse_common_log(.s)", "parse_syslog(.s)", "parse_regex(.s, r'(?P<a>\\d+)-(?P<b>\\w+)')",
        "parse_regex_all(.s, r'(?P<a>\\d+)')", "parse_key_value(.s)", "parse_json(.s)", "parse_timestamp(.s, \"%s\")",
        "parse_duration(.s, \"s\")", "parse_int(.s)", "parse_float(.s)", "to_bool(.s)", "to_int(.s)", "to_float(.s)",
        "parse_tokens(.s)", "parse_csv(.s)", "parse_query_string(.s)", "parse_apache_log(.s, \"common\")",
        "parse_nginx_log(.s, \"combined\")", "parse_glog(.s)", "parse_klog(.s)", "parse_linux_authorization(.s)",
        "parse_aws_alb_log(.s)", "parse_aws_vpc_flow_log(.s)", "parse_cef(.s)", "parse_etld(.s)", "parse_user_agent(.s)",
        "parse_logfmt(.s)", "parse_xml(.s)", "parse_yaml(.s)", "parse_grok(.s, \"%{INT:n} %{WORD:w}\")", "parse_bytes(.s)",
        "parse_influxdb(.s)", "parse_ruby_hash(.s)", "split(.s, \"-\")", "slice(.s, 1)", "ip_aton(.s)", "ip_subnet(.s, \"/8\")",
        "decode_base64(.s)", "from_unix_timestamp(.n)", "format_int(.n, 36)", "chunks(.s, 2)", "object(.o)", "array(.a)",
        "string(.s)", "int(.n)", "timestamp(.t)", "{ \"a\": to_int(.s), \"b\": [1] }", "[to_int(.s), \"x\"]",
        "{ \"a\": { \"b\": int(.n) } }", "merge({ \"a\": 1 }, object(.o))", "push([1], int(.n))", "10 / int(.n)", "to_int(.s) + 1",
        "upcase(string(.s))", "{ x7 = int(.n); [x7] }", "if .c == true { { \"p\": int(.n) } } else { { \"q\": string(.s) } }",
    ];
    let events: Vec<J> = vec![
        json!({}),
        json!({"s": "x", "n": "x", "o": 1, "a": 1, "t": 1}),
        json!({"s": "https://u:p@example.com:80/p?q=1#f", "n": 0, "o": {}, "a": [], "c": true}),
        json!({"s": "127.0.0.1 bob frank [10/Oct/2000:13:55:36 -0700] \"GET /a HTTP/1.0\" 200 2326", "n": 5, "o": {"a": "z"}, "a": [1, "b"], "c": false}),
        json!({"s": "<13>Feb 13 20:07:26 74794bfb6795 root[8539]: hi", "n": 1_600_000_000, "o": {"k": [1]}, "a": [{}]}),
        json!({"s": "12-ab", "n": -7, "c": true}),
        json!({"s": "a=1 b=\"two\"", "n": 2.5}),
        json!({"s": "{\"a\": [1, {\"b\": null}]}", "n": true}),
        json!({"s": "1", "n": 36}),
        json!({"s": "10.0.0.1", "n": 9_223_372_036_854_775_807i64}),
        json!({"s": "aGk=", "n": -9_223_372_036_854_775_807i64 - 1}),
        json!({"s": "12 word", "n": 12}),
        json!({"s": "1.5s", "n": 1}),
        json!({"s": "", "n": null}),
    ];
    let mut cases: Vec<J> = Vec::new();
    for r in &rhs {
        for form in 0..6 {
            let prog = match form {
                0 => format!("ok8, err8 = {r}\n.after = 1"),
                1 => format!(".ok8, .err8 = {r}\n.after = 1"),
                2 => format!("ok8 = \"old\"\nerr8 = 7\nok8, err8 = {r}\nok8, err8 = {r}\n.after = 1"),
                // the value of the assignment expression itself
                3 => format!("r8 = (ok8, err8 = {r})\n.after = 1"),
                // … also when one target is `_` (judged against the named form run on the same event)
                4 => format!("r8 = (ok8, _ = {r})\n.after = 1"),
                _ => format!("r8 = (_, err8 = {r})\n.after = 1"),
            };
            for e in &events {
                cases.push(json!({"property": "C08", "program": prog, "event": e, "typed_default": true}));
            }
        }
    }
    let _ = tier;
    rep.set("typed_default_right_hand_sides", rhs.len() as u64);
    law::drive(rep, "typed-defaults", &cases, typed_default_case);
}

pub fn typed_default_case(w: &J) -> CaseResult {
    let src = w["program"].as_str().unwrap_or("");
    let event = vv::dec(&w["event"]);
    let Some(program) = law::prog(src) else { return CaseResult::trivial("rejected-by-compiler") };
    let tz = vrlx::utc();
    let mut t = vrlx::target(event, vrlx::empty_object());
    let mut rs = RuntimeState::default();
    let o = match guarded(|| vrlx::run_program(&program, &mut t, &mut rs, &tz)) {
        Ok(o) => o,
        Err(p) => return CaseResult::ok("panic").violation(Violation::new("C08.panic", w.clone(), "no panic", p)),
    };
    if !o.success() {
        return CaseResult::ok("typed-default:program-failed").violation(Violation::new(
            "C08.infallible-assignment-failed",
            w.clone(),
            "`ok, err = e` never fails: the error is captured in err",
            o.show(),
        ));
    }
    // forms with a `_` target: everything observable must equal the fully named form on the same event
    if src.contains("(ok8, _ = ") || src.contains("(_, err8 = ") {
        let named = src.replace("(ok8, _ = ", "(ok8, err8 = ").replace("(_, err8 = ", "(ok8, err8 = ");
        let Some(np) = law::prog(&named) else { return CaseResult::trivial("typed-default:named-form-rejected") };
        let mut t2 = vrlx::target(vv::dec(&w["event"]), vrlx::empty_object());
        let mut rs2 = RuntimeState::default();
        let _ = guarded(|| vrlx::run_program(&np, &mut t2, &mut rs2, &tz));
        let strip = |v: Option<&Value>| -> String {
            // error messages carry source offsets, which differ between the two spellings
            let t = v.map_or("unset".to_string(), vv::show);
            let mut out = String::new();
            let mut in_span = false;
            for ch in t.chars() {
                match ch {
                    '(' => {
                        in_span = true;
                        out.push(ch);
                    }
                    ')' => {
                        in_span = false;
                        out.push(ch);
                    }
                    c if in_span && (c.is_ascii_digit() || c == ':') => {}
                    c => out.push(c),
                }
            }
            out
        };
        let mut res = CaseResult::ok("typed-default:underscore-form");
        let (a, b) = (rs.variable(&Ident::new("r8")), rs2.variable(&Ident::new("r8")));
        if strip(a) != strip(b) {
            res.violations.push(Violation::new("C08.expression-value", w.clone(), format!("the assignment expression evaluates as with both targets named: {}", strip(b)), strip(a)));
        }
        if src.contains("(ok8, _ = ") {
            let (a, b) = (rs.variable(&Ident::new("ok8")), rs2.variable(&Ident::new("ok8")));
            if a != b {
                res.violations.push(Violation::new("C08.ok-is-default-on-failure", w.clone(), format!("ok8 as with both targets named: {}", b.map_or("unset".to_string(), vv::show)), a.map_or("unset".to_string(), vv::show)));
            }
        } else {
            let (a, b) = (rs.variable(&Ident::new("err8")), rs2.variable(&Ident::new("err8")));
            if strip(a) != strip(b) {
                res.violations.push(Violation::new("C08.err-is-message", w.clone(), format!("err8 as with both targets named: {}", strip(b)), strip(a)));
            }
        }
        return res;
    }
    let info = program.final_type_info();
    let event_form = src.starts_with(".ok8");
    let (okv, errv, okk, errk) = if event_form {
        let get = |name: &str| match &t.value {
            Value::Object(m) => m.get(name).cloned(),
            _ => None,
        };
        let tk = info.state.external.target_kind().clone();
        let field = |name: &str| tk.as_object().map(|c| c.known().get(&name.into()).cloned().unwrap_or_else(|| c.unknown_kind()));
        (get("ok8"), get("err8"), field("ok8"), field("err8"))
    } else {
        let mut okk = None;
        let mut errk = None;
        for (name, kind, _) in info.state.local.verif_bindings() {
            if name.as_str() == "ok8" {
                okk = Some(kind);
            } else if name.as_str() == "err8" {
                errk = Some(kind);
            }
        }
        (rs.variable(&Ident::new("ok8")).cloned(), rs.variable(&Ident::new("err8")).cloned(), okk, errk)
    };
    let okv = okv.unwrap_or(Value::Null);
    let errv = errv.unwrap_or(Value::Null);
    let failed = !matches!(errv, Value::Null);
    let mut res = CaseResult::ok(if failed { "typed-default:failed→default" } else { "typed-default:succeeded" });
    // on success the membership of the function's own result is C03's subject; C08 judges the stored default
    if let Some(k) = okk.as_ref().filter(|_| failed) {
        if !member_lenient(&okv, k) {
            res.violations.push(Violation::new("C08.stored-value-in-static-type", w.clone(), format!("ok8 ∈ {k}"), vv::show(&okv)));
        }
    }
    if let Some(k) = &errk {
        if !member_lenient(&errv, k) {
            res.violations.push(Violation::new("C08.stored-value-in-static-type", w.clone(), format!("err8 ∈ {k}"), vv::show(&errv)));
        }
    }
    // `r8 = (ok8, err8 = e)`: the expression evaluates to e's value or to the message, and is typed accordingly
    if src.starts_with("r8 = ") {
        let r8 = rs.variable(&Ident::new("r8")).cloned().unwrap_or(Value::Null);
        let want = if failed { &errv } else { &okv };
        if r8 != *want {
            res.violations.push(Violation::new("C08.expression-value", w.clone(), format!("the assignment expression evaluates to {}", vv::show(want)), vv::show(&r8)));
        }
        if failed {
            for (name, kind, _) in info.state.local.verif_bindings() {
                if name.as_str() == "r8" && !member_lenient(&r8, &kind) {
                    res.violations.push(Violation::new("C08.stored-value-in-static-type", w.clone(), format!("r8 ∈ {kind}"), vv::show(&r8)));
                }
            }
        }
    }
    // (the program ends with `.after = 1`: anything else means a later expression did not run)
    if o.value() != Some(&Value::Integer(1)) {
        res.violations.push(Violation::new("C08.later-expression-runs", w.clone(), "the program continues after the assignment and yields 1".to_string(), o.show()));
    }
    if failed {
        if !matches!(errv, Value::Bytes(_)) {
            res.violations.push(Violation::new("C08.err-is-message", w.clone(), "err is the error message (a string)".to_string(), vv::show(&errv)));
        }
        // the default of the type: an "empty" value (null, false, 0, 0.0, "", [], {}, epoch, empty regex)
        let is_default = match &okv {
            Value::Null => true,
            Value::Boolean(b) => !b,
            Value::Integer(i) => *i == 0,
            Value::Float(f) => f.into_inner() == 0.0,
            Value::Bytes(b) => b.is_empty(),
            Value::Array(a) => a.is_empty(),
            Value::Object(o) => o.is_empty(),
            Value::Timestamp(ts) => ts.timestamp() == 0 && ts.timestamp_subsec_nanos() == 0,
            Value::Regex(r) => r.as_str().is_empty(),
        };
        if !is_default {
            res.violations.push(Violation::new("C08.ok-is-default-on-failure", w.clone(), "ok is the default value of the right-hand side's type".to_string(), vv::show(&okv)));
        }
    }
    res
}

pub fn run_c09(tier: Tier) -> Report {
    let mut rep = Report::new("C09", tier, "exploration");
    let mut skipped = BTreeMap::new();
    let evs = events();
    let side = |n: u32, e: P| b(vec![m::marker(n), e]);
    let lhs: Vec<P> = vec![
        m::null(),
        m::lit_b(false),
        m::lit_b(true),
        m::lit_i(0),
        m::lit_s(""),
        P::Arr(vec![]),
        P::Obj(vec![]),
        evp("c"),
        evp("missing"),
        evp("n"),
        evp("s"),
        c_true(),
        side(8, evp("c")),
    ];
    let rhs: Vec<P> = vec![
        side(3, m::lit_i(5)),
        side(3, m::lit_b(true)),
        side(3, m::lit_b(false)),
        side(3, m::null()),
        b(vec![P::Del(evt("k")), m::lit_b(true)]),
        b(vec![m::set(m::var_t("y"), m::lit_i(1)), evp("d")]),
        b(vec![m::set(evt("s"), m::lit_s("w")), m::bin("==", evp("n"), m::lit_i(2))]),
    ];
    let mut progs: Vec<Vec<P>> = Vec::new();
    for op in ["||", "&&"] {
        for l in &lhs {
            for r in &rhs {
                progs.push(vec![m::set(m::var_t("y"), m::lit_i(0)), m::set(m::var_t("x"), m::bin(op, l.clone(), r.clone())), m::marker(2)]);
                // nested once, both associations
                for op2 in ["||", "&&"] {
                    progs.push(vec![
                        m::set(m::var_t("y"), m::lit_i(0)),
                        m::set(m::var_t("x"), m::bin(op2, m::bin(op, l.clone(), r.clone()), side(4, m::lit_b(true)))),
                        m::marker(2),
                    ]);
                    progs.push(vec![
                        m::set(m::var_t("y"), m::lit_i(0)),
                        m::set(m::var_t("x"), m::bin(op, l.clone(), side(4, m::bin(op2, r.clone(), side(5, m::lit_b(false)))))),
                        m::marker(2),
                    ]);
                }
            }
        }
    }
    // the left operand is a LOCAL variable (or a path into one) with a known constant and the right operand
    // re-assigns that same variable: the decision must be taken from the value BEFORE the right operand runs
    for init in [m::lit_b(false), m::lit_b(true), m::null()] {
        for op in ["||", "&&"] {
            for newv in [m::lit_b(true), m::lit_b(false), m::null(), m::lit_i(1)] {
                progs.push(vec![
                    m::set(m::var_t("v"), init.clone()),
                    m::set(m::var_t("x"), m::bin(op, m::var("v"), b(vec![m::set(m::var_t("v"), newv.clone()), m::marker(3), m::lit_b(true)]))),
                    m::set(evt("v_after"), m::var("v")),
                    m::marker(2),
                ]);
                progs.push(vec![
                    m::set(m::var_t("st"), P::Obj(vec![("done".into(), init.clone())])),
                    m::set(m::var_t("x"), m::bin(op, P::Var("st".into(), vec![f_("done")]), b(vec![m::set(Tgt::Var("st".into(), vec![f_("done")]), newv.clone()), P::Del(evt("k")), m::lit_b(true)]))),
                    m::set(evt("st_after"), m::var("st")),
                    m::marker(2),
                ]);
                // the same inside an if predicate
                progs.push(vec![
                    m::set(m::var_t("v"), init.clone()),
                    P::If(vec![(m::bin(op, m::bin("==", m::var("v"), m::lit_b(true)), b(vec![m::set(m::var_t("v"), newv.clone()), m::marker(3), m::lit_b(true)])), vec![m::marker(4)])], Some(vec![m::marker(5)])),
                    m::set(evt("v_after"), m::var("v")),
                ]);
            }
        }
    }
    // conditionals
    let preds: Vec<P> = vec![
        m::lit_b(true),
        m::lit_b(false),
        c_true(),
        m::bin("==", evp("n"), m::lit_i(2)),
        P::Not(Box::new(c_true())),
        m::bin("&&", c_true(), side(8, m::bin("==", evp("d"), m::lit_b(true)))),
        m::bin("||", c_true(), side(8, m::bin("==", evp("d"), m::lit_b(true)))),
        m::call("is_null", vec![evp("c")]),
        P::Exists(evt("k")),
    ];
    let branch = |n: u32| vec![m::marker(n), m::set(m::var_t("y"), m::lit_i(i64::from(n))), m::lit_i(i64::from(n) * 10)];
    let del_branch = |n: u32| vec![P::Del(evt("k")), m::lit_i(i64::from(n))];
    for p1 in &preds {
        progs.push(vec![m::set(m::var_t("y"), m::lit_i(0)), m::set(m::var_t("x"), P::If(vec![(p1.clone(), branch(3))], None)), m::marker(2)]);
        progs.push(vec![m::set(m::var_t("y"), m::lit_i(0)), m::set(m::var_t("x"), P::If(vec![(p1.clone(), branch(3))], Some(branch(4)))), m::marker(2)]);
        progs.push(vec![m::set(m::var_t("y"), m::lit_i(0)), m::set(m::var_t("x"), P::If(vec![(p1.clone(), del_branch(3))], Some(branch(4)))), m::marker(2)]);
        progs.push(vec![m::set(m::var_t("y"), m::lit_i(0)), P::If(vec![(p1.clone(), branch(3))], Some(del_branch(4))), m::marker(2)]);
        for p2 in &preds {
            progs.push(vec![
                m::set(m::var_t("y"), m::lit_i(0)),
                m::set(m::var_t("x"), P::If(vec![(p1.clone(), branch(3)), (p2.clone(), branch(4))], None)),
                m::marker(2),
            ]);
            progs.push(vec![
                m::set(m::var_t("y"), m::lit_i(0)),
                m::set(m::var_t("x"), P::If(vec![(p1.clone(), branch(3)), (p2.clone(), branch(4))], Some(branch(5)))),
                m::marker(2),
            ]);
            // chains with TWO else-if arms (arms are tried in order; later predicates do not run once one is taken)
            for p3 in &preds {
                progs.push(vec![
                    m::set(m::var_t("y"), m::lit_i(0)),
                    m::set(m::var_t("x"), P::If(vec![(p1.clone(), branch(3)), (p2.clone(), branch(4)), (p3.clone(), branch(6))], Some(branch(5)))),
                    m::marker(2),
                ]);
            }
            progs.push(vec![
                m::set(m::var_t("y"), m::lit_i(0)),
                P::If(vec![(p1.clone(), branch(3)), (p2.clone(), branch(4)), (m::lit_b(true), branch(6)), (p1.clone(), branch(7))], None),
                m::marker(2),
            ]);
            // an explicit else block that STARTS with an if and continues (not an else-if arm)
            progs.push(vec![
                m::set(m::var_t("y"), m::lit_i(0)),
                m::set(m::var_t("x"), P::If(vec![(p1.clone(), branch(3))], Some(vec![P::If(vec![(p2.clone(), branch(6))], None), m::marker(7), m::lit_i(70)]))),
                m::marker(2),
            ]);
            progs.push(vec![
                m::set(m::var_t("y"), m::lit_i(0)),
                P::If(vec![(p1.clone(), branch(3))], Some(vec![P::If(vec![(p2.clone(), branch(6))], Some(branch(4))), m::set(evt("tail"), m::lit_i(1))])),
                m::marker(2),
            ]);
            // nested if inside a branch
            progs.push(vec![
                m::set(m::var_t("y"), m::lit_i(0)),
                m::set(m::var_t("x"), P::If(vec![(p1.clone(), vec![m::marker(3), P::If(vec![(p2.clone(), branch(6))], Some(branch(7)))])], Some(branch(4)))),
                m::marker(2),
            ]);
        }
    }
    let mut cases = Vec::new();
    let mut seen = BTreeSet::new();
    for p in &progs {
        if !seen.insert(m::program_text(p)) {
            continue;
        }
        for ev in &evs {
            if let Some(w) = make_case("C09", p, ev, &["x", "y"], &mut skipped) {
                cases.push(w);
            }
        }
    }
    let s_holes: Vec<(&'static str, P)> = vec![
        ("if (.c == true || {m8; .d == true}) {1} else {2}", m::if_else(m::bin("||", c_true(), side(8, m::bin("==", evp("d"), m::lit_b(true)))), vec![m::lit_i(1)], vec![m::lit_i(2)])),
        ("if (.c == true && {m8; .d == true}) {1} else {2}", m::if_else(m::bin("&&", c_true(), side(8, m::bin("==", evp("d"), m::lit_b(true)))), vec![m::lit_i(1)], vec![m::lit_i(2)])),
        (
            "if .n == 2 {m8; 1} else if .c == true {m9; 2} else {3}",
            P::If(
                vec![(m::bin("==", evp("n"), m::lit_i(2)), vec![m::marker(8), m::lit_i(1)]), (c_true(), vec![m::marker(9), m::lit_i(2)])],
                Some(vec![m::lit_i(3)]),
            ),
        ),
        ("if (.missing || {m8; .c == true}) == true {1} else {2}", m::if_else(m::bin("==", m::bin("||", evp("missing"), side(8, c_true())), m::lit_b(true)), vec![m::lit_i(1)], vec![m::lit_i(2)])),
    ];
    let closure_s_holes: Vec<(&'static str, P)> = vec![(
        "if (v == 1 || {m8; .d == true}) {1} else {2}",
        m::if_else(m::bin("||", m::bin("==", m::var("v"), m::lit_i(1)), side(8, m::bin("==", evp("d"), m::lit_b(true)))), vec![m::lit_i(1)], vec![m::lit_i(2)]),
    )];
    cases.extend(context_cases("C09", &s_holes, &closure_s_holes, true, &mut skipped));
    finish(&mut rep, &cases, &skipped, "(plus 4+1 short-circuit / conditional holes under 19 statement contexts × 24 expression contexts, ×24 again) all programs `x = A op B`, `(A op B) op2 C`, `A op (B op2 C)` for op,op2 ∈ {||,&&} over 13 left operands (null, false, true, 0, \"\", [], {}, event fields, comparisons, side-effecting block) × 7 side-effecting right operands, and all if / else-if (one, two and three arms) / else / nested-if programs over 9 predicates (incl. predicates with their own short-circuit side effects) with marker/assignment/del branches, each on every event of the 10-event alphabet; non-trivial = accepted and modelled; distinct = distinct (program, event)");
    rep
}

pub fn run_c13(tier: Tier) -> Report {
    let mut rep = Report::new("C13", tier, "exploration");
    let mut skipped = BTreeMap::new();
    let evs = events();
    let obj = |n: usize| P::Obj((0..n).map(|i| (["a", "b", "c"][i].to_string(), m::lit_i(i as i64 + 1))).collect());
    let arr = |n: usize| P::Arr((0..n).map(|i| m::lit_i(i as i64 + 1)).collect());
    let colls: Vec<P> = vec![obj(0), obj(1), obj(2), arr(0), arr(1), arr(2), evp("a")];
    // closure bodies: succeed, fail on 1st/2nd element, return, abort, write params
    let bodies: Vec<(&'static str, Vec<P>)> = vec![
        ("succeeds", vec![m::set(evt("seen"), m::var("v")), m::lit_b(true)]),
        ("fails-always", vec![to_int_s(), m::lit_b(true)]),
        ("fails-on-2", vec![m::if_(m::bin("==", m::var("v"), m::lit_i(2)), vec![m::call("int", vec![evp("s")])]), m::lit_b(true)]),
        ("returns", vec![m::if_(m::bin("==", m::var("v"), m::lit_i(1)), vec![m::ret(m::lit_b(false))]), m::lit_b(true)]),
        ("aborts-on-2", vec![m::if_(m::bin("==", m::var("v"), m::lit_i(2)), vec![P::Abort(None)]), m::lit_b(true)]),
        ("assigns-param", vec![m::set(m::var_t("v"), m::lit_s("inner")), m::lit_b(true)]),
        ("nested-closure", vec![P::Closure("for_each", Box::new(arr(1)), vec!["k".into(), "v".into()], vec![m::set(evt("inner"), m::var("v"))]), m::lit_b(true)]),
        // map_keys only: the closure leaves through `return <key>` for one of the keys
        ("returns-key", vec![m::if_(m::bin("==", m::var("v"), m::lit_s("a")), vec![m::ret(m::lit_s("ret"))]), m::lit_s("key")]),
    ];
    let mut progs: Vec<(Vec<P>, bool)> = Vec::new();
    for coll in &colls {
        let coll_expr = if matches!(coll, P::Ev(_)) {
            // typed through a guard so that the call compiles without `!`
            None
        } else {
            Some(coll.clone())
        };
        for (bname, body) in &bodies {
            for pre_mode in 0..5u8 {
                let pre = pre_mode > 0;
                for handling in 0..3 {
                    for fname in ["for_each", "filter", "map_values", "map_keys"] {
                        let params: Vec<String> = match fname {
                            "map_values" => vec!["v".into()],
                            "map_keys" => vec!["v".into()],
                            _ => vec!["k".into(), "v".into()],
                        };
                        let body: Vec<P> = match fname {
                            "map_keys" => {
                                if *bname == "returns-key" {
                                    body.clone()
                                } else {
                                if *bname != "succeeds" && *bname != "fails-always" && *bname != "assigns-param" {
                                    continue;
                                }
                                // body must yield a string key
                                let mut bdy = body.clone();
                                bdy.pop();
                                bdy.push(m::lit_s("key"));
                                bdy
                                }
                            }
                            _ => {
                                if *bname == "returns-key" {
                                    continue;
                                }
                                body.clone()
                            }
                        };
                        let call = match &coll_expr {
                            Some(c) => P::Closure(fname_static(fname), Box::new(c.clone()), params.clone(), body),
                            None => P::Closure(fname_static(fname), Box::new(m::call_bang(if fname == "map_keys" { "object" } else { "array" }, vec![coll.clone()])), params.clone(), body),
                        };
                        let mut prog = Vec::new();
                        // outer bindings of the parameter names: distinct from everything the closure binds (1),
                        // or COINCIDING with a bound key / index / element (2-4)
                        match pre_mode {
                            1 => {
                                prog.push(m::set(m::var_t("k"), m::lit_s("outer-k")));
                                prog.push(m::set(m::var_t("v"), m::lit_s("outer-v")));
                            }
                            2 => {
                                prog.push(m::set(m::var_t("k"), m::lit_s("a")));
                                prog.push(m::set(m::var_t("v"), m::lit_i(2)));
                            }
                            3 => {
                                prog.push(m::set(m::var_t("k"), m::lit_i(0)));
                                prog.push(m::set(m::var_t("v"), m::lit_i(1)));
                            }
                            4 => {
                                prog.push(m::set(m::var_t("k"), m::lit_i(1)));
                                prog.push(m::set(m::var_t("v"), m::lit_s("b")));
                            }
                            _ => {}
                        }
                        let fallible = *bname == "fails-always" || *bname == "fails-on-2";
                        match handling {
                            0 => {
                                if fallible {
                                    continue;
                                }
                                prog.push(m::set(evt("r"), call));
                            }
                            1 => {
                                if !fallible {
                                    continue;
                                }
                                prog.push(m::set(evt("r"), m::bin("??", call, m::lit_s("failed"))));
                            }
                            _ => {
                                if !fallible {
                                    continue;
                                }
                                prog.push(P::SetErr(evt("r"), evt("e"), Box::new(call)));
                            }
                        }
                        prog.push(m::marker(2));
                        if pre {
                            prog.push(m::set(evt("k_after"), m::var("k")));
                            prog.push(m::set(evt("v_after"), m::var("v")));
                        }
                        progs.push((prog, pre));
                    }
                }
            }
        }
    }
    let mut cases = Vec::new();
    let mut seen = BTreeSet::new();
    for (p, _pre) in &progs {
        if !seen.insert(m::program_text(p)) {
            continue;
        }
        for ev in &evs {
            if let Some(w) = make_case("C13", p, ev, &["k", "v"], &mut skipped) {
                cases.push(w);
            }
        }
    }
    // closure calls as integer-valued holes under every statement context (including the bodies of OTHER closures
    // binding the same names) × expression contexts: the enclosing k / v must be intact after the inner call
    let n_holes: Vec<(&'static str, P)> = vec![
        (
            "{for_each([7,8]) -> |k, v| {.seen = v}; 1}",
            b(vec![P::Closure("for_each", Box::new(P::Arr(vec![m::lit_i(7), m::lit_i(8)])), vec!["k".into(), "v".into()], vec![m::set(evt("seen"), m::var("v"))]), m::lit_i(1)]),
        ),
        (
            "length(filter({\"p\": 1, \"q\": 2}) -> |k, v| {v == 2})",
            m::call("length", vec![P::Closure("filter", Box::new(P::Obj(vec![("p".into(), m::lit_i(1)), ("q".into(), m::lit_i(2))])), vec!["k".into(), "v".into()], vec![m::bin("==", m::var("v"), m::lit_i(2))])]),
        ),
        (
            "{x = map_values([7]) -> |v| {v = 5; v}; 1}",
            b(vec![m::set(m::var_t("x"), P::Closure("map_values", Box::new(P::Arr(vec![m::lit_i(7)])), vec!["v".into()], vec![m::set(m::var_t("v"), m::lit_i(5)), m::var("v")])), m::lit_i(1)]),
        ),
    ];
    let closure_n_holes: Vec<(&'static str, P)> = vec![(
        "{for_each([7]) -> |k, v| {.seen = v}; .outer = [k, v]; 1}",
        b(vec![
            P::Closure("for_each", Box::new(P::Arr(vec![m::lit_i(7)])), vec!["k".into(), "v".into()], vec![m::set(evt("seen"), m::var("v"))]),
            m::set(evt("outer"), P::Arr(vec![m::var("k"), m::var("v")])),
            m::lit_i(1),
        ]),
    )];
    cases.extend(context_cases("C13", &n_holes, &closure_n_holes, true, &mut skipped));
    replace_with_scoping(&mut rep);
    finish(&mut rep, &cases, &skipped, "(plus replace_with scoping programs and the compile-time visibility of every closure parameter after the call; plus 3+1 closure-call holes under 19 statement contexts × 24 expression contexts, ×24 again) all programs calling for_each / filter / map_values / map_keys over {object, array} × {0,1,2 elements, event field} × 7 closure bodies (succeeds, fails on every / on the 2nd element, returns, aborts, assigns its parameter, nested closure reusing the names) × outer pre-binding of the parameter names {unset, bound} × handling {bare, `?? \"failed\"`, `ok, err =`}, each on every event of the 10-event alphabet; the oracle compares RuntimeState::variable(k/v) after the run with the reference interpreter (restored or unset); non-trivial = accepted and modelled; distinct = distinct (program, event)");
    rep
}

/// Hand-written expectation cases (constructs the reference interpreter does not model, e.g. `replace_with`):
/// {"program", "event", "expect": {"class": ok|abort|error, "value"?, "event"?, "abort_message"?}}.
pub fn fixed_case(w: &J) -> CaseResult {
    let prop = w["property"].as_str().unwrap_or("C06").to_string();
    let src = w["program"].as_str().unwrap_or("");
    let Some(program) = law::prog(src) else {
        return CaseResult::ok("fixed:rejected").violation(Violation::new(&format!("{prop}.fixed-program-rejected"), w.clone(), "the program compiles".to_string(), law::why_rejected(src)));
    };
    let tz = vrlx::utc();
    let mut t = vrlx::target(vv::dec(&w["event"]), vrlx::empty_object());
    let o = match guarded(|| vrlx::run_runtime(&program, &mut t, &tz)) {
        Ok(o) => o,
        Err(p) => return CaseResult::ok("panic").violation(Violation::new(&format!("{prop}.panic"), w.clone(), "no panic", p)),
    };
    let class = match &o {
        Outcome::Ok(_) | Outcome::Return(_) => "ok",
        Outcome::Error(_) => "error",
        _ => "abort",
    };
    let exp = &w["expect"];
    let mut res = CaseResult::ok(&format!("fixed:{class}"));
    let want_class = exp["class"].as_str().unwrap_or("ok");
    if class != want_class {
        res.violations.push(Violation::new(&format!("{prop}.outcome"), w.clone(), format!("outcome {want_class}"), o.show()));
        return res;
    }
    if let Some(v) = exp.get("value") {
        let v = vv::dec(v);
        if o.value() != Some(&v) {
            res.violations.push(Violation::new(&format!("{prop}.result"), w.clone(), format!("result {}", vv::show(&v)), o.show()));
        }
    }
    if let Some(e) = exp.get("event") {
        let e = vv::dec(e);
        if t.value != e {
            res.violations.push(Violation::new(&format!("{prop}.event"), w.clone(), format!("final event {}", vv::show(&e)), vv::show(&t.value)));
        }
    }
    if let (Outcome::Abort(m), Some(want)) = (&o, exp.get("abort_message")) {
        if m.as_deref() != want.as_str() {
            res.violations.push(Violation::new(&format!("{prop}.abort-message"), w.clone(), format!("abort message {want}"), format!("{m:?}")));
        }
    }
    res
}

fn fixed(prop: &str, program: &str, event: J, expect: J) -> J {
    json!({"property": prop, "fixed": true, "program": program, "event": event, "expect": expect})
}

/// C13, model-free half: `replace_with` (whose closure the reference interpreter does not model) and the
/// compile-time side of "no closure parameter remains visible" for all five closure-taking functions.
fn replace_with_scoping(rep: &mut Report) {
    let subjects = ["\"xyz\"", "\"abc\"", "\"abcabc\"", ".s"];
    let bodies: [(&str, &str); 6] = [
        ("succeeds", "upcase(m.string)"),
        ("fails", "to_string(to_int!(m.string))"),
        ("returns", "return \"R\""),
        ("assigns-param", "m = \"inner\"; \"X\""),
        ("nested", "replace_with(m.string, r'b') -> |m| { m = \"deep\"; \"Y\" }"),
        ("aborts", "if m.string == \"b\" { abort }; \"Z\""),
    ];
    let pres: [(&str, &str); 4] = [("unset", ""), ("string", "m = \"outer\"\n"), ("object-like-a-match", "m = {\"string\": \"b\", \"captures\": []}\n"), ("null", "m = null\n")];
    let handlings = ["bare", "coalesce", "ok-err"];
    let events = [json!({}), json!({"s": "abcb"}), json!({"s": 7})];
    let mut cases: Vec<J> = Vec::new();
    for subj in subjects {
        for (bname, body) in bodies {
            for (pname, pre) in pres {
                for h in handlings {
                    let subj_e = if subj == ".s" { "string!(.s)" } else { subj };
                    let call = format!("replace_with({subj_e}, r'b') -> |m| {{ {body} }}");
                    let stmt = match h {
                        "bare" => format!(".r = {call}"),
                        "coalesce" => format!(".r = ({call}) ?? \"failed\""),
                        _ => format!(".r, .e = {call}"),
                    };
                    let tail = if pre.is_empty() { String::new() } else { "\n.m_after = m".to_string() };
                    for e in &events {
                        cases.push(json!({"property": "C13", "replace_with": true, "program": format!("{pre}{stmt}\n.m2 = 1{tail}"), "event": e,
                            "pre": pname, "body": bname}));
                    }
                }
            }
        }
    }
    // compile-time: the parameters are not visible after the call (and are visible inside)
    for (call, params) in [
        ("for_each([1]) -> |k, v| { .seen = [k, v] }", vec!["k", "v"]),
        ("filter([1]) -> |k, v| { .seen = [k, v]; true }", vec!["k", "v"]),
        ("map_values([1]) -> |v| { .seen = v; v }", vec!["v"]),
        ("map_keys({\"a\": 1}) -> |k| { .seen = k; k }", vec!["k"]),
        ("replace_with(\"abc\", r'b') -> |m| { .seen = m.string; \"x\" }", vec!["m"]),
        ("for_each({\"a\": 1}) -> |k, v| { for_each([2]) -> |k, v| { .seen = [k, v] } }", vec!["k", "v"]),
    ] {
        for p in params {
            for wrap in ["{call}\n.after = {p}", ".x = ({call})\n.after = {p}", "if .c == true {{ {call} }}\n.after = {p}", "y = [{call}, 1]\n.after = {p}"] {
                let prog = wrap.replace("{call}", call).replace("{p}", p).replace("{{", "{").replace("}}", "}");
                cases.push(json!({"property": "C13", "replace_with": true, "visibility": p, "program": prog, "event": {}}));
            }
        }
    }
    law::drive(rep, "replace_with+visibility", &cases, replace_with_case);
}

pub fn replace_with_case(w: &J) -> CaseResult {
    let src = w["program"].as_str().unwrap_or("");
    if let Some(p) = w.get("visibility").and_then(J::as_str) {
        // the read of the parameter after the call must be an undefined-variable error
        let why = law::why_rejected(src);
        return if why.contains("E701") {
            CaseResult::ok("visibility:rejected-E701")
        } else {
            CaseResult::ok("visibility:accepted").violation(Violation::new("C13.parameter-visible-after-call", w.clone(), format!("reading `{p}` after the call is an undefined-variable error (E701)"), why))
        };
    }
    let event = vv::dec(&w["event"]);
    let Some(program) = law::prog(src) else { return CaseResult::trivial(&rejection_class(src)) };
    let tz = vrlx::utc();
    let mut t = vrlx::target(event, vrlx::empty_object());
    let mut rs = RuntimeState::default();
    let o = match guarded(|| vrlx::run_program(&program, &mut t, &mut rs, &tz)) {
        Ok(o) => o,
        Err(p) => return CaseResult::ok("panic").violation(Violation::new("C13.panic", w.clone(), "no panic", p)),
    };
    let class = match &o {
        Outcome::Ok(_) | Outcome::Return(_) => "ok",
        Outcome::Error(_) => "error",
        _ => "abort",
    };
    let mut res = CaseResult::ok(&format!("replace_with:{class}"));
    let want: Option<Value> = match w["pre"].as_str().unwrap_or("") {
        "string" => Some(Value::from("outer")),
        "object-like-a-match" => Some(vv::dec(&json!({"string": "b", "captures": []}))),
        "null" => Some(Value::Null),
        _ => None,
    };
    let real = rs.variable(&Ident::new("m")).cloned();
    let same = match (&want, &real) {
        (None, None) => true,
        (Some(Value::Null), None) => true,
        (Some(a), Some(b)) => a == b,
        _ => false,
    };
    if !same {
        res.violations.push(Violation::new(
            "C13.variable",
            w.clone(),
            want.as_ref().map_or("variable m is unset after the call".to_string(), |v| format!("variable m = {} after the call", vv::show(v))),
            real.as_ref().map_or("m is unset".to_string(), vv::show),
        ));
    }
    if class == "ok" {
        if let (Some(wv), Value::Object(ev)) = (&want, &t.value) {
            let got = ev.get("m_after").cloned().unwrap_or(Value::Null);
            if got != *wv {
                res.violations.push(Violation::new("C13.variable", w.clone(), format!(".m_after = {}", vv::show(wv)), vv::show(&got)));
            }
        }
    }
    res
}

fn fname_static(n: &str) -> &'static str {
    match n {
        "for_each" => "for_each",
        "filter" => "filter",
        "map_values" => "map_values",
        _ => "map_keys",
    }
}

pub fn replay(_property: &str, w: &J) -> Vec<Violation> {
    if w.get("typed_default").is_some() {
        return typed_default_case(w).violations;
    }
    if w.get("replace_with").is_some() {
        return replace_with_case(w).violations;
    }
    if w.get("fixed").is_some() {
        return fixed_case(w).violations;
    }
    case(w).violations
}
