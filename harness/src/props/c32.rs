//! C32 — grok rules match and capture faithfully.
//!
//! Subject: `parse_groks!(.a, patterns: [...], aliases: {...})` compiled and run as a VRL program.
//!
//!  * `literal` — rules made only of literal characters (plain ones and every regex metacharacter in
//!                escaped form): the rule must match exactly its own (unescaped) text — decided by string
//!                equality, no regex engine involved — and yield an empty object.
//!  * `rules`   — sequences of ≤ 3 items over literals, raw regex fragments and a library of
//!                `%{matcher:field:filter}` patterns × inputs (all short strings over a small alphabet
//!                ∪ strings derived from the rule). Reference: the anchored expression `(?m)\A…\z` built
//!                independently (each pattern replaced by its documented expression from
//!                `patterns/core.pattern`, own group names) and run under the same engine (onig); match
//!                verdicts must agree and the parsed object must equal the reference captures after the
//!                declared filters (re-implemented here).
//!  * `first`   — two-rule lists: the result is that of the first rule that matches.
//!  * `alias`   — all digraphs of alias references over k aliases: compilation must fail when a cycle
//!                is reachable from the rule, otherwise the rule must match exactly its expansion.

use crate::law::{self, CaseResult};
use crate::report::{Report, Tier, Violation};
use crate::util::{product, unrank};
use crate::vrlx::Outcome;
use crate::vv;
use serde_json::{Value as J, json};
use std::cell::RefCell;
use std::collections::{BTreeMap, BTreeSet, HashMap};
use std::rc::Rc;
use vrl::value::{KeyString, Value};

// ---------------------------------------------------------------------------------------------
// item library

#[derive(Clone, Copy, Debug, PartialEq)]
enum F {
    Boolean,
    DecodeUri,
    Integer,
    IntegerExt,
    Number,
    Scale(f64),
    Upper,
    Lower,
    NullIf(&'static str),
}

#[derive(Clone, Copy, Debug)]
enum K {
    /// literal character: rule text is its regex-escaped spelling, `plain` what it must match
    Lit(&'static str),
    /// raw regular-expression text (rule text = reference fragment)
    Re,
    /// raw regex with one named group: (fragment with `@` for the group name, field)
    ReNamed(&'static str, &'static str),
    /// grok pattern: documented expression, destination field, filters (matcher's own first)
    Pat(&'static str, Option<&'static str>, &'static [F]),
    /// raw regex whose reference fragment differs from the rule text (DD flag spelling → onig)
    ReAs(&'static str),
    /// reference to an alias: name, definition (item texts), destination field, filters
    Alias(&'static str, &'static [&'static str], Option<&'static str>, &'static [F]),
}

struct Item {
    text: &'static str,
    kind: K,
    /// sample strings the item can match (to derive matching inputs)
    samples: &'static [&'static str],
}

const NUMBER_RE: &str = r"[+-]?(?>\d+(?:\.(?:\d*)?)?|\.\d+)";
const NUMBER_EXT_RE: &str = r"[+-]?(?>\d+(?:\.(?:\d*)?)?|\.\d+)(?:[eE][+-]?\d+)?";

macro_rules! lit {
    ($t:expr, $p:expr) => {
        Item { text: $t, kind: K::Lit($p), samples: &[$p] }
    };
}

const ITEMS: &[Item] = &[
    // plain literal characters
    lit!("a", "a"),
    lit!("1", "1"),
    lit!("B", "B"),
    lit!(" ", " "),
    lit!("-", "-"),
    lit!("_", "_"),
    lit!(":", ":"),
    lit!("=", "="),
    lit!("\"", "\""),
    lit!("é", "é"),
    lit!("/", "/"),
    lit!("'", "'"),
    lit!(",", ","),
    lit!("%", "%"),
    lit!("#", "#"),
    lit!("<", "<"),
    lit!(">", ">"),
    lit!("@", "@"),
    lit!("&", "&"),
    lit!("~", "~"),
    lit!("!", "!"),
    lit!(";", ";"),
    // escaped metacharacters
    lit!("\\.", "."),
    lit!("\\[", "["),
    lit!("\\]", "]"),
    lit!("\\(", "("),
    lit!("\\)", ")"),
    lit!("\\*", "*"),
    lit!("\\+", "+"),
    lit!("\\?", "?"),
    lit!("\\\\", "\\"),
    lit!("\\|", "|"),
    lit!("\\{", "{"),
    lit!("\\}", "}"),
    lit!("\\^", "^"),
    lit!("\\$", "$"),
    // raw regex fragments
    Item { text: ".", kind: K::Re, samples: &["a", "\n"] },
    Item { text: "a?", kind: K::Re, samples: &["", "a"] },
    Item { text: "(a|B)", kind: K::Re, samples: &["a", "B"] },
    Item { text: "[a1]+", kind: K::Re, samples: &["a1"] },
    Item { text: "\\d", kind: K::Re, samples: &["1"] },
    Item { text: "\\s", kind: K::Re, samples: &[" ", "\n"] },
    Item { text: "\\w+", kind: K::Re, samples: &["aB1"] },
    Item { text: "(?<z>a+)", kind: K::ReNamed("(?<@>a+)", "z"), samples: &["a", "aa"] },
    // patterns
    Item { text: "%{word:w}", kind: K::Pat(r"\b\w+\b", Some("w"), &[]), samples: &["a", "aB1", "é"] },
    Item { text: "%{word}", kind: K::Pat(r"\b\w+\b", None, &[]), samples: &["a", "B1"] },
    Item { text: "%{word:v}", kind: K::Pat(r"\b\w+\b", Some("v"), &[]), samples: &["a", "1"] },
    Item { text: "%{integer:n}", kind: K::Pat(r"[+-]?\d+", Some("n"), &[F::Integer]), samples: &["1", "-11", "+1"] },
    Item { text: "%{integer:o.p}", kind: K::Pat(r"[+-]?\d+", Some("o.p"), &[F::Integer]), samples: &["11"] },
    Item { text: "%{notSpace:s}", kind: K::Pat(r"\S+", Some("s"), &[]), samples: &["a.-", "1"] },
    Item { text: "%{data:d}", kind: K::Pat(r".*?", Some("d"), &[]), samples: &["", "a B"] },
    Item { text: "%{greedyData:g}", kind: K::Pat(r".*", Some("g"), &[]), samples: &["", "a-1"] },
    Item { text: "%{number:x}", kind: K::Pat(NUMBER_RE, Some("x"), &[F::Number]), samples: &["1.5", ".5", "1.", "-10"] },
    Item {
        text: "%{number:x:scale(10)}",
        kind: K::Pat(NUMBER_RE, Some("x"), &[F::Number, F::Scale(10.0)]),
        samples: &["1.5", "1", "-.25"],
    },
    Item {
        text: "%{integer:n:scale(0.5)}",
        kind: K::Pat(r"[+-]?\d+", Some("n"), &[F::Integer, F::Scale(0.5)]),
        samples: &["1", "-4"],
    },
    Item { text: "%{numberExt:e}", kind: K::Pat(NUMBER_EXT_RE, Some("e"), &[F::Number]), samples: &["1e3", "1.5E-1"] },
    Item { text: "%{integerExt:i}", kind: K::Pat(r"[+-]?\d+(?:[eE][+-]?\d+)?", Some("i"), &[F::IntegerExt]), samples: &["1e2", "-1"] },
    Item { text: "%{word:w:uppercase}", kind: K::Pat(r"\b\w+\b", Some("w"), &[F::Upper]), samples: &["a", "éB"] },
    Item { text: "%{word:w:lowercase}", kind: K::Pat(r"\b\w+\b", Some("w"), &[F::Lower]), samples: &["B", "aB"] },
    Item { text: "%{word:w:nullIf(\"a\")}", kind: K::Pat(r"\b\w+\b", Some("w"), &[F::NullIf("a")]), samples: &["a", "B"] },
    Item { text: "%{notSpace:s:integer}", kind: K::Pat(r"\S+", Some("s"), &[F::Integer]), samples: &["1", "a"] },
    Item { text: "%{regex(\"[a1]+\"):r}", kind: K::Pat(r"[a1]+", Some("r"), &[]), samples: &["a1", "1"] },
    Item { text: "%{regex(\"a|B\")}", kind: K::Pat(r"a|B", None, &[]), samples: &["a", "B"] },
    Item {
        text: "%{quotedString:q}",
        kind: K::Pat(r#"(?>(?:"[^"]*")|(?:'[^']*'))"#, Some("q"), &[]),
        samples: &["\"a B\"", "''"],
    },
    Item { text: "%{space}", kind: K::Pat(r"\s+", None, &[]), samples: &[" ", " \n"] },
    Item { text: "%{notSpace:b:boolean}", kind: K::Pat(r"\S+", Some("b"), &[F::Boolean]), samples: &["true", "TRUE", "a"] },
    Item {
        text: "%{notSpace:u:decodeuricomponent}",
        kind: K::Pat(r"\S+", Some("u"), &[F::DecodeUri]),
        samples: &["a%20B", "%C3%A9", "%zz", "%"],
    },
    Item { text: "%{regex(\"[}a]+\"):r}", kind: K::Pat(r"[}a]+", Some("r"), &[]), samples: &["a}", "a"] },
    // DD spelling of "dot matches newline" inside a rule
    Item { text: "(?s).", kind: K::ReAs("(?m)."), samples: &["a", "\n"] },
    Item { text: "(?-s).", kind: K::ReAs("(?-m)."), samples: &["a", "\n"] },
    // aliases (definitions are passed in the `aliases` argument)
    Item { text: "%{al}", kind: K::Alias("al", &["%{word:w}", "-", "%{integer:n}"], None, &[]), samples: &["a-1", "B1-22"] },
    Item { text: "%{al:f}", kind: K::Alias("al", &["%{word:w}", "-", "%{integer:n}"], Some("f"), &[]), samples: &["a-1", "B1-22"] },
    Item {
        text: "%{al:f:uppercase}",
        kind: K::Alias("al", &["%{word:w}", "-", "%{integer:n}"], Some("f"), &[F::Upper]),
        samples: &["a-1"],
    },
    Item { text: "%{al2:h}", kind: K::Alias("al2", &["%{al}", " ", "a?"], Some("h"), &[]), samples: &["a-1 ", "a-1 a"] },
    Item { text: "%{al3}", kind: K::Alias("al3", &["(a|B)", "%{al2:h}"], None, &[]), samples: &["aa-1 ", "Ba-1 a"] },
];

fn item(text: &str) -> &'static Item {
    ITEMS.iter().find(|i| i.text == text).unwrap_or_else(|| panic!("unknown rule item {text:?}"))
}

fn is_lit(i: &Item) -> bool {
    matches!(i.kind, K::Lit(_))
}

// ---------------------------------------------------------------------------------------------
// subject

fn program(patterns: &[String], aliases: &[(String, String)]) -> String {
    let pats: Vec<String> = patterns.iter().map(|p| vv::str_lit(p)).collect();
    let mut src = format!("parse_groks!(.a, patterns: [{}]", pats.join(", "));
    if !aliases.is_empty() {
        let al: Vec<String> = aliases.iter().map(|(k, v)| format!("{}: {}", vv::str_lit(k), vv::str_lit(v))).collect();
        src.push_str(&format!(", aliases: {{{}}}", al.join(", ")));
    }
    src.push(')');
    src
}

enum Got {
    Match(Value),
    NoMatch,
    OtherError(String),
    Rejected,
    Panic(String),
}

fn exec(src: &str, input: &str) -> Got {
    match law::call(src, law::ev1(Value::from(input))) {
        Outcome::Ok(v) => Got::Match(v),
        Outcome::Error(e) => {
            if e.contains("does not match any rule") { Got::NoMatch } else { Got::OtherError(e) }
        }
        Outcome::Other(s) if s == "rejected" => Got::Rejected,
        Outcome::Other(s) if s.starts_with("panic") => Got::Panic(s),
        o => Got::OtherError(o.show()),
    }
}

// ---------------------------------------------------------------------------------------------
// reference

struct Capture {
    group: String,
    field: &'static str,
    filters: &'static [F],
}

struct Reference {
    regex: Option<onig::Regex>,
    captures: Vec<Capture>,
    /// the same literal named group occurs twice: which occurrence is reported is not fixed
    ambiguous_named: bool,
}

fn fragment(items: &[&'static Item], counter: &mut usize, captures: &mut Vec<Capture>, named: &mut usize, re: &mut String) {
    for it in items {
        let k = *counter;
        *counter += 1;
        match it.kind {
            K::Lit(_) | K::Re => re.push_str(it.text),
            K::ReAs(frag) => re.push_str(frag),
            K::ReNamed(frag, field) => {
                *named += 1;
                let g = format!("g{k}");
                re.push_str(&frag.replace('@', &g));
                captures.push(Capture { group: g, field, filters: &[] });
            }
            K::Pat(expr, Some(field), filters) => {
                let g = format!("g{k}");
                re.push_str(&format!("(?<{g}>{expr})"));
                captures.push(Capture { group: g, field, filters });
            }
            K::Pat(expr, None, _) => re.push_str(&format!("(?:{expr})")),
            K::Alias(_, def, dest, filters) => {
                let inner: Vec<&'static Item> = def.iter().map(|t| item(t)).collect();
                match dest {
                    Some(field) => {
                        let g = format!("g{k}");
                        re.push_str(&format!("(?<{g}>"));
                        captures.push(Capture { group: g, field, filters });
                        fragment(&inner, counter, captures, named, re);
                        re.push(')');
                    }
                    None => {
                        re.push_str("(?:");
                        fragment(&inner, counter, captures, named, re);
                        re.push(')');
                    }
                }
            }
        }
    }
}

fn reference(items: &[&'static Item]) -> Reference {
    let mut re = String::from(r"(?m)\A");
    let mut captures = Vec::new();
    let mut named = 0;
    let mut counter = 0;
    fragment(items, &mut counter, &mut captures, &mut named, &mut re);
    re.push_str(r"\z");
    Reference { regex: onig::Regex::new(&re).ok(), captures, ambiguous_named: named > 1 }
}

/// Alias definitions needed by the items (recursively), name → definition text.
fn aliases_of(items: &[&'static Item], out: &mut BTreeMap<String, String>) {
    for it in items {
        if let K::Alias(name, def, _, _) = it.kind {
            out.insert(name.to_string(), def.concat());
            let inner: Vec<&'static Item> = def.iter().map(|t| item(t)).collect();
            aliases_of(&inner, out);
        }
    }
}

fn rule_program(items: &[&'static Item]) -> String {
    let mut al = BTreeMap::new();
    aliases_of(items, &mut al);
    let al: Vec<(String, String)> = al.into_iter().collect();
    program(&[rule_text(items)], &al)
}

enum Fv {
    V(Value),
    Absent,
    Unjudged,
}

/// Integral values become integers; beyond ±9.2e18 the integer/float choice is not judged.
fn number_value(x: f64) -> Option<Value> {
    if !x.is_finite() || x.abs() >= 9.2e18 {
        return None;
    }
    Some(if x.fract() == 0.0 { Value::Integer(x as i64) } else { vv::f(x) })
}

fn apply_filters(s: &str, filters: &[F]) -> Fv {
    let mut cur = Value::from(s);
    for f in filters {
        let text = match &cur {
            Value::Bytes(b) => Some(String::from_utf8_lossy(b).to_string()),
            _ => None,
        };
        cur = match (f, &cur, text) {
            (F::Integer, _, Some(t)) => match t.parse::<i64>() {
                Ok(i) => Value::Integer(i),
                Err(_) => return Fv::Unjudged,
            },
            (F::IntegerExt, _, Some(t)) => match t.parse::<f64>() {
                Ok(x) if x.is_finite() && x.abs() < 9.0e15 => Value::Integer(x as i64),
                _ => return Fv::Unjudged,
            },
            (F::Number, _, Some(t)) => match t.parse::<f64>() {
                Ok(x) => match number_value(x) {
                    Some(v) => v,
                    None => return Fv::Unjudged,
                },
                _ => return Fv::Unjudged,
            },
            (F::Scale(k), Value::Integer(i), _) => match number_value(*i as f64 * k) {
                Some(v) => v,
                None => return Fv::Unjudged,
            },
            (F::Scale(k), Value::Float(x), _) => match number_value(x.into_inner() * k) {
                Some(v) => v,
                None => return Fv::Unjudged,
            },
            (F::Boolean, _, Some(t)) => Value::Boolean(t.eq_ignore_ascii_case("true")),
            (F::DecodeUri, _, Some(t)) => match percent_decode(&t) {
                Some(d) => Value::from(d),
                None => return Fv::Unjudged,
            },
            (F::Upper, _, Some(t)) => Value::from(t.to_uppercase()),
            (F::Lower, _, Some(t)) => Value::from(t.to_lowercase()),
            (F::NullIf(v), _, Some(t)) => {
                if t == *v {
                    return Fv::Absent;
                }
                cur.clone()
            }
            _ => return Fv::Unjudged,
        };
    }
    Fv::V(cur)
}

/// `%XX` decoding; None where the text is not well-formed percent-encoded UTF-8 (what happens
/// then is not fixed by the property).
fn percent_decode(t: &str) -> Option<String> {
    let b = t.as_bytes();
    let mut out = Vec::new();
    let mut i = 0;
    while i < b.len() {
        if b[i] == b'%' {
            let h = std::str::from_utf8(b.get(i + 1..i + 3)?).ok()?;
            if !h.bytes().all(|c| c.is_ascii_hexdigit()) {
                return None;
            }
            out.push(u8::from_str_radix(h, 16).ok()?);
            i += 3;
        } else {
            out.push(b[i]);
            i += 1;
        }
    }
    String::from_utf8(out).ok()
}

fn insert_path(root: &mut BTreeMap<KeyString, Value>, path: &[&str], v: Value) {
    if path.len() == 1 {
        match root.remove(path[0]) {
            Some(Value::Array(mut a)) => {
                a.push(v);
                root.insert(path[0].into(), Value::Array(a));
            }
            Some(old) => {
                root.insert(path[0].into(), Value::Array(vec![old, v]));
            }
            None => {
                root.insert(path[0].into(), v);
            }
        }
        return;
    }
    let e = root.entry(path[0].into()).or_insert_with(|| Value::Object(BTreeMap::new()));
    if let Value::Object(o) = e {
        insert_path(o, &path[1..], v);
    }
}

fn remove_path(root: &mut BTreeMap<KeyString, Value>, path: &[&str]) {
    if path.len() == 1 {
        root.remove(path[0]);
        return;
    }
    let mut empty = false;
    if let Some(Value::Object(o)) = root.get_mut(path[0]) {
        remove_path(o, &path[1..]);
        empty = o.is_empty();
    }
    if empty {
        root.remove(path[0]);
    }
}

enum Expect {
    NoMatch,
    /// expected object, fields to ignore (captures of the empty string), whether the object is judged
    Match(Value, Vec<&'static str>, bool),
}

fn expect(r: &Reference, input: &str) -> Option<Expect> {
    let re = r.regex.as_ref()?;
    let Some(caps) = re.captures(input) else { return Some(Expect::NoMatch) };
    let mut root = BTreeMap::new();
    let mut ignore: Vec<&'static str> = Vec::new();
    let mut judged = !r.ambiguous_named;
    let mut seen: BTreeMap<&str, u32> = BTreeMap::new();
    for c in &r.captures {
        *seen.entry(c.field).or_insert(0) += 1;
    }
    for c in &r.captures {
        let mut sub: Option<&str> = None;
        re.foreach_name(|name, idx| {
            if name == c.group {
                sub = caps.at(idx[0] as usize);
            }
            true
        });
        let s = sub.unwrap_or("");
        if s.is_empty() {
            // the matched substring is empty: "field holds the empty string" and "field absent" are both accepted
            if seen[c.field] > 1 {
                judged = false;
            }
            ignore.push(c.field);
            continue;
        }
        match apply_filters(s, c.filters) {
            Fv::V(v) => {
                let path: Vec<&str> = c.field.split('.').collect();
                insert_path(&mut root, &path, v);
            }
            Fv::Absent => {}
            Fv::Unjudged => judged = false,
        }
    }
    Some(Expect::Match(Value::Object(root), ignore, judged))
}

// ---------------------------------------------------------------------------------------------
// inputs

fn standard_inputs() -> Vec<String> {
    let mut set: BTreeSet<String> = BTreeSet::new();
    for s in law::strings_over(&["a", "B", "1", " ", ".", "-"], 3) {
        set.insert(s);
    }
    for s in law::strings_over(&["a", "B", "1", " ", ".", "-", "\n", "é", "+", "\""], 2) {
        set.insert(s);
    }
    set.into_iter().collect()
}

/// An input in which the j-th non-literal item gets its own text (a, b, c… / 1, 2, 3…), so that
/// captures can be told apart.
fn distinct_input(items: &[&'static Item]) -> String {
    let mut distinct = String::new();
    let mut j = 0u32;
    for it in items {
        match (is_lit(it), it.samples.first().copied()) {
            (false, Some("a")) => {
                distinct.push(char::from_u32('a' as u32 + j % 26).unwrap_or('a'));
                j += 1;
            }
            (false, Some("1")) => {
                distinct.push_str(&(j + 1).to_string());
                j += 1;
            }
            (_, Some(s0)) => distinct.push_str(s0),
            _ => {}
        }
    }
    distinct
}

fn derived_inputs(items: &[&'static Item]) -> Vec<String> {
    let mut combos: Vec<String> = vec![String::new()];
    for it in items {
        let mut next = Vec::new();
        for c in &combos {
            for s in it.samples {
                if next.len() < 64 {
                    next.push(format!("{c}{s}"));
                }
            }
        }
        combos = next;
    }
    let distinct = distinct_input(items);
    combos.push(distinct);
    let mut out: BTreeSet<String> = BTreeSet::new();
    for c in combos {
        out.insert(format!("{c}a"));
        out.insert(format!("{c}\n"));
        out.insert(format!(" {c}"));
        out.insert(format!("a{c}"));
        if !c.is_empty() {
            let cut: String = c.chars().take(c.chars().count() - 1).collect();
            out.insert(cut);
            out.insert(c.chars().skip(1).collect());
            out.insert(format!("{c}{c}"));
            out.insert(c.to_uppercase());
        }
        out.insert(c);
    }
    out.into_iter().collect()
}

thread_local! {
    static STD: Rc<Vec<String>> = Rc::new(standard_inputs());
    static REFS: RefCell<HashMap<String, Rc<Reference>>> = RefCell::new(HashMap::new());
}

// ---------------------------------------------------------------------------------------------
// laws

fn items_of(w: &J) -> Vec<&'static Item> {
    w["items"].as_array().map(|a| a.iter().filter_map(J::as_str).map(item).collect()).unwrap_or_default()
}

fn rule_text(items: &[&'static Item]) -> String {
    items.iter().map(|i| i.text).collect()
}

fn strip(v: &Value, ignore: &[&'static str]) -> Value {
    let Value::Object(o) = v else { return v.clone() };
    let mut o = o.clone();
    for f in ignore {
        let path: Vec<&str> = f.split('.').collect();
        remove_path(&mut o, &path);
    }
    Value::Object(o)
}

fn sorted_arrays(v: &Value) -> Value {
    match v {
        Value::Array(a) => {
            let mut a: Vec<Value> = a.iter().map(sorted_arrays).collect();
            a.sort_by_key(vv::show);
            Value::Array(a)
        }
        Value::Object(o) => Value::Object(o.iter().map(|(k, v)| (k.clone(), sorted_arrays(v))).collect()),
        v => v.clone(),
    }
}

fn same_up_to_array_order(a: &Value, b: &Value) -> bool {
    sorted_arrays(a) == sorted_arrays(b)
}

/// One (rule, input) pair of the `literal` / `rules` laws.
fn check_pair(law_name: &str, items: &[&'static Item], src: &str, r: &Reference, input: &str, res: &mut CaseResult) {
    let w = || json!({"law": law_name, "items": items.iter().map(|i| i.text).collect::<Vec<_>>(), "input": input});
    let rule = rule_text(items);
    let got = exec(src, input);
    let literal_only = items.iter().all(|i| is_lit(i));
    res.counters.push(("rule_input_pairs", 1));
    match &got {
        Got::Rejected => {
            res.violations.push(Violation::new(
                "C32.rule-rejected",
                json!({"law": law_name, "items": items.iter().map(|i| i.text).collect::<Vec<_>>()}),
                format!("rule {rule:?} compiles"),
                law::why_rejected(src),
            ));
            return;
        }
        Got::Panic(p) => {
            res.violations.push(Violation::new("C32.panic", w(), "no panic", p.clone()));
            return;
        }
        Got::OtherError(e) => {
            res.counters.push(("other_runtime_errors", 1));
            res.violations.push(Violation::new("C32.runtime-error", w(), "match or 'does not match any rule'", e.clone()));
            return;
        }
        _ => {}
    }
    let matched = matches!(got, Got::Match(_));
    if literal_only {
        let own: String = items.iter().map(|i| if let K::Lit(p) = i.kind { p } else { "" }).collect();
        let want = input == own;
        if matched != want {
            res.violations.push(Violation::new(
                "C32.literal-rule-matches-own-text",
                w(),
                format!("rule {rule:?} matches {input:?}: {want} (its text is {own:?})"),
                format!("{matched}"),
            ));
        } else if let Got::Match(v) = &got {
            res.counters.push(("matches", 1));
            if *v != Value::Object(BTreeMap::new()) {
                res.violations.push(Violation::new("C32.captures", w(), "{}", vv::show(v)));
            }
        }
        return;
    }
    match expect(r, input) {
        None => res.counters.push(("reference_regex_invalid", 1)),
        Some(Expect::NoMatch) => {
            if matched {
                res.violations.push(Violation::new(
                    "C32.match-verdict",
                    w(),
                    format!("rule {rule:?} does not match {input:?} (anchored reference expression)"),
                    "matches",
                ));
            }
        }
        Some(Expect::Match(want, ignore, judged)) => {
            res.counters.push(("matches", 1));
            let Got::Match(v) = &got else {
                res.violations.push(Violation::new(
                    "C32.match-verdict",
                    w(),
                    format!("rule {rule:?} matches {input:?} (anchored reference expression)"),
                    "does not match",
                ));
                return;
            };
            if !judged {
                res.counters.push(("captures_unjudged", 1));
                return;
            }
            if !ignore.is_empty() {
                res.counters.push(("empty_captures", 1));
            }
            let (g, e) = (strip(v, &ignore), strip(&want, &ignore));
            if g != e {
                res.violations.push(Violation::new(
                    if same_up_to_array_order(&g, &e) { "C32.captures-order" } else { "C32.captures" },
                    w(),
                    format!("{} (reference captures after filters{})", vv::show(&e), if ignore.is_empty() { String::new() } else { format!(", ignoring {ignore:?}") }),
                    vv::show(&g),
                ));
            } else if want != Value::Object(BTreeMap::new()) {
                res.counters.push(("captures_checked", 1));
            }
        }
    }
}

fn case_rule(w: &J) -> CaseResult {
    let items = items_of(w);
    let law_name = w["law"].as_str().unwrap_or("rules").to_string();
    let rule = rule_text(&items);
    let src = rule_program(&items);
    let r = REFS.with(|c| {
        let mut c = c.borrow_mut();
        if c.len() > 50_000 {
            c.clear();
        }
        c.entry(rule.clone()).or_insert_with(|| Rc::new(reference(&items))).clone()
    });
    let mut res = CaseResult::ok(if items.iter().all(|i| is_lit(i)) { "literal" } else { "rule" });
    if let Some(input) = w["input"].as_str() {
        check_pair(&law_name, &items, &src, &r, input, &mut res);
    } else {
        // whole rule: standard ∪ derived inputs
        let std = STD.with(Rc::clone);
        let derived = derived_inputs(&items);
        let mut seen: BTreeSet<&str> = BTreeSet::new();
        let before = res.violations.len();
        for input in derived.iter().chain(std.iter()) {
            if !seen.insert(input.as_str()) {
                continue;
            }
            check_pair(&law_name, &items, &src, &r, input, &mut res);
            if res.violations.iter().skip(before).any(|v| v.clause == "C32.rule-rejected") {
                break;
            }
        }
    }
    let matches: u64 = res.counters.iter().filter(|(k, _)| *k == "matches").map(|(_, n)| *n).sum();
    res.nontrivial = matches > 0;
    res.class = format!("{}/{}", res.class, if matches > 0 { "some-input-matches" } else { "no-input-matches" });
    res
}

const FIRST_RULES: &[&[&str]] = &[
    &["a"],
    &["%{word:w}"],
    &["%{integer:n}"],
    &["%{word:w}", " ", "%{word:v}"],
    &["%{data:d}", "-", "%{greedyData:g}"],
    &["%{number:x}"],
    &["%{notSpace:s}"],
    &["a", "\\."],
    &["%{word:w:uppercase}"],
    &["%{greedyData:g}"],
    &["."],
    &["%{integer:n}", "%{word:w}"],
];

fn case_first(w: &J) -> CaseResult {
    let rules: Vec<String> = w["rules"]
        .as_array()
        .map(|a| a.iter().map(|r| r.as_array().map(|x| x.iter().filter_map(J::as_str).collect::<String>()).unwrap_or_default()).collect())
        .unwrap_or_default();
    let input = w["input"].as_str().unwrap_or("");
    let both = exec(&program(&rules, &[]), input);
    let mut want: Option<Got> = None;
    for r in &rules {
        let g = exec(&program(std::slice::from_ref(r), &[]), input);
        match g {
            Got::NoMatch => continue,
            g => {
                want = Some(g);
                break;
            }
        }
    }
    let show = |g: &Got| match g {
        Got::Match(v) => format!("match {}", vv::show(v)),
        Got::NoMatch => "no match".to_string(),
        Got::OtherError(e) => format!("error {e}"),
        Got::Rejected => "rejected".to_string(),
        Got::Panic(p) => format!("panic {p}"),
    };
    let want = want.unwrap_or(Got::NoMatch);
    let same = match (&both, &want) {
        (Got::Match(a), Got::Match(b)) => a == b,
        (Got::NoMatch, Got::NoMatch) => true,
        _ => false,
    };
    let mut res = if matches!(want, Got::Match(_)) { CaseResult::ok("first/match") } else { CaseResult::trivial("first/nomatch") };
    if !same {
        res = res.violation(Violation::new("C32.first-matching-rule", w.clone(), show(&want), show(&both)));
    }
    res
}

/// alias `ai` = its index digit followed by references to every successor, in increasing order
fn alias_defs(n: usize, edges: u64) -> Vec<(String, String)> {
    (0..n)
        .map(|i| {
            let mut d = format!("{i}");
            for j in 0..n {
                if (edges >> (i * n + j)) & 1 == 1 {
                    d.push_str(&format!("%{{a{j}}}"));
                }
            }
            (format!("a{i}"), d)
        })
        .collect()
}

/// Some(expansion of a0) when no cycle is reachable from a0.
fn expand(n: usize, edges: u64, i: usize, stack: &mut Vec<usize>) -> Option<String> {
    if stack.contains(&i) {
        return None;
    }
    stack.push(i);
    let mut s = format!("{i}");
    for j in 0..n {
        if (edges >> (i * n + j)) & 1 == 1 {
            s.push_str(&expand(n, edges, j, stack)?);
        }
    }
    stack.pop();
    Some(s)
}

fn has_any_cycle(n: usize, edges: u64) -> bool {
    (0..n).any(|i| expand(n, edges, i, &mut Vec::new()).is_none())
}

fn case_alias(w: &J) -> CaseResult {
    let n = w["n"].as_u64().unwrap_or(3) as usize;
    let edges = w["edges"].as_u64().unwrap_or(0);
    let dest = w["dest"].as_bool().unwrap_or(false);
    let rule = if dest { "%{a0:f}".to_string() } else { "%{a0}".to_string() };
    let aliases = alias_defs(n, edges);
    let src = program(&[rule], &aliases);
    let expansion = expand(n, edges, 0, &mut Vec::new());
    let compiled = law::prog(&src).is_some();
    match expansion {
        None => {
            let r = CaseResult::ok("alias/cycle");
            if compiled {
                r.violation(Violation::new(
                    "C32.alias-cycle-rejected",
                    w.clone(),
                    format!("compilation fails: a cycle is reachable from the rule (aliases {aliases:?})"),
                    "compiled",
                ))
            } else {
                r.count("cyclic_rejected", 1)
            }
        }
        Some(exp) => {
            let unreachable_cycle = has_any_cycle(n, edges);
            if !compiled {
                if unreachable_cycle {
                    return CaseResult::trivial("alias/unreachable-cycle-rejected").count("unreachable_cycle_rejected", 1);
                }
                return CaseResult::ok("alias/acyclic").violation(Violation::new(
                    "C32.acyclic-aliases-accepted",
                    w.clone(),
                    format!("compiles (no alias cycle; aliases {aliases:?})"),
                    law::why_rejected(&src),
                ));
            }
            let mut r = CaseResult::ok(if unreachable_cycle { "alias/unreachable-cycle-accepted" } else { "alias/acyclic" }).count("acyclic_accepted", 1);
            let want_obj = if dest { vv::obj(&[("f", Value::from(exp.as_str()))]) } else { Value::Object(BTreeMap::new()) };
            match exec(&src, &exp) {
                Got::Match(v) if v == want_obj => {}
                g => {
                    let shown = match g {
                        Got::Match(v) => vv::show(&v),
                        Got::NoMatch => "no match".into(),
                        _ => "error".into(),
                    };
                    r = r.violation(Violation::new(
                        "C32.alias-expansion",
                        w.clone(),
                        format!("matches its expansion {exp:?} giving {}", vv::show(&want_obj)),
                        shown,
                    ));
                }
            }
            for bad in [format!("{exp}0"), exp[..exp.len() - 1].to_string(), format!("0{exp}")] {
                if matches!(exec(&src, &bad), Got::Match(_)) {
                    r = r.violation(Violation::new(
                        "C32.alias-expansion",
                        w.clone(),
                        format!("does not match {bad:?} (expansion is {exp:?})"),
                        "matches",
                    ));
                }
            }
            r
        }
    }
}

fn case(w: &J) -> CaseResult {
    match w["law"].as_str().unwrap_or("") {
        "literal" | "rules" => case_rule(w),
        "first" => case_first(w),
        "alias" => case_alias(w),
        l => panic!("unknown law {l}"),
    }
}

pub fn run_check(tier: Tier) -> Report {
    let mut rep = Report::new("C32", tier, "exploration");

    // literal-only rules
    let lits: Vec<&'static str> = ITEMS.iter().filter(|i| is_lit(i)).map(|i| i.text).collect();
    let max_lit = if tier.thorough() { 3 } else { 2 };
    for len in 1..=max_lit {
        let dims = vec![lits.len() as u64; len];
        law::drive_indexed(
            &mut rep,
            &format!("literal{len}"),
            product(&dims),
            |i| {
                let c = unrank(i, &dims);
                json!({"law":"literal","items": c.iter().map(|&k| lits[k]).collect::<Vec<_>>()})
            },
            case,
        );
    }
    // quick tier: length-3 literal rules over a sub-alphabet that keeps every escaped metacharacter
    if !tier.thorough() {
        let sub: Vec<&'static str> =
            lits.iter().copied().filter(|t| t.starts_with('\\') || ["a", "1", " ", "\"", "é", "%", "-", ":"].contains(t)).collect();
        let dims = vec![sub.len() as u64; 3];
        law::drive_indexed(
            &mut rep,
            "literal3",
            product(&dims),
            |i| {
                let c = unrank(i, &dims);
                json!({"law":"literal","items": c.iter().map(|&k| sub[k]).collect::<Vec<_>>()})
            },
            case,
        );
    }

    // thorough tier: length-4 literal rules over the escaped metacharacters (+ one plain letter)
    if tier.thorough() {
        let sub: Vec<&'static str> = lits.iter().copied().filter(|t| t.starts_with('\\') || *t == "a").collect();
        let dims = vec![sub.len() as u64; 4];
        law::drive_indexed(
            &mut rep,
            "literal4",
            product(&dims),
            |i| {
                let c = unrank(i, &dims);
                json!({"law":"literal","items": c.iter().map(|&k| sub[k]).collect::<Vec<_>>()})
            },
            case,
        );
    }

    // mixed rules
    let all: Vec<&'static str> = ITEMS.iter().map(|i| i.text).collect();
    let core_lits = ["a", "1", " ", "-", ":", "\"", "é", "\\.", "\\[", "\\(", "\\*", "\\\\", "\\|", "%"];
    let mixed: Vec<&'static str> = ITEMS.iter().filter(|i| !is_lit(i) || core_lits.contains(&i.text)).map(|i| i.text).collect();
    let short: Vec<&'static str> = if tier.thorough() {
        mixed.clone()
    } else {
        let keep = [
            "a", " ", "-", "\\.", "1", ".", "a?", "(a|B)", "%{word:w}", "%{word}", "%{integer:n}", "%{notSpace:s}", "%{data:d}",
            "%{greedyData:g}", "%{number:x:scale(10)}", "%{word:w:uppercase}", "%{regex(\"a|B\")}", "%{number:x}", "(?<z>a+)",
            "%{word:w:nullIf(\"a\")}", "%{integer:o.p}", "%{quotedString:q}", "%{al:f}", "(?s).", "%{al2:h}",
        ];
        mixed.iter().copied().filter(|t| keep.contains(t)).collect()
    };
    for (len, pool) in [(1usize, &all), (2, &mixed), (3, &short)] {
        let dims = vec![pool.len() as u64; len];
        law::drive_indexed(
            &mut rep,
            &format!("rules{len}"),
            product(&dims),
            |i| {
                let c = unrank(i, &dims);
                let its: Vec<&'static str> = c.iter().map(|&k| pool[k]).collect();
                if its.iter().all(|t| is_lit(item(t))) {
                    return J::Null; // covered by the literal groups
                }
                json!({"law":"rules","items": its})
            },
            case,
        );
    }

    // many captures in one rule (capture-name bookkeeping beyond 10 groups)
    {
        let mut cases: Vec<J> = Vec::new();
        for n in 2..=13usize {
            for (pat, sep) in [("%{word:w}", " "), ("%{integer:n}", "-"), ("%{notSpace:s}", " ")] {
                let mut its: Vec<&str> = Vec::new();
                for k in 0..n {
                    if k > 0 {
                        its.push(sep);
                    }
                    its.push(pat);
                }
                let d = distinct_input(&its.iter().map(|t| item(t)).collect::<Vec<_>>());
                cases.push(json!({"law":"rules","items":its,"input":d}));
                cases.push(json!({"law":"rules","items":its,"input":format!("{d}{sep}")}));
            }
            // alternating destinations
            let mut its: Vec<&str> = Vec::new();
            for k in 0..n {
                if k > 0 {
                    its.push(" ");
                }
                its.push(if k % 2 == 0 { "%{word:w}" } else { "%{word:v}" });
            }
            let d = distinct_input(&its.iter().map(|t| item(t)).collect::<Vec<_>>());
            cases.push(json!({"law":"rules","items":its,"input":d}));
        }
        law::drive(&mut rep, "many", &cases, case);
    }

    // first matching rule
    {
        let inputs = ["a", "1", "a a", "a-1", "-1", "a.", "1a", "", "1.5", "a b c", "\n", "A"];
        let dims = [inputs.len() as u64, FIRST_RULES.len() as u64, FIRST_RULES.len() as u64];
        law::drive_indexed(
            &mut rep,
            "first",
            product(&dims),
            |i| {
                let c = unrank(i, &dims);
                json!({"law":"first","rules":[FIRST_RULES[c[1]], FIRST_RULES[c[2]]],"input":inputs[c[0]]})
            },
            case,
        );
    }

    // alias digraphs
    let max_n = if tier.thorough() { 4 } else { 3 };
    for n in 1..=max_n {
        let dims = [1u64 << (n * n), 2];
        law::drive_indexed(
            &mut rep,
            &format!("alias{n}"),
            product(&dims),
            |i| {
                let c = unrank(i, &dims);
                json!({"law":"alias","n":n,"edges":c[0],"dest":c[1] == 1})
            },
            case,
        );
    }

    // `evaluations` counts rules; the (rule, input) pairs are in `rule_input_pairs`
    rep.set(
        "rule",
        format!(
            "literal: all sequences of 1..={max_lit} literal items ({} literal characters, 14 of them escaped metacharacters; quick tier adds length 3 over a 22-character sub-alphabet, thorough tier length 4 over the 14 escaped metacharacters + `a`); \
             rules: all sequences of 1 / 2 / 3 items over {} / {} / {} items that contain a pattern or a raw regex fragment; each rule is run on ~330 standard inputs \
             (all strings of <=3 over {{a,B,1,space,.,-}} and <=2 over 10 characters incl. newline, é, +, quote) plus inputs derived from the rule (sample matches of every item, \
             truncated / extended / doubled / upper-cased). One evaluation = one rule (all its inputs; pairs are counted in rule_input_pairs); non-trivial = at least one input matched. \
             first: {}^2 rule pairs x 12 inputs. alias: all digraphs on 1..={max_n} aliases, rule with and without destination.",
            lits.len(),
            all.len(),
            mixed.len(),
            short.len(),
            FIRST_RULES.len(),
        ),
    );
    rep.assume("match verdicts of non-literal rules are compared with an independently assembled anchored expression run under the same regex engine (onig): the property is about the translation of a rule, not about the engine");
    rep.assume("filters re-implemented with Rust std (i64/f64 parsing, to_uppercase/to_lowercase, multiplication); a capture whose filter cannot convert the text, and captures of the empty string, are not judged");
    rep.assume("the alias law does not judge whether a cycle that is NOT reachable from the rule is rejected");
    rep
}

pub fn run(tier: Tier) -> Report {
    run_check(tier)
}

pub fn replay(_property: &str, w: &J) -> Vec<Violation> {
    case(w).violations
}
