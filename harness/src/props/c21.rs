//! C21 — JSON round trips: `parse_json(encode_json(v)) == v` (compact and pretty, every option
//! spelling of both functions that does not change the meaning) and the same through serde
//! (`Serialize` / `Deserialize` of `Value` driven by serde_json in every entry point), for
//! JSON-representable values. Floats may differ by one unit in the last place.
//!
//! One case = one (value, route) pair. Values are carried in the witness as tagged JSON
//! (`vv::enc`), very deep values as `{"deep": kind, "depth": n, "leaf": …}`.

use crate::law::{self, CaseResult};
use crate::report::{Report, Tier, Violation};
use crate::util::unrank;
use crate::vrlx::Outcome;
use crate::vv;
use serde_json::{Value as J, json};
use std::collections::BTreeMap;
use vrl::value::{KeyString, Value};

// ---------------------------------------------------------------------------------------------
// comparison

/// Distance of two finite floats in units in the last place (adjacent representable values = 1;
/// +0.0 and -0.0 = 0).
fn ulp_distance(a: f64, b: f64) -> u64 {
    fn key(x: f64) -> i64 {
        let b = x.to_bits() as i64;
        if b < 0 { i64::MIN.wrapping_sub(b) } else { b }
    }
    key(a).abs_diff(key(b))
}

#[derive(Default)]
struct Cmp {
    floats: u64,
    floats_inexact: u64,
    neg_zero_sign_lost: u64,
    floats_two_ulp: u64,
    floats_more_ulp: u64,
    /// the first mismatch is a float that is more than 1 ulp away (everything else matched so far)
    mismatch_is_float: bool,
    mismatch: Option<String>,
}

/// Structural equality; integers, strings, keys, shapes and the Integer/Float distinction are
/// exact, floats are equal within 1 ulp.
fn compare(orig: &Value, got: &Value, path: &str, c: &mut Cmp) {
    if c.mismatch.is_some() {
        return;
    }
    match (orig, got) {
        (Value::Float(a), Value::Float(b)) => {
            let (a, b) = (a.into_inner(), b.into_inner());
            c.floats += 1;
            let d = ulp_distance(a, b);
            if d > 1 {
                if d == 2 {
                    c.floats_two_ulp += 1;
                } else {
                    c.floats_more_ulp += 1;
                }
                c.mismatch_is_float = true;
                c.mismatch = Some(format!("at {path}: float {a:?} came back as {b:?} ({d} ulp apart)"));
            } else if d == 1 {
                c.floats_inexact += 1;
            } else if a.to_bits() != b.to_bits() {
                c.neg_zero_sign_lost += 1;
            }
        }
        (Value::Array(a), Value::Array(b)) => {
            if a.len() != b.len() {
                c.mismatch = Some(format!("at {path}: array length {} came back as {}", a.len(), b.len()));
                return;
            }
            for (i, (x, y)) in a.iter().zip(b).enumerate() {
                compare(x, y, &format!("{path}[{i}]"), c);
            }
        }
        (Value::Object(a), Value::Object(b)) => {
            if a.len() != b.len() || !a.keys().eq(b.keys()) {
                c.mismatch = Some(format!(
                    "at {path}: keys {:?} came back as {:?}",
                    a.keys().map(ToString::to_string).collect::<Vec<_>>(),
                    b.keys().map(ToString::to_string).collect::<Vec<_>>()
                ));
                return;
            }
            for ((k, x), (_, y)) in a.iter().zip(b) {
                compare(x, y, &format!("{path}.{k:?}"), c);
            }
        }
        (a, b) => {
            if a != b || std::mem::discriminant(a) != std::mem::discriminant(b) {
                c.mismatch = Some(format!("at {path}: {} came back as {}", vv::show(a), vv::show(b)));
            }
        }
    }
}

/// Number of nested container layers (scalar = 0, `[]` = 1, `[[]]` = 2).
fn depth(v: &Value) -> usize {
    match v {
        Value::Array(a) => 1 + a.iter().map(depth).max().unwrap_or(0),
        Value::Object(o) => 1 + o.values().map(depth).max().unwrap_or(0),
        _ => 0,
    }
}

// ---------------------------------------------------------------------------------------------
// routes

/// Routes through the VRL functions: (name, program). `D` is replaced by the container depth of
/// the value (clamped to 1..=128) — `max_depth` equal to the depth parses every layer.
const VRL_ROUTES: &[(&str, &str)] = &[
    ("vrl:compact", "parse_json!(encode_json(.a))"),
    ("vrl:pretty", "parse_json!(encode_json(.a, pretty: true))"),
    ("vrl:pretty-false", "parse_json!(encode_json(.a, pretty: false))"),
    ("vrl:positional-pretty", "parse_json!(encode_json(.a, true))"),
    ("vrl:compact/lossy-false", "parse_json!(encode_json(.a), lossy: false)"),
    ("vrl:pretty/lossy-false", "parse_json!(encode_json(.a, pretty: true), lossy: false)"),
    ("vrl:compact/lossy-true", "parse_json!(encode_json(.a), lossy: true)"),
    ("vrl:pretty/lossy-true", "parse_json!(encode_json(.a, pretty: true), lossy: true)"),
    ("vrl:compact/max-depth-128", "parse_json!(encode_json(.a), max_depth: 128)"),
    ("vrl:pretty/max-depth-128", "parse_json!(encode_json(.a, pretty: true), max_depth: 128)"),
    ("vrl:compact/max-depth-exact", "parse_json!(encode_json(.a), max_depth: D)"),
    ("vrl:pretty/max-depth-exact/lossy-false", "parse_json!(encode_json(.a, pretty: true), max_depth: D, lossy: false)"),
    ("vrl:via-variable", "s = encode_json(.a); parse_json!(s)"),
];

const SERDE_ROUTES: &[&str] = &[
    "serde:to_string/from_str",
    "serde:to_string_pretty/from_str",
    "serde:to_vec/from_slice",
    "serde:to_vec_pretty/from_reader",
    "serde:to_value/from_value",
    "serde:to_string/from_str-json-value/from",
    "serde:try_into-json-value/from",
];

fn all_routes() -> Vec<String> {
    VRL_ROUTES.iter().map(|(n, _)| (*n).to_string()).chain(SERDE_ROUTES.iter().map(|s| (*s).to_string())).collect()
}

/// Run one route. Err = the route failed before producing a value (text for the report).
fn run_route(route: &str, v: &Value) -> Result<Value, String> {
    if let Some((_, src)) = VRL_ROUTES.iter().find(|(n, _)| *n == route) {
        let d = depth(v).clamp(1, 128);
        let src = src.replace('D', &d.to_string());
        return match law::call(&src, law::ev1(v.clone())) {
            Outcome::Ok(x) => Ok(x),
            other => Err(other.show()),
        };
    }
    let e = |e: serde_json::Error| format!("serde error: {e}");
    match route {
        "serde:to_string/from_str" => serde_json::from_str::<Value>(&serde_json::to_string(v).map_err(e)?).map_err(e),
        "serde:to_string_pretty/from_str" => {
            serde_json::from_str::<Value>(&serde_json::to_string_pretty(v).map_err(e)?).map_err(e)
        }
        "serde:to_vec/from_slice" => serde_json::from_slice::<Value>(&serde_json::to_vec(v).map_err(e)?).map_err(e),
        "serde:to_vec_pretty/from_reader" => {
            let bytes = serde_json::to_vec_pretty(v).map_err(e)?;
            serde_json::from_reader::<_, Value>(std::io::Cursor::new(bytes)).map_err(e)
        }
        "serde:to_value/from_value" => serde_json::from_value::<Value>(serde_json::to_value(v).map_err(e)?).map_err(e),
        "serde:to_string/from_str-json-value/from" => {
            let j: serde_json::Value = serde_json::from_str(&serde_json::to_string(v).map_err(e)?).map_err(e)?;
            Ok(Value::from(j))
        }
        "serde:try_into-json-value/from" => {
            let j: serde_json::Value = TryInto::<serde_json::Value>::try_into(v.clone()).map_err(|x| x.to_string())?;
            Ok(Value::from(&j))
        }
        other => Err(format!("unknown route {other}")),
    }
}

// ---------------------------------------------------------------------------------------------
// values

fn deep_value(kind: &str, depth: usize, leaf: Value) -> Value {
    let mut v = leaf;
    for level in 0..depth {
        let as_array = match kind {
            "array" => true,
            "object" => false,
            _ => level % 2 == 0,
        };
        v = if as_array {
            Value::Array(vec![v])
        } else {
            Value::Object(BTreeMap::from([(KeyString::from("k"), v)]))
        };
    }
    v
}

fn witness_value(w: &J) -> Value {
    if let Some(kind) = w["deep"].as_str() {
        deep_value(kind, w["depth"].as_u64().unwrap_or(0) as usize, vv::dec(&w["leaf"]))
    } else {
        vv::dec(&w["value"])
    }
}

fn case(w: &J) -> CaseResult {
    let route = w["route"].as_str().unwrap_or("");
    let v = witness_value(w);
    let deep = !w["deep"].is_null();
    let family = if route.starts_with("vrl:") { "vrl" } else { "serde" };
    let clause = match (deep, family) {
        (true, "vrl") => "C21.vrl-roundtrip.deep-nesting",
        (true, _) => "C21.serde-roundtrip.deep-nesting",
        (false, "vrl") => "C21.vrl-roundtrip",
        (false, _) => "C21.serde-roundtrip",
    };
    // a mismatch that consists of a float coming back more than 1 ulp away gets its own clause
    let float_clause = if family == "vrl" { "C21.vrl-roundtrip.float-precision" } else { "C21.serde-roundtrip.float-precision" };
    match run_route(route, &v) {
        Err(msg) => CaseResult::trivial("route-failed").violation(Violation::new(
            clause,
            w.clone(),
            "the JSON text produced by the encoder is decoded back to the original value",
            msg,
        )),
        Ok(got) => {
            let mut c = Cmp::default();
            compare(&v, &got, "$", &mut c);
            let class = if c.mismatch.is_some() {
                "differs"
            } else if c.floats_inexact > 0 {
                "equal-within-1ulp"
            } else {
                "equal"
            };
            let mut r = CaseResult::ok(class)
                .count("roundtrips_run", 1)
                .count("floats_compared", c.floats)
                .count("floats_off_by_one_ulp", c.floats_inexact)
                .count("floats_off_by_two_ulp", c.floats_two_ulp)
                .count("floats_off_by_more_than_two_ulp", c.floats_more_ulp)
                .count("negative_zero_sign_lost", c.neg_zero_sign_lost);
            if let Some(m) = c.mismatch {
                let clause = if c.mismatch_is_float { float_clause } else { clause };
                r = r.violation(Violation::new(clause, w.clone(), format!("{} (floats within 1 ulp)", trunc(&vv::show(&v))), m));
            }
            r
        }
    }
}

fn trunc(s: &str) -> String {
    if s.chars().count() > 300 { format!("{}…", s.chars().take(300).collect::<String>()) } else { s.to_string() }
}

/// Characters at every branch of the JSON string escaper / unescaper: the two mandatory escapes,
/// the short escapes, all other C0 controls (\u00XX), DEL, '/', the characters JavaScript treats
/// specially, the BOM (stripped by parse_json at the start of the *text*), the last BMP code
/// points before and after the surrogate block, non-characters, astral code points, and ASCII
/// that looks like JSON syntax or like an escape sequence.
fn string_alphabet() -> Vec<String> {
    let mut v: Vec<String> = (0u32..0x20).filter_map(char::from_u32).map(|c| c.to_string()).collect();
    v.extend(
        [
            "\"", "\\", "/", " ", "a", "u", "n", "0", "1", "-", ".", "e", "{", "}", "[", "]", ":", ",", "'", "\u{7f}", "\u{80}", "\u{a0}",
            "é", "ß", "\u{7ff}", "\u{800}", "€", "\u{2028}", "\u{2029}", "\u{d7ff}", "\u{e000}", "\u{feff}", "\u{fffd}", "\u{fffe}",
            "\u{ffff}", "\u{10000}", "😀", "\u{10ffff}", "e\u{301}",
        ]
        .map(String::from),
    );
    v
}

fn special_strings() -> Vec<String> {
    let mut v: Vec<String> = [
        "", "null", "true", "false", "1", "-0", "1e5", "1.0", "NaN", "Infinity", "\\u0041", "\\n", "\\\\", "\\\"", "\"\"", "{\"a\":1}",
        "[1,2]", "\\ud83d\\ude00", "\\ud800", "a\\", "\\", "\\u", "\\u00", "/*c*/", "//", "</script>", "\u{feff}{}", "\u{feff}", " leading",
        "trailing ", "\t\n\r", "line1\nline2", "2021-01-01T00:00:00Z", "9223372036854775808", "-9223372036854775809", "1e400",
        "0.1", "$f", "$hex", "$ts",
    ]
    .map(String::from)
    .to_vec();
    v.push("x".repeat(1000));
    v.push("é😀\"\\\n".repeat(200));
    v.push((0u32..0x250).filter_map(char::from_u32).collect());
    v.push((0x1f600u32..0x1f650).filter_map(char::from_u32).collect());
    v
}

fn strings(tier: Tier) -> Vec<String> {
    let alpha = string_alphabet();
    let refs: Vec<&str> = alpha.iter().map(String::as_str).collect();
    let mut out = law::strings_over(&refs, 2);
    if tier.thorough() {
        let small: Vec<&str> = vec!["\"", "\\", "\n", "\u{0}", "\u{1f}", "u", "0", "é", "😀", "\u{feff}", "\u{2028}", "/"];
        out.extend(law::strings_over(&small, 4).into_iter().filter(|s| s.chars().count() > 2));
    } else {
        let small: Vec<&str> = vec![
            "\"", "\\", "\n", "\u{0}", "\u{1f}", "\u{7f}", "u", "0", "a", "/", "é", "€", "😀", "\u{feff}", "\u{2028}", "\u{d7ff}", "\u{ffff}",
            "\u{10ffff}",
        ];
        out.extend(law::strings_over(&small, 3).into_iter().filter(|s| s.chars().count() > 2));
    }
    out.extend(special_strings());
    let mut seen = std::collections::BTreeSet::new();
    out.retain(|s| seen.insert(s.clone()));
    out
}

fn integers() -> Vec<i64> {
    let mut v: Vec<i64> = vec![0, 1, -1, 9, 10, -10, 42, 255, 256, 65535, 65536, 1_000_000_007];
    for p in [7u32, 8, 15, 16, 31, 32, 52, 53, 54, 62] {
        let x = 1i64 << p;
        v.extend([x - 1, x, x + 1, -x - 1, -x, -x + 1]);
    }
    v.extend([i64::MAX, i64::MAX - 1, i64::MIN, i64::MIN + 1]);
    // powers of ten (digit-count boundaries of the integer printer / parser)
    let mut p = 1i64;
    for _ in 0..18 {
        p *= 10;
        v.extend([p - 1, p, -p, -p + 1]);
    }
    v.sort_unstable();
    v.dedup();
    v
}

fn named_floats() -> Vec<f64> {
    vec![
        0.0,
        -0.0,
        0.1,
        -0.1,
        0.5,
        1.0,
        -1.0,
        1.5,
        2.0,
        42.0,
        1.0 / 3.0,
        2.0 / 3.0,
        0.1 + 0.2,
        1e-7,
        1e-6,
        1e-5,
        1e15,
        1e16,
        1e17,
        1e21,
        1e22,
        1e23,
        1e100,
        1e300,
        1e-300,
        123_456_789.123_456_79,
        9_007_199_254_740_992.0,
        9_007_199_254_740_994.0,
        9_223_372_036_854_775_807.0,
        -9_223_372_036_854_775_808.0,
        18_446_744_073_709_551_615.0,
        1.8446744073709552e19,
        4_294_967_296.0,
        f64::MAX,
        f64::MIN,
        f64::MIN_POSITIVE,
        f64::EPSILON,
        5e-324,
        -5e-324,
        1e-323,
        2.225_073_858_507_201e-308,
        2.225_073_858_507_201_4e-308,
        1.797_693_134_862_315_7e308,
        8.41e21,
        7.205_759_403_792_794e16,
        9.5367431640625e-7,
        1.000_000_000_000_000_2,
        0.999_999_999_999_999_9,
        4.35,
        0.000_001_234_5,
        std::f64::consts::PI,
        std::f64::consts::E,
        299_792_458.0,
        6.022_140_76e23,
        6.626_070_15e-34,
        1.448_997_445_238_699,
        3.14e-310,
        9.881_312_916_824_931e-324,
    ]
}

/// A deterministic sweep through the float format: every binary exponent (every 8th in the quick
/// tier is replaced by *all* in the thorough tier) with edge and pseudo-random significands, both signs.
fn swept_floats(tier: Tier) -> Vec<f64> {
    let mut out = Vec::new();
    let step = if tier.thorough() { 1 } else { 3 };
    let mut x: u64 = 0x9E37_79B9_7F4A_7C15;
    for exp in (0u64..=2046).step_by(step) {
        let mut mants = vec![0u64, 1, (1 << 52) - 1, 1 << 51, 0x5_5555_5555_5555];
        for _ in 0..(if tier.thorough() { 6 } else { 3 }) {
            x = x.wrapping_mul(6364136223846793005).wrapping_add(1442695040888963407);
            mants.push((x >> 12) & ((1 << 52) - 1));
        }
        for m in mants {
            let bits = (exp << 52) | m;
            let f = f64::from_bits(bits);
            if f.is_finite() {
                out.push(f);
                if (exp + m) % 2 == 0 {
                    out.push(-f);
                }
            }
        }
    }
    // short decimal numbers d.ddd × 10^k — the shortest-digits printer and the fast parser path
    for k in -30i32..=30 {
        for digits in [1u64, 2, 5, 9, 15, 17, 25, 99, 123, 1234567, 9007199254740993] {
            out.push(digits as f64 * 10f64.powi(k));
        }
    }
    out
}

fn composite_values(tier: Tier) -> Vec<Value> {
    use vv::{arr, f, i, obj, s};
    let leaves: Vec<Value> = vec![
        Value::Null,
        Value::Boolean(true),
        Value::Boolean(false),
        i(0),
        i(-1),
        i(i64::MAX),
        i(i64::MIN),
        f(0.1),
        f(-0.0),
        f(1e21),
        f(5e-324),
        f(1.0),
        s(""),
        s("a"),
        s("\"\\\n\u{0}"),
        s("é😀\u{2028}"),
    ];
    let keys = ["", "a", "b", "\"", "\\", "\n", "\u{0}", "é", "😀", "a.b", "k\"e\\y", "\u{feff}", "1", " "];
    let mut level1: Vec<Value> = vec![arr(&[]), obj(&[])];
    for x in &leaves {
        level1.push(arr(&[x.clone()]));
        for k in keys {
            level1.push(obj(&[(k, x.clone())]));
        }
    }
    for (n, x) in leaves.iter().enumerate() {
        let y = &leaves[(n * 7 + 3) % leaves.len()];
        let z = &leaves[(n * 5 + 1) % leaves.len()];
        level1.push(arr(&[x.clone(), y.clone()]));
        level1.push(arr(&[x.clone(), y.clone(), z.clone()]));
        level1.push(obj(&[("a", x.clone()), ("b", y.clone())]));
        level1.push(obj(&[("", x.clone()), ("\"", y.clone()), ("é", z.clone())]));
    }
    // all leaves at once, and every key at once
    level1.push(Value::Array(leaves.clone()));
    level1.push(Value::Object(keys.iter().enumerate().map(|(n, k)| (KeyString::from(*k), leaves[n % leaves.len()].clone())).collect()));

    // level 2 and 3: containers of containers (strided so that the product stays bounded)
    let mut out = level1.clone();
    let stride1 = if tier.thorough() { 1 } else { 3 };
    let sub1: Vec<&Value> = level1.iter().step_by(stride1).collect();
    let mut level2 = Vec::new();
    for (n, x) in sub1.iter().enumerate() {
        let y = sub1[(n * 11 + 5) % sub1.len()];
        level2.push(arr(&[(*x).clone()]));
        level2.push(obj(&[("k", (*x).clone())]));
        level2.push(arr(&[(*x).clone(), y.clone(), Value::Null]));
        level2.push(obj(&[("a", (*x).clone()), ("b\n", y.clone()), ("c", i(7))]));
    }
    out.extend(level2.iter().cloned());
    let stride2 = if tier.thorough() { 2 } else { 9 };
    let sub2: Vec<&Value> = level2.iter().step_by(stride2).collect();
    for (n, x) in sub2.iter().enumerate() {
        let y = sub2[(n * 13 + 7) % sub2.len()];
        out.push(arr(&[(*x).clone(), y.clone()]));
        out.push(obj(&[("x", (*x).clone()), ("", y.clone())]));
        out.push(arr(&[arr(&[(*x).clone()])]));
        out.push(obj(&[("p", obj(&[("q", y.clone())]))]));
    }
    // wide containers
    out.push(Value::Array((0..1000).map(i).collect()));
    out.push(Value::Object((0..500).map(|n| (KeyString::from(format!("key{n}")), f(n as f64 / 7.0))).collect()));
    out
}

/// Values run through every route.
fn values(tier: Tier) -> Vec<Value> {
    let mut out: Vec<Value> = vec![Value::Null, Value::Boolean(true), Value::Boolean(false)];
    out.extend(integers().into_iter().map(Value::Integer));
    out.extend(named_floats().into_iter().filter(|x| x.is_finite()).map(vv::f));
    let strs = strings(tier);
    out.extend(strs.iter().map(|s| vv::s(s)));
    // every string also as an object key and as an array element next to a sibling
    for s in &strs {
        out.push(Value::Object(BTreeMap::from([(KeyString::from(s.as_str()), Value::Integer(1))])));
    }
    for s in strs.iter().step_by(if tier.thorough() { 1 } else { 4 }) {
        out.push(Value::Array(vec![vv::s(s), Value::Null, vv::s(s)]));
    }
    out.extend(composite_values(tier));
    out
}

/// The float sweep: number printing / parsing is the same code on every route (serde_json), so
/// these run through one route per decoder entry point only.
const SWEEP_ROUTES: &[&str] = &[
    "vrl:compact",
    "vrl:pretty/max-depth-exact/lossy-false",
    "serde:to_string/from_str",
    "serde:to_vec_pretty/from_reader",
    "serde:to_value/from_value",
    "serde:try_into-json-value/from",
];

fn sweep_values(tier: Tier) -> Vec<Value> {
    let mut out: Vec<Value> = swept_floats(tier).into_iter().filter(|x| x.is_finite()).map(vv::f).collect();
    // floats inside containers (array element, object member)
    let n = out.len();
    for k in (0..n).step_by(if tier.thorough() { 5 } else { 25 }) {
        out.push(Value::Array(vec![out[k].clone(), out[(k * 7 + 1) % n].clone()]));
        out.push(Value::Object(BTreeMap::from([(KeyString::from("f"), out[k].clone())])));
    }
    out
}

fn deep_cases(tier: Tier) -> Vec<J> {
    let mut out = Vec::new();
    let mut depths = vec![1usize, 2, 3, 16, 64, 126, 127, 128, 129, 1000];
    if tier.thorough() {
        depths.extend([100, 125, 130, 255, 256, 300, 3000]);
    }
    let routes = [
        "vrl:compact",
        "vrl:pretty",
        "vrl:compact/max-depth-exact",
        "serde:to_string/from_str",
        "serde:to_value/from_value",
        "serde:try_into-json-value/from",
    ];
    for d in depths {
        for kind in ["array", "object", "mixed"] {
            for leaf in [json!(1), json!([])] {
                for route in routes {
                    // max_depth can name at most 128 layers: deeper values are outside what the option can express
                    let total = d + usize::from(leaf.is_array());
                    if route.contains("max-depth") && total > 128 {
                        continue;
                    }
                    out.push(json!({"deep": kind, "depth": d, "leaf": leaf, "route": route}));
                }
            }
        }
    }
    out
}

pub fn run(tier: Tier) -> Report {
    let mut rep = Report::new("C21", tier, "exploration");
    rep.set(
        "rule",
        "values x routes. Values: null/booleans; integers at every power-of-two and power-of-ten boundary incl. i64 extremes; ~60 named hard floats; all strings of length <= 2 over a 73-character escape/Unicode alphabet, length 3 over an 18-character one, syntax/escape look-alikes, each also as object key and array element; containers of depth 1-3 over 16 leaves x 14 keys; wide containers — each through all 20 routes (13 spellings of parse_json(encode_json(.)): pretty, lossy, max_depth >= depth; 7 serde_json entry points on `Value`). Float sweep (every 3rd binary exponent x 8 significands x sign, short decimals x 10^-30..30, also inside containers) through 6 routes. Nesting depth 1..1000 (array/object/mixed) through 6 routes. A case is non-trivial when the route produced a value that was compared; distinct = distinct witness.",
    );
    rep.assume("oracle = structural equality with the original; Integer vs Float, key sets, order of array items, string bytes exact; floats within 1 ulp (counted when inexact); the sign of zero is not judged (counted)");
    rep.assume("max_depth: a value whose container nesting is <= max_depth is parsed completely (documented: 'number of layers to parse'); max_depth smaller than the nesting is not exercised");
    rep.assume("the JSON text itself (spacing, escapes chosen, key order) is not judged");

    let vals = values(tier);
    let routes = all_routes();
    rep.set("values", vals.len() as u64);
    rep.set("routes", routes.len() as u64);
    let dims = [routes.len() as u64, vals.len() as u64];
    law::drive_indexed(
        &mut rep,
        "values-x-routes",
        dims[0] * dims[1],
        |i| {
            let ix = unrank(i, &dims);
            json!({"value": vv::enc(&vals[ix[1]]), "route": routes[ix[0]]})
        },
        case,
    );
    let sweep = sweep_values(tier);
    rep.set("sweep_values", sweep.len() as u64);
    let sdims = [SWEEP_ROUTES.len() as u64, sweep.len() as u64];
    law::drive_indexed(
        &mut rep,
        "float-sweep-x-routes",
        sdims[0] * sdims[1],
        |i| {
            let ix = unrank(i, &sdims);
            json!({"value": vv::enc(&sweep[ix[1]]), "route": SWEEP_ROUTES[ix[0]]})
        },
        case,
    );
    let deep = deep_cases(tier);
    law::drive(&mut rep, "deep-nesting", &deep, case);
    rep
}

pub fn replay(_property: &str, w: &J) -> Vec<Violation> {
    case(w).violations
}
