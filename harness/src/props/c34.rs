//! C34 — unused-expression warnings only flag removable code.
//!
//! Programs are enumerated from a small grammar: shape × context × candidate expression, where the
//! candidates are literals, objects, arrays and calls of pure functions whose operands range over
//! pure and side-effecting sub-expressions (`del`, event / metadata / variable assignments inside
//! argument blocks, abort-on-error calls, `abort`), and the contexts put the candidate at every
//! position `AstVisitor` distinguishes (root / block non-last / block last / if branch / closure
//! body / array element / group / argument block / object value / `??` block / predicate).
//!
//! For every accepted program and every warning `unused literal|object|result …` (never
//! `unused variable`) the flagged span is DELETED from the text (blank the span; or the span and
//! an adjacent `;`/`,`); the first edit the compiler accepts is the edited program. Original and
//! edited program are run on every event of a fixed list and compared:
//!   * flagged text cannot fail (no `!(`, `abort`, `return` in it): same success/failure, and on
//!     success the same final event and metadata;
//!   * flagged text can fail: whenever the original run succeeds the edited run succeeds with the
//!     same final event and metadata (clause prefix `fallible`, or `handled` when a `??` / `err =`
//!     handler may enclose the flagged expression, i.e. its failure can be part of a successful run).
//! Where no deletion parses (operands of operators, `!x`, groups) the case is counted as not
//! removable and not judged; a `null`-replacement probe is run there for information only.

use crate::law::{self, CaseResult};
use crate::report::{Report, Tier, Violation};
use crate::util::guarded;
use crate::vrlx::{self, Outcome};
use crate::vv;
use serde_json::{Value as J, json};
use std::collections::BTreeSet;
use std::sync::Mutex;
use vrl::compiler::state::ExternalEnv;
use vrl::compiler::{CompileConfig, Function, Program};
use vrl::diagnostic::DiagnosticList;
use vrl::value::Value;

// ---------------------------------------------------------------------------------------------
// grammar

/// Operand expressions (all usable where an arithmetic expression is expected).
const OPERANDS: &[&str] = &[
    // pure
    ".s",
    "\"lit\"",
    "7",
    "{ y = 2; y }",
    // event side effects
    "del(.a)",
    "{ .b = 2 }",
    "{ .a = \"1\"; \"x\" }",
    "{ del(.s); 3 }",
    "(.b = 2)",
    "{ .arr[0] = 9 }",
    "{ . = {\"w\": 1} }",
    "{ . |= {\"w\": 1} }",
    // metadata side effects
    "{ %m = 2 }",
    "del(%m)",
    // variable side effects (x is defined by shape s2 only)
    "{ x = 1 }",
    "{ x.k = 1 }",
    // can fail
    "to_int!(.s)",
    "{ .b = 2; to_int!(.s) }",
    "{ if .c == true { abort }; 1 }",
    "{ .b = 2; assert!(.c == true); 1 }",
    // side-effect functions (never flagged themselves)
    "log(\"m\")",
    "{ log(\"m\"); 1 }",
];

/// Wrappers that turn an operand `§` into an expression of a kind the checker flags.
const WRAPPERS: &[&str] = &[
    "§",
    "is_null(§)",
    "encode_json(§)",
    "upcase(encode_json(§))",
    "encode_json([§, 1])",
    "string!(§)",
    "[§]",
    "[1, §]",
    "{\"k\": §}",
    "{\"k\": [§]}",
    "{\"k\": {\"j\": §}}",
    "{\"k\": 1, \"j\": encode_json(§)}",
    "merge({\"k\": 1}, {\"j\": §}).k",
    "!is_null(§)",
    "is_null(§) || true",
    "encode_json(§) + \"t\"",
    "is_null(value: §)",
];

/// Candidates that are not wrapper(operand) products.
const EXTRA_CANDIDATES: &[&str] = &[
    "1",
    "1.5",
    "true",
    "null",
    "\"x\"",
    "\"x{{ x }}\"",
    "s'raw'",
    "r'a+'",
    "t'2021-01-01T00:00:00Z'",
    "{}",
    "[]",
    "now()",
    "uuid_v4()",
    "random_bool()",
    "upcase!(.s)",
    "to_int(.s)",
    "parse_json(.s)",
    "upcase(\"a\")",
    "to_int(.s) ?? 0",
    "parse_json!(.s).a",
    "exists(.a)",
    "del(.a)",
    "del(.a, compact: true)",
    "log(.a)",
    "assert!(.c == true)",
    "assert_eq!(.c, true)",
    "x",
    ".a",
    ".a = 5",
    "x = 5",
    "abort",
    "if .c == true { 5 } else { del(.a) }",
    "if is_null(del(.a)) { .z = 1 }",
    "for_each([1]) -> |_i, _v| { 5 }",
    "filter([1, 2]) -> |_i, v| { .f = v; true }",
];

/// Contexts: where the candidate `§` sits (every `VisitorState` situation of the checker).
const CONTEXTS: &[&str] = &[
    "§",
    "{ §; .z = 1 }",
    "{\n  §\n  .z = 1\n}",
    "{ .z = 1; § }",
    "{ § }",
    "if .c == true { §; .z = 1 }",
    "if .c == true { .z = 1 } else { §; .y = 2 }",
    "if .c == true { § }",
    "if .c == true { .z = 1; § } else { .y = 2 }",
    ".r = { §; 7 }",
    ".r = { §; \"used\" }",
    ".r = if .c == true { §; 7 } else { 8 }",
    ".r = if .c == true { §; upcase(\"u\") } else { {\"o\": 1} }",
    ".r = map_values({\"k\": 1}) -> |_v| { §; 2 }",
    ".r, err = { §; to_int(.s) }",
    "for_each([1, 2]) -> |_i, _v| { §; .n = 1 }",
    ".r = map_values({\"k\": 1}) -> |v| { §; v }",
    "[§, 1]",
    "[1, §]",
    "(§)",
    ".r = [{ §; 1 }]",
    ".r = encode_json({ §; \"s\" })",
    ".r = { §; to_int(.s) } ?? 0",
    "{\"k\": { §; 1 }}",
    "if (§; .c == true) { .z = 1 }",
    "{ { §; .y = 1 }; .z = 1 }",
    ".r = .c == true || { §; false }",
    "{ .z = 1; { § } }",
    "{ upcase(\"a\"); §; .z = 1 }",
    "{ { .y = 1 }; §; .z = 1 }",
    ".r = 1\n§\n.q = 2",
];

/// Program shapes; `¶` is the context instance.
const SHAPES: &[&str] = &["¶\n.", "x = 0\n¶\n.rx = x", "¶", ".p = 1; ¶; .q = .a"];

/// Programs of vrl's own checker tests plus hand-written ones (regression seeds).
const SEEDS: &[&str] = &[
    "upcase({ .a = \"1\"; \"x\" }); .",
    "\"foo\"\n\"program result\"",
    ". = {\n  \"unused\"\n  \"a\"\n}",
    ". = {\n \"1\"\n {\n  \"2\"\n  {\n   \"3\"\n  }\n }\n . = {{{ x = 42; x }}}\n \"4\"\n \"5\"\n}",
    ".o = { \"key\": 1 }\n{ \"array\": [{\"a\": \"b\"}], \"b\": 2}\n\"program result\"",
    ".r = 1\nrandom_bool()\n\"program result\"",
    "x = {}\nx.foo = 1\n.r = slice!([0, 1, 2], {x.foo}, x.foo + 1)\nx.bar = 2\nexists(field: x.bar)\ndel(x.bar, compact: false)",
    "{\n  parse_json(\"invalid\")\n  2\n} ?? 1",
    "x = {\"a\": 1}\nis_null(del(x.a))\n.r = x",
    "x = 0\nencode_json([x = 1])\n.r = x",
    "{\"k\": del(.a)}\n.",
    "{\"k\": (.b = 2)}; .",
    "[del(.a), 1]; .",
    "is_null(del(.a)); .",
    "%m = 1\nis_null(del(%m))\n.",
];

fn candidates() -> Vec<String> {
    let mut out: Vec<String> = Vec::new();
    for w in WRAPPERS {
        for o in OPERANDS {
            out.push(w.replace('§', o));
        }
    }
    out.extend(EXTRA_CANDIDATES.iter().map(|s| (*s).to_string()));
    let mut seen = BTreeSet::new();
    out.retain(|c| seen.insert(c.clone()));
    out
}

/// Reduced sets for the two-hole programs of the thorough tier.
const SMALL_CANDIDATES: &[&str] = &[
    "\"x\"",
    "is_null(del(.a))",
    "encode_json({ .b = 2 })",
    "{\"k\": del(.a)}",
    "[{ x = 1 }]",
    "upcase!(.s)",
    "string!({ .b = 2; to_int!(.s) })",
    "is_null({ %m = 2 })",
    "del(.a)",
    ".a = 5",
    "upcase(\"a\")",
    "encode_json({ x = 1 })",
];
const SMALL_CONTEXTS: &[&str] = &[
    "§",
    "{ §; .z = 1 }",
    "{ .z = 1; § }",
    "if .c == true { §; .z = 1 }",
    ".r = { §; 7 }",
    "for_each([1, 2]) -> |_i, _v| { §; .n = 1 }",
    ".r = encode_json({ §; \"s\" })",
    "[§, 1]",
];

// ---------------------------------------------------------------------------------------------
// events

fn events(tier: Tier) -> Vec<(Value, Value)> {
    use vv::{arr, i, obj, s};
    let t = Value::Boolean(true);
    let f = Value::Boolean(false);
    let mut v = vec![
        (obj(&[]), obj(&[])),
        (
            obj(&[("a", i(1)), ("b", s("b0")), ("s", s("5")), ("c", t.clone()), ("arr", arr(&[i(1), i(2)]))]),
            obj(&[("m", i(1))]),
        ),
        (obj(&[("a", s("x")), ("s", s("abc")), ("c", f.clone())]), obj(&[])),
        (obj(&[("s", i(7)), ("c", t.clone())]), obj(&[("m", s("v"))])),
        (obj(&[("a", Value::Null), ("b", i(2)), ("s", s("x")), ("c", t.clone()), ("z", i(0))]), obj(&[])),
        (obj(&[("a", obj(&[("k", i(1))])), ("s", s("12")), ("c", f.clone()), ("arr", arr(&[]))]), obj(&[("m", i(1))])),
    ];
    if tier.thorough() {
        v.push((obj(&[("a", i(1)), ("s", s("{\"a\": 3}")), ("c", t.clone())]), obj(&[("m", i(2))])));
        v.push((obj(&[("b", i(2)), ("w", i(1)), ("s", s("")), ("c", f)]), obj(&[])));
        v.push((obj(&[("a", arr(&[i(1)])), ("arr", s("notarray")), ("s", Value::Null), ("c", Value::Null)]), obj(&[("m", Value::Null)])));
    }
    v
}

// ---------------------------------------------------------------------------------------------
// running

thread_local! {
    static FNS: Vec<Box<dyn Function>> = vrlx::fns();
}

static NULLIFY_SAMPLES: Mutex<BTreeSet<String>> = Mutex::new(BTreeSet::new());
static RESULT_SAMPLES: Mutex<BTreeSet<String>> = Mutex::new(BTreeSet::new());

fn compile(src: &str) -> Option<(Program, DiagnosticList)> {
    FNS.with(|fns| {
        match guarded(|| vrlx::compile_ext(src, fns, &ExternalEnv::default(), CompileConfig::default())) {
            Ok(Ok(r)) => Some((r.program, r.warnings)),
            _ => None,
        }
    })
}

struct Run {
    outcome: Outcome,
    event: Value,
    metadata: Value,
    secrets: String,
}

fn exec(p: &Program, ev: &(Value, Value)) -> Run {
    let mut t = vrlx::target(ev.0.clone(), ev.1.clone());
    let tz = vrlx::utc();
    let outcome = match guarded(|| vrlx::run_runtime(p, &mut t, &tz)) {
        Ok(o) => o,
        Err(p) => Outcome::Other(format!("panic: {p}")),
    };
    Run { outcome, event: t.value, metadata: t.metadata, secrets: format!("{:?}", t.secrets) }
}

/// The deletion edits of span `s..e`, most literal first. Deleted text is overwritten with spaces
/// (same byte length), so every remaining expression keeps its position: runtime error messages
/// quote source positions, and they must not differ between the two programs.
fn deletions(src: &str, s: usize, e: usize) -> Vec<String> {
    let blank = |from: usize, to: usize| format!("{}{}{}", &src[..from], " ".repeat(to - from), &src[to..]);
    let mut v = vec![blank(s, e)];
    let rest = &src[e..];
    let t = rest.trim_start_matches([' ', '\t']);
    if t.starts_with(';') || t.starts_with(',') {
        v.push(blank(s, e + (rest.len() - t.len()) + 1));
    }
    let head = src[..s].trim_end_matches([' ', '\t']);
    if head.ends_with(',') || head.ends_with(';') {
        v.push(blank(head.len() - 1, e));
    }
    v
}

fn kind_of(message: &str) -> Option<&'static str> {
    if message.starts_with("unused variable") {
        None
    } else if message.starts_with("unused literal") {
        Some("literal")
    } else if message.starts_with("unused object") {
        Some("object")
    } else if message.starts_with("unused result for function call") {
        Some("call")
    } else {
        Some("other")
    }
}

fn verbose() -> bool {
    std::env::var("VRLMC_VERBOSE").is_ok()
}

const UNUSED_CODE: usize = 900;

fn case_with(w: &J, evs: &[(Value, Value)]) -> CaseResult {
    let src = w["src"].as_str().expect("src");
    let only_span = w.get("span").and_then(J::as_array).map(|a| (a[0].as_u64().unwrap() as usize, a[1].as_u64().unwrap() as usize));
    let only_event: Option<Vec<(Value, Value)>> =
        w.get("event").map(|e| vec![(vv::dec(e), vv::dec(w.get("metadata").unwrap_or(&J::Null)))]);
    let evs: &[(Value, Value)] = only_event.as_deref().unwrap_or(evs);

    let Some((prog, warnings)) = compile(src) else {
        if verbose() {
            eprintln!("rejected: {}", law::why_rejected(src));
        }
        return CaseResult::trivial("program-rejected").count("programs_rejected", 1);
    };
    let mut res = CaseResult::trivial("no-unused-expression-warning").count("programs_accepted", 1);
    let mut flagged: Vec<(&'static str, usize, usize)> = Vec::new();
    for d in warnings.iter() {
        if d.code != UNUSED_CODE {
            continue;
        }
        let Some(kind) = kind_of(&d.message) else {
            res.counters.push(("unused_variable_warnings", 1));
            continue;
        };
        let Some(l) = d.labels.first() else { continue };
        let (s, e) = (l.span.start(), l.span.end());
        if s >= e || e > src.len() || !src.is_char_boundary(s) || !src.is_char_boundary(e) {
            res.counters.push(("flagged_with_unusable_span", 1));
            continue;
        }
        if verbose() {
            eprintln!("flagged {kind} {s}..{e} `{}`: {}", &src[s..e], d.message);
        }
        flagged.push((kind, s, e));
    }
    if flagged.is_empty() {
        return res;
    }
    res.counters.push(("programs_with_flagged_expression", 1));
    let base: Vec<Run> = evs.iter().map(|ev| exec(&prog, ev)).collect();
    let mut classes: BTreeSet<&'static str> = BTreeSet::new();

    for (kind, s, e) in flagged {
        if only_span.is_some_and(|sp| sp != (s, e)) {
            continue;
        }
        res.counters.push(("flagged_expressions", 1));
        res.counters.push((
            match kind {
                "literal" => "flagged_literal",
                "object" => "flagged_object",
                "call" => "flagged_call",
                _ => "flagged_other",
            },
            1,
        ));
        let text = &src[s..e];
        // over-approximation of "can fail": abort-on-error calls, abort/return, template strings
        // (typed fallible unless every variable is a string), and anything that sits in front of a
        // `??` or inside an `ok, err = …` assignment (its enclosing block may be the handled one)
        let handled = src[e..].contains("??") || src[..s].contains("err =");
        let can_fail =
            handled || text.contains("!(") || text.contains("abort") || text.contains("return") || text.contains("{{");
        res.counters.push((if can_fail { "flagged_can_fail" } else { "flagged_cannot_fail" }, 1));

        let edited = deletions(src, s, e).into_iter().find_map(|t| compile(&t).map(|(p, _)| (t, p)));
        let Some((edited_src, edited)) = edited else {
            res.counters.push(("not_removable", 1));
            classes.insert("not-removable");
            // Information only: the warning says the result is unused and the expression has no
            // side effects, so a `null` in its place should behave the same.
            let nulled = format!("{}null{}", &src[..s], &src[e..]);
            if let Some((np, _)) = compile(&nulled) {
                res.counters.push(("nullify_probes", 1));
                let differs = evs.iter().zip(&base).any(|(ev, b)| {
                    let r = exec(&np, ev);
                    r.outcome.success() != b.outcome.success()
                        || (r.outcome.success() && (r.event != b.event || r.metadata != b.metadata))
                });
                if differs {
                    res.counters.push(("nullify_probe_differs", 1));
                    if let Ok(mut g) = NULLIFY_SAMPLES.lock() {
                        if g.len() < 100_000 {
                            g.insert(format!("{src:?} span {s}..{e}"));
                        }
                    }
                }
            }
            continue;
        };
        if verbose() {
            eprintln!("edited program: {edited_src:?}");
        }
        res.counters.push(("edited_programs", 1));
        res.nontrivial = true;
        let mut reported: BTreeSet<String> = BTreeSet::new();
        let mut any_diff = false;
        for (ev, b) in evs.iter().zip(&base) {
            let r = exec(&edited, ev);
            res.counters.push(("run_pairs", 1));
            if law::is_panic(&b.outcome) || law::is_panic(&r.outcome) {
                res.counters.push(("run_panicked", 1));
                continue;
            }
            let (ok0, ok1) = (b.outcome.success(), r.outcome.success());
            res.counters.push((
                match (ok0, ok1) {
                    (true, true) => "both_succeed",
                    (false, false) => "both_fail",
                    (true, false) => "only_original_succeeds",
                    (false, true) => "only_edited_succeeds",
                },
                1,
            ));
            let mut clause: Option<(&str, String, String)> = None;
            if ok0 && ok1 {
                if b.event != r.event || b.metadata != r.metadata {
                    clause = Some((
                        if handled {
                            "handled.event-changed"
                        } else if can_fail {
                            "fallible.event-changed"
                        } else {
                            "infallible.event-changed"
                        },
                        format!("final event {} metadata {}", vv::show(&b.event), vv::show(&b.metadata)),
                        format!("after deleting `{text}`: event {} metadata {}", vv::show(&r.event), vv::show(&r.metadata)),
                    ));
                } else {
                    if b.secrets != r.secrets {
                        res.counters.push(("secrets_differ", 1));
                    }
                    if b.outcome != r.outcome {
                        res.counters.push(("result_value_differs", 1));
                        if let Ok(mut g) = RESULT_SAMPLES.lock() {
                            if g.len() < 100_000 {
                                g.insert(format!("{src:?} span {s}..{e}"));
                            }
                        }
                    }
                }
            } else if ok0 != ok1 {
                if !can_fail {
                    clause = Some((
                        "infallible.success-changed",
                        format!("original: {}", b.outcome.show()),
                        format!("after deleting `{text}`: {}", r.outcome.show()),
                    ));
                } else if ok0 {
                    clause = Some((
                        if handled { "handled.success-lost" } else { "fallible.success-lost" },
                        format!("original succeeds: event {} metadata {}", vv::show(&b.event), vv::show(&b.metadata)),
                        format!("after deleting `{text}`: {}", r.outcome.show()),
                    ));
                } else {
                    res.counters.push(("fallible_expression_failure_removed", 1));
                }
            } else if b.event != r.event || b.metadata != r.metadata {
                res.counters.push(("event_differs_on_failed_runs", 1));
            }
            if let Some((c, expected, observed)) = clause {
                any_diff = true;
                let clause = format!("C34.{c}.{kind}");
                // one witness per (program, span, clause): the first event of the list showing it
                if reported.insert(clause.clone()) {
                    res.violations.push(Violation::new(
                        &clause,
                        json!({"src": src, "span": [s, e], "event": vv::enc(&ev.0), "metadata": vv::enc(&ev.1)}),
                        expected,
                        observed,
                    ));
                }
            }
        }
        classes.insert(if any_diff { "deletion-changes-behaviour" } else { "deletion-neutral" });
    }
    res.class = classes.into_iter().collect::<Vec<_>>().join("+");
    if res.class.is_empty() {
        res.class = "flagged-not-selected".into();
    }
    res
}

// ---------------------------------------------------------------------------------------------

pub fn run_check(tier: Tier) -> Report {
    let mut rep = Report::new("C34", tier, "exploration");
    rep.set(
        "rule",
        "cases = programs shape(context(candidate)): candidates = wrappers × operands + extras; every accepted program's \
         unused-literal/object/result warnings are each turned into a deletion edit (span, or span + adjacent ';'/','; first \
         edit that compiles) and original vs. edited program are run on every event of the fixed list. A case is non-trivial \
         when at least one flagged expression could be deleted and both programs were run; distinct = distinct program texts.",
    );
    rep.assume("'cannot fail' is decided textually: the flagged span has no `!(`, `abort`, `return`, `{{` and no `??` follows it / no `err =` precedes it in the program (over-approximates 'can fail')");
    rep.assume("an edit is a deletion only; where no deletion parses the warning is counted (not_removable) and a null-replacement probe is reported as a counter, not judged");
    rep.assume("secrets and the program's result value are compared for information only (counters), the property names event and metadata");
    rep.assume("every part of a program outside the flagged expressions is deterministic (now/uuid_v4/random_bool occur only as flagged candidates whose value is discarded)");
    rep.assume("on runs where both programs fail the (partial) event is not judged");
    let evs = events(tier);
    rep.set("events", evs.len() as u64);

    let cands = candidates();
    rep.set("candidates", cands.len() as u64);
    rep.set("contexts", CONTEXTS.len() as u64);
    rep.set("shapes", SHAPES.len() as u64);

    let seeds: Vec<J> = SEEDS.iter().map(|s| json!({"src": s})).collect();
    law::drive(&mut rep, "seeds", &seeds, |w| case_with(w, &evs));

    let dims = [cands.len() as u64, CONTEXTS.len() as u64, SHAPES.len() as u64];
    law::drive_indexed(
        &mut rep,
        "one-hole",
        crate::util::product(&dims),
        |i| {
            let ix = crate::util::unrank(i, &dims);
            let c = CONTEXTS[ix[1]].replace('§', &cands[ix[0]]);
            json!({"src": SHAPES[ix[2]].replace('¶', &c)})
        },
        |w| case_with(w, &evs),
    );

    if tier.thorough() {
        let n = (SMALL_CANDIDATES.len() * SMALL_CONTEXTS.len()) as u64;
        let stmt = |k: u64| {
            SMALL_CONTEXTS[(k as usize) / SMALL_CANDIDATES.len()].replace('§', SMALL_CANDIDATES[(k as usize) % SMALL_CANDIDATES.len()])
        };
        law::drive_indexed(
            &mut rep,
            "two-holes",
            n * n * 2,
            |i| {
                let (a, b, sh) = (i % n, (i / n) % n, i / (n * n));
                let body = format!("{}\n{}", stmt(a), stmt(b));
                json!({"src": if sh == 0 { format!("{body}\n.") } else { format!("x = 0\n{body}\n.rx = x") }})
            },
            |w| case_with(w, &evs),
        );
        // nesting: a context inside a context
        let mid: Vec<&str> = SMALL_CANDIDATES.iter().chain(EXTRA_CANDIDATES.iter()).copied().collect();
        let nn = (CONTEXTS.len() * CONTEXTS.len() * mid.len()) as u64;
        law::drive_indexed(
            &mut rep,
            "nested-contexts",
            nn,
            |i| {
                let ix = crate::util::unrank(i, &[mid.len() as u64, CONTEXTS.len() as u64, CONTEXTS.len() as u64]);
                let inner = CONTEXTS[ix[1]].replace('§', mid[ix[0]]);
                let outer = CONTEXTS[ix[2]].replace('§', &inner);
                json!({"src": format!("x = 0\n{outer}\n.rx = x")})
            },
            |w| case_with(w, &evs),
        );
    }
    if let Ok(g) = RESULT_SAMPLES.lock() {
        rep.set("result_value_differs_distinct", g.len() as u64);
        for s in g.iter().take(8) {
            rep.notes.push(format!("program result differs after deletion, event and metadata equal (information only): {s}"));
        }
    }
    if let Ok(g) = NULLIFY_SAMPLES.lock() {
        rep.set("nullify_probe_differs_distinct", g.len() as u64);
        for s in g.iter().take(12) {
            rep.notes.push(format!("null-replacement probe differs (information only): {s}"));
        }
    }
    rep
}

pub fn run(tier: Tier) -> Report {
    run_check(tier)
}

pub fn replay(_property: &str, w: &J) -> Vec<Violation> {
    // a recorded witness carries its own event; a bare {"src"} witness uses the thorough list
    case_with(w, &events(Tier::Thorough)).violations
}
