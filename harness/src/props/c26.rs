//! C26 — `parse_proto(encode_proto(v)) == v` (modulo fields holding the proto3 default) for every
//! message type of every descriptor set shipped under `/repo/tests/data/protobuf`.
//!
//! The descriptor sets are read at run time with a ~60-line protobuf wire reader (a
//! `FileDescriptorSet` is itself a protobuf message), so the check follows the tree: a new
//! `.desc` file or message type is enumerated automatically. Values are generated from per-type
//! alphabets (range edges, varint length boundaries, multi-byte / NUL / non-UTF-8 payloads, every
//! enum name, every map-key type with its extremes, repeated fields holding defaults, nested and
//! empty messages) and run AS A USER DOES:
//! `encode_proto!(.a, "<desc>", "<type>"[, allow_lossy_string_coercion: b])` then
//! `parse_proto!(.a, "<desc>", "<type>")`.

use crate::law::{self, CaseResult};
use crate::report::{Report, Tier, Violation};
use crate::vrlx::Outcome;
use crate::vv;
use serde_json::{Value as J, json};
use std::collections::BTreeMap;
use std::path::{Path, PathBuf};
use std::sync::LazyLock;
use vrl::value::{KeyString, Value};

const DATA_DIR: &str = "/repo/tests/data/protobuf";

// ------------------------------------------------------------------ minimal descriptor reader

enum Wv<'a> {
    Varint(u64),
    Len(&'a [u8]),
    Fixed,
}

fn wire(b: &[u8]) -> Vec<(u32, Wv<'_>)> {
    fn varint(b: &[u8], pos: &mut usize) -> u64 {
        let (mut v, mut shift) = (0u64, 0);
        loop {
            let byte = b[*pos];
            *pos += 1;
            v |= u64::from(byte & 0x7f) << shift;
            if byte & 0x80 == 0 {
                return v;
            }
            shift += 7;
        }
    }
    let mut pos = 0;
    let mut out = Vec::new();
    while pos < b.len() {
        let key = varint(b, &mut pos);
        let num = (key >> 3) as u32;
        match key & 7 {
            0 => out.push((num, Wv::Varint(varint(b, &mut pos)))),
            1 => {
                pos += 8;
                out.push((num, Wv::Fixed));
            }
            2 => {
                let n = varint(b, &mut pos) as usize;
                out.push((num, Wv::Len(&b[pos..pos + n])));
                pos += n;
            }
            5 => {
                pos += 4;
                out.push((num, Wv::Fixed));
            }
            t => panic!("descriptor: unsupported wire type {t}"),
        }
    }
    out
}

fn text(b: &[u8]) -> String {
    String::from_utf8_lossy(b).into_owned()
}

#[derive(Clone, Debug, Default)]
struct Field {
    name: String,
    /// FieldDescriptorProto.Type: 1 double 2 float 3 int64 4 uint64 5 int32 6 fixed64 7 fixed32
    /// 8 bool 9 string 11 message 12 bytes 13 uint32 14 enum 15 sfixed32 16 sfixed64 17 sint32 18 sint64
    ty: u64,
    repeated: bool,
    type_name: String,
    /// member of a real (non-synthetic) oneof
    oneof: Option<u64>,
}

#[derive(Clone, Debug, Default)]
struct Msg {
    fields: Vec<Field>,
    map_entry: bool,
}

#[derive(Default, Debug)]
struct Schema {
    msgs: BTreeMap<String, Msg>,
    /// enum full name → (name, number) in declaration order
    enums: BTreeMap<String, Vec<(String, i64)>>,
}

fn read_enum(b: &[u8], scope: &str, s: &mut Schema) {
    let mut name = String::new();
    let mut values = Vec::new();
    for (n, v) in wire(b) {
        match (n, v) {
            (1, Wv::Len(x)) => name = text(x),
            (2, Wv::Len(x)) => {
                let (mut vn, mut num) = (String::new(), 0i64);
                for (n, v) in wire(x) {
                    match (n, v) {
                        (1, Wv::Len(y)) => vn = text(y),
                        (2, Wv::Varint(y)) => num = y as i64 as i32 as i64,
                        _ => {}
                    }
                }
                values.push((vn, num));
            }
            _ => {}
        }
    }
    s.enums.insert(format!("{scope}.{name}"), values);
}

fn read_msg(b: &[u8], scope: &str, s: &mut Schema) {
    let parts = wire(b);
    let name = parts.iter().find_map(|(n, v)| match (n, v) {
        (1, Wv::Len(x)) => Some(text(x)),
        _ => None,
    });
    let full = format!("{scope}.{}", name.unwrap_or_default());
    let mut m = Msg::default();
    for (n, v) in parts {
        match (n, v) {
            (2, Wv::Len(x)) => {
                let mut f = Field::default();
                let mut proto3_optional = false;
                for (n, v) in wire(x) {
                    match (n, v) {
                        (1, Wv::Len(y)) => f.name = text(y),
                        (4, Wv::Varint(y)) => f.repeated = y == 3,
                        (5, Wv::Varint(y)) => f.ty = y,
                        (6, Wv::Len(y)) => f.type_name = text(y).trim_start_matches('.').to_string(),
                        (9, Wv::Varint(y)) => f.oneof = Some(y),
                        (17, Wv::Varint(y)) => proto3_optional = y != 0,
                        _ => {}
                    }
                }
                if proto3_optional {
                    f.oneof = None;
                }
                m.fields.push(f);
            }
            (3, Wv::Len(x)) => read_msg(x, &full, s),
            (4, Wv::Len(x)) => read_enum(x, &full, s),
            (7, Wv::Len(x)) => {
                for (n, v) in wire(x) {
                    if let (7, Wv::Varint(y)) = (n, v) {
                        m.map_entry = y != 0;
                    }
                }
            }
            _ => {}
        }
    }
    s.msgs.insert(full, m);
}

fn read_schema(path: &Path) -> Schema {
    let bytes = std::fs::read(path).unwrap_or_else(|e| panic!("{}: {e}", path.display()));
    let mut s = Schema::default();
    for (n, v) in wire(&bytes) {
        if let (1, Wv::Len(file)) = (n, v) {
            let parts = wire(file);
            let package = parts
                .iter()
                .find_map(|(n, v)| match (n, v) {
                    (2, Wv::Len(x)) => Some(text(x)),
                    _ => None,
                })
                .unwrap_or_default();
            for (n, v) in parts {
                match (n, v) {
                    (4, Wv::Len(x)) => read_msg(x, &package, &mut s),
                    (5, Wv::Len(x)) => read_enum(x, &package, &mut s),
                    _ => {}
                }
            }
        }
    }
    // names are registered as "pkg.Name" (a leading '.' appears when the package is empty)
    s.msgs = std::mem::take(&mut s.msgs).into_iter().map(|(k, v)| (k.trim_start_matches('.').to_string(), v)).collect();
    s.enums = std::mem::take(&mut s.enums).into_iter().map(|(k, v)| (k.trim_start_matches('.').to_string(), v)).collect();
    s
}

fn desc_files() -> Vec<String> {
    fn walk(dir: &Path, out: &mut Vec<PathBuf>) {
        let Ok(rd) = std::fs::read_dir(dir) else { return };
        for e in rd.flatten() {
            let p = e.path();
            if p.is_dir() {
                walk(&p, out);
            } else if p.extension().is_some_and(|x| x == "desc") {
                out.push(p);
            }
        }
    }
    let mut v = Vec::new();
    walk(Path::new(DATA_DIR), &mut v);
    let mut rel: Vec<String> =
        v.iter().map(|p| p.strip_prefix(DATA_DIR).unwrap().to_string_lossy().into_owned()).collect();
    rel.sort();
    rel
}

static SCHEMAS: LazyLock<BTreeMap<String, Schema>> =
    LazyLock::new(|| desc_files().into_iter().map(|rel| (rel.clone(), read_schema(&Path::new(DATA_DIR).join(&rel)))).collect());

// -------------------------------------------------------------------------------- alphabets

fn bytes(b: &[u8]) -> Value {
    Value::Bytes(b.to_vec().into())
}

/// Non-absent values of one scalar-typed slot, most telling first (typical, extreme, default, …).
fn scalar_alphabet(s: &Schema, f: &Field) -> Vec<Value> {
    use vv::{f as fl, i};
    match f.ty {
        1 => vec![fl(1.5), fl(-1e300), fl(0.0), fl(-0.0), fl(5e-324), fl(f64::INFINITY), fl(f64::NEG_INFINITY), fl(0.1), fl(f64::MAX), fl(9_007_199_254_740_992.0)],
        2 => vec![
            fl(1.5),
            fl(f64::from(f32::MAX)),
            fl(0.0),
            fl(-0.0),
            fl(f64::from(f32::from_bits(1))),
            fl(f64::INFINITY),
            fl(f64::NEG_INFINITY),
            fl(-2.25),
            fl(f64::from(f32::MIN_POSITIVE)),
            fl(16_777_216.0),
        ],
        3 | 16 | 18 => vec![i(1), i(i64::MIN), i(0), i(i64::MAX), i(-1), i(127), i(128), i((1 << 53) + 1), i(1 << 31), i(-(1 << 31) - 1)],
        4 | 6 => vec![i(1), i(i64::MAX), i(0), i(127), i(128), i(1 << 32), i((1 << 53) + 1), i(16384)],
        5 | 15 | 17 => vec![i(1), i(i64::from(i32::MIN)), i(0), i(i64::from(i32::MAX)), i(-1), i(127), i(128), i(16384), i(-129)],
        7 | 13 => vec![i(1), i(i64::from(u32::MAX)), i(0), i(1 << 31), i(127), i(128), i(16384)],
        8 => vec![Value::Boolean(true), Value::Boolean(false)],
        9 => vec![
            vv::s("a"),
            vv::s("é🤖"),
            vv::s(""),
            vv::s("a\0b"),
            vv::s(" "),
            vv::s(&"x".repeat(127)),
            vv::s(&"y".repeat(128)),
            vv::s("{{x}}"),
            vv::s("\"\\\n"),
            vv::s("0"),
        ],
        12 => vec![
            bytes(b"a"),
            bytes(&[0xff, 0xfe, 0x00]),
            bytes(b""),
            bytes(&[0]),
            bytes(&[0x80; 128]),
            bytes("é".as_bytes()),
            bytes(&[0xc3]),
        ],
        14 => {
            let vals = s.enums.get(&f.type_name).cloned().unwrap_or_default();
            let mut names: Vec<Value> = vals.iter().filter(|(_, n)| *n != 0).map(|(n, _)| vv::s(n)).collect();
            names.extend(vals.iter().filter(|(_, n)| *n == 0).map(|(n, _)| vv::s(n)));
            names
        }
        t => panic!("field {}: unsupported scalar type {t}", f.name),
    }
}

fn key_alphabet(f: &Field) -> Vec<&'static str> {
    match f.ty {
        9 => vec!["a", "", "é", "a.b"],
        8 => vec!["true", "false"],
        5 | 15 | 17 => vec!["1", "0", "-1", "2147483647", "-2147483648"],
        3 | 16 | 18 => vec!["1", "0", "-1", "9223372036854775807", "-9223372036854775808"],
        7 | 13 => vec!["1", "0", "4294967295"],
        4 | 6 => vec!["1", "0", "18446744073709551615", "9223372036854775808"],
        t => panic!("unsupported map key type {t}"),
    }
}

fn object(pairs: Vec<(String, Value)>) -> Value {
    Value::Object(pairs.into_iter().map(|(k, v)| (KeyString::from(k), v)).collect())
}

fn dedup(v: Vec<Value>) -> Vec<Value> {
    let mut seen = std::collections::BTreeSet::new();
    v.into_iter().filter(|x| seen.insert(vv::show(x))).collect()
}

/// Values of a singular slot of field `f` (scalar or message), at nesting depth `depth`.
fn element_alphabet(s: &Schema, f: &Field, depth: u32, tier: Tier) -> Vec<Value> {
    if f.ty == 11 {
        message_alphabet(s, &f.type_name, depth + 1, tier)
    } else {
        scalar_alphabet(s, f)
    }
}

/// All non-absent values of field `f`.
fn field_alphabet(s: &Schema, f: &Field, depth: u32, tier: Tier) -> Vec<Value> {
    let is_map = f.ty == 11 && f.repeated && s.msgs.get(&f.type_name).is_some_and(|m| m.map_entry);
    if is_map {
        let entry = &s.msgs[&f.type_name];
        let (kf, vf) = (&entry.fields[0], &entry.fields[1]);
        let keys = key_alphabet(kf);
        let mut vals = element_alphabet(s, vf, depth, tier);
        vals.truncate(4);
        let pick = |i: usize| vals[i % vals.len()].clone();
        let mut out = vec![object(vec![(keys[0].to_string(), pick(0))])];
        for (i, k) in keys.iter().enumerate() {
            out.push(object(vec![((*k).to_string(), pick(i + 1))]));
        }
        if keys.len() > 1 {
            out.push(object(vec![(keys[0].to_string(), pick(0)), (keys[1].to_string(), pick(1))]));
        }
        out.push(object(keys.iter().enumerate().map(|(i, k)| ((*k).to_string(), pick(i))).collect()));
        // every value of the (truncated) value alphabet under the first key, incl. the default
        for v in &vals {
            out.push(object(vec![(keys[0].to_string(), v.clone())]));
        }
        out.push(object(vec![]));
        return dedup(out);
    }
    let elems = element_alphabet(s, f, depth, tier);
    if f.repeated {
        let mut out = vec![Value::Array(vec![elems[0].clone()])];
        for e in &elems {
            out.push(Value::Array(vec![e.clone()]));
        }
        for pair in elems.windows(2) {
            out.push(Value::Array(pair.to_vec()));
        }
        if elems.len() > 2 {
            out.push(Value::Array(vec![elems[2].clone(), elems[0].clone(), elems[2].clone()]));
            if f.ty != 11 {
                out.push(Value::Array(elems.clone()));
                // > 127 payload bytes in a packed field
                out.push(Value::Array((0..40).map(|i| elems[i % elems.len()].clone()).collect()));
            }
        }
        out.push(Value::Array(vec![]));
        return dedup(out);
    }
    elems
}

/// Objects with at most `k` populated fields; subsets of size ≤ `full_upto` draw from the full
/// field alphabets, larger ones from their first `reduced` values. Never two members of one oneof.
fn combos(fields: &[(String, Option<u64>, Vec<Value>)], k: usize, full_upto: usize, reduced: usize) -> Vec<Value> {
    fn rec(
        fields: &[(String, Option<u64>, Vec<Value>)],
        start: usize,
        chosen: &mut Vec<usize>,
        k: usize,
        full_upto: usize,
        reduced: usize,
        out: &mut Vec<Value>,
    ) {
        // emit the product for the current subset
        let limit = |idx: usize| if chosen.len() <= full_upto { fields[idx].2.len() } else { fields[idx].2.len().min(reduced) };
        let dims: Vec<u64> = chosen.iter().map(|&c| limit(c) as u64).collect();
        for n in 0..crate::util::product(&dims) {
            let pick = crate::util::unrank(n, &dims);
            out.push(object(chosen.iter().zip(&pick).map(|(&c, &p)| (fields[c].0.clone(), fields[c].2[p].clone())).collect()));
        }
        if chosen.len() == k {
            return;
        }
        for next in start..fields.len() {
            if let Some(o) = fields[next].1 {
                if chosen.iter().any(|&c| fields[c].1 == Some(o)) {
                    continue;
                }
            }
            if fields[next].2.is_empty() {
                continue;
            }
            chosen.push(next);
            rec(fields, next + 1, chosen, k, full_upto, reduced, out);
            chosen.pop();
        }
    }
    let mut out = Vec::new();
    rec(fields, 0, &mut Vec::new(), k, full_upto, reduced, &mut out);
    out
}

/// Values of a nested message slot. depth 1: ≤ 2 populated fields from 4-value alphabets
/// (thorough: ≤ 3 from 6); depth 2: ≤ 2 fields from 2 (thorough 3) values; depth 3: ≤ 1 field from
/// 2 values; deeper: empty and "every field populated".
fn message_alphabet(s: &Schema, name: &str, depth: u32, tier: Tier) -> Vec<Value> {
    let Some(m) = s.msgs.get(name) else { return vec![object(vec![])] };
    if depth > 4 {
        return vec![object(vec![])];
    }
    let fields: Vec<(String, Option<u64>, Vec<Value>)> =
        m.fields.iter().map(|f| (f.name.clone(), f.oneof, field_alphabet(s, f, depth, tier))).collect();
    // "full": every field holds its first value (one member per oneof)
    let mut seen_oneof = Vec::new();
    let full = object(
        fields
            .iter()
            .filter(|(_, o, a)| {
                !a.is_empty()
                    && match o {
                        Some(o) if seen_oneof.contains(o) => false,
                        Some(o) => {
                            seen_oneof.push(*o);
                            true
                        }
                        None => true,
                    }
            })
            .map(|(n, _, a)| (n.clone(), a[0].clone()))
            .collect(),
    );
    let reduced: Vec<(String, Option<u64>, Vec<Value>)> = fields
        .iter()
        .map(|(n, o, a)| {
            let r = match (depth, tier.thorough()) {
                (0 | 1, false) => 4,
                (0 | 1, true) => 6,
                (2, true) => 3,
                (2 | 3, _) => 2,
                _ => 1,
            };
            (n.clone(), *o, a.iter().take(r).cloned().collect())
        })
        .collect();
    let k = match (depth, tier.thorough()) {
        (0 | 1, true) => 3,
        (0 | 1 | 2, _) => 2,
        (3, _) => 1,
        _ => 0,
    };
    let mut out = vec![full];
    out.extend(combos(&reduced, k, k, usize::MAX));
    dedup(out)
}

/// One populated field of a top-level value: (field index, index into that field's alphabet).
type Recipe = Vec<(u16, u16)>;

/// Top-level values of one message type, kept as recipes over the field alphabets so that the
/// (deeply nested) values are only built inside the parallel workers.
struct Plan {
    desc: String,
    ty: String,
    fields: Vec<(String, Option<u64>, Vec<Value>)>,
    recipes: Vec<Recipe>,
}

impl Plan {
    fn build(&self, r: &Recipe) -> Value {
        object(r.iter().map(|&(f, v)| (self.fields[f as usize].0.clone(), self.fields[f as usize].2[v as usize].clone())).collect())
    }
}

/// Recipes with at most `k` populated fields; subsets of size ≤ `full_upto` draw from the full
/// field alphabets, larger ones from their first `reduced` values; plus "every field populated"
/// rows, each alphabet position in turn. Never two members of one oneof.
fn plan(s: &Schema, desc: &str, name: &str, tier: Tier) -> Plan {
    let m = &s.msgs[name];
    let fields: Vec<(String, Option<u64>, Vec<Value>)> =
        m.fields.iter().map(|f| (f.name.clone(), f.oneof, field_alphabet(s, f, 0, tier))).collect();
    let (k, full_upto, reduced) = if tier.thorough() { (5, 4, 3) } else { (4, 3, 3) };
    fn rec(
        fields: &[(String, Option<u64>, Vec<Value>)],
        start: usize,
        chosen: &mut Vec<usize>,
        (k, full_upto, reduced): (usize, usize, usize),
        out: &mut Vec<Recipe>,
    ) {
        let dims: Vec<u64> = chosen
            .iter()
            .map(|&c| if chosen.len() <= full_upto { fields[c].2.len() } else { fields[c].2.len().min(reduced) } as u64)
            .collect();
        for n in 0..crate::util::product(&dims) {
            let pick = crate::util::unrank(n, &dims);
            out.push(chosen.iter().zip(&pick).map(|(&c, &p)| (c as u16, p as u16)).collect());
        }
        if chosen.len() == k {
            return;
        }
        for next in start..fields.len() {
            let clash = fields[next].1.is_some() && chosen.iter().any(|&c| fields[c].1 == fields[next].1);
            if clash || fields[next].2.is_empty() {
                continue;
            }
            chosen.push(next);
            rec(fields, next + 1, chosen, (k, full_upto, reduced), out);
            chosen.pop();
        }
    }
    let mut recipes = Vec::new();
    rec(&fields, 0, &mut Vec::new(), (k, full_upto, reduced), &mut recipes);
    let longest = fields.iter().map(|f| f.2.len()).max().unwrap_or(0);
    for pos in 0..longest {
        let mut seen_oneof: Vec<u64> = Vec::new();
        let mut r = Recipe::new();
        for (i, (_, o, a)) in fields.iter().enumerate() {
            if a.is_empty() || o.is_some_and(|o| seen_oneof.contains(&o)) {
                continue;
            }
            if let Some(o) = o {
                seen_oneof.push(*o);
            }
            r.push((i as u16, (pos % a.len()) as u16));
        }
        recipes.push(r);
    }
    let mut seen = std::collections::BTreeSet::new();
    recipes.retain(|r| seen.insert(r.clone()));
    Plan { desc: desc.to_string(), ty: name.to_string(), fields, recipes }
}

// ------------------------------------------------------------------------------------- oracle

fn is_zero(s: &Schema, f: &Field, v: &Value) -> bool {
    match (f.ty, v) {
        (14, Value::Bytes(b)) => s
            .enums
            .get(&f.type_name)
            .is_some_and(|vals| vals.iter().any(|(n, num)| *num == 0 && n.as_bytes() == b.as_ref())),
        (_, Value::Integer(i)) => *i == 0,
        (_, Value::Float(x)) => x.into_inner() == 0.0,
        (_, Value::Boolean(b)) => !*b,
        (_, Value::Bytes(b)) => b.is_empty(),
        _ => false,
    }
}

/// A value stored in a `float` slot is the nearest f32 (that is what the wire holds).
fn as_stored(f: &Field, v: &Value, input_side: bool) -> Value {
    match (f.ty, v) {
        (2, Value::Float(x)) if input_side => vv::f(f64::from(x.into_inner() as f32)),
        _ => v.clone(),
    }
}

/// Drop every message field that holds the proto3 default (zero scalar, first enum name, empty
/// string/bytes/list/map, unset-or-empty message), recursively. Map entries and list elements
/// are never dropped.
fn normalise(s: &Schema, msg: &str, v: &Value, input_side: bool) -> Value {
    let (Some(m), Value::Object(o)) = (s.msgs.get(msg), v) else { return v.clone() };
    let mut out = BTreeMap::new();
    for (k, x) in o {
        let Some(f) = m.fields.iter().find(|f| f.name == k.as_str()) else {
            out.insert(k.clone(), x.clone());
            continue;
        };
        let elem = |e: &Value| if f.ty == 11 { normalise(s, &f.type_name, e, input_side) } else { as_stored(f, e, input_side) };
        let is_map = f.ty == 11 && f.repeated && s.msgs.get(&f.type_name).is_some_and(|m| m.map_entry);
        let nv = if is_map {
            let vf = &s.msgs[&f.type_name].fields[1];
            match x {
                Value::Object(entries) => Value::Object(
                    entries
                        .iter()
                        .map(|(ek, ev)| {
                            let nv = if vf.ty == 11 { normalise(s, &vf.type_name, ev, input_side) } else { as_stored(vf, ev, input_side) };
                            (ek.clone(), nv)
                        })
                        .collect(),
                ),
                other => other.clone(),
            }
        } else if f.repeated {
            match x {
                Value::Array(a) => Value::Array(a.iter().map(elem).collect()),
                other => other.clone(),
            }
        } else {
            elem(x)
        };
        let droppable = match &nv {
            Value::Array(a) => a.is_empty(),
            Value::Object(o) => o.is_empty(),
            scalar => !f.repeated && is_zero(s, f, scalar),
        };
        if !droppable {
            out.insert(k.clone(), nv);
        }
    }
    Value::Object(out)
}

fn sources(desc: &str, ty: &str, lossy: &J) -> (String, String) {
    let path = format!("{DATA_DIR}/{desc}");
    let opt = match lossy.as_bool() {
        Some(b) => format!(", allow_lossy_string_coercion: {b}"),
        None => String::new(),
    };
    (
        format!("encode_proto!(.a, {}, {}{opt})", vv::str_lit(&path), vv::str_lit(ty)),
        format!("parse_proto!(.a, {}, {})", vv::str_lit(&path), vv::str_lit(ty)),
    )
}

fn case(w: &J) -> CaseResult {
    let (Some(desc), Some(ty)) = (w["desc"].as_str(), w["type"].as_str()) else {
        return CaseResult::trivial("malformed-witness");
    };
    let Some(schema) = SCHEMAS.get(desc) else { return CaseResult::trivial("unknown-descriptor") };
    let v = vv::dec(&w["value"]);
    let (enc_src, dec_src) = sources(desc, ty, &w["lossy"]);
    let short = ty;
    let nfields = v.as_object().map_or(0, BTreeMap::len);
    let mut out = CaseResult::ok("");

    if w["law"] == "timestamp-input" {
        // Not judged (the property speaks about message-shaped values; a VRL timestamp is a
        // convenience input): counted whether the instant survives as {seconds, nanos}.
        let Outcome::Ok(b) = law::call(&enc_src, law::ev1(v.clone())) else {
            return CaseResult::trivial("timestamp-input:encode-rejected").count("timestamp_inputs_rejected", 1);
        };
        let back = law::call(&dec_src, law::ev1(b));
        let want = v.as_object().map(|o| {
            Value::Object(
                o.iter()
                    .map(|(k, x)| match x {
                        Value::Timestamp(t) => (
                            k.clone(),
                            vv::obj(&[("seconds", vv::i(t.timestamp())), ("nanos", vv::i(i64::from(t.timestamp_subsec_nanos())))]),
                        ),
                        other => (k.clone(), other.clone()),
                    })
                    .collect(),
            )
        });
        let same = match (&back, &want) {
            (Outcome::Ok(got), Some(want)) => normalise(schema, ty, got, false) == normalise(schema, ty, want, true),
            _ => false,
        };
        return CaseResult::trivial(if same { "timestamp-input:instant-kept" } else { "timestamp-input:instant-CHANGED" })
            .count(if same { "timestamp_inputs_instant_kept" } else { "timestamp_inputs_instant_changed" }, 1);
    }

    let encoded = law::call(&enc_src, law::ev1(v.clone()));
    let b = match encoded {
        Outcome::Ok(b @ Value::Bytes(_)) => b,
        other => {
            out.class = format!("{short}:{nfields}:encode-{}", other.class());
            out.nontrivial = false;
            out.counters.push(("encode_rejected", 1));
            return out.violation(Violation::new(
                "C26.encode-accepts-message-shaped-value",
                w.clone(),
                "encode_proto returns bytes",
                other.show(),
            ));
        }
    };
    out.counters.push(("encoded", 1));
    let payload_len = b.as_bytes().map_or(0, |x| x.len());
    out.counters.push(("encoded_bytes", payload_len as u64));
    let parsed = law::call(&dec_src, law::ev1(b.clone()));
    let got = match parsed {
        Outcome::Ok(g) => g,
        other => {
            out.class = format!("{short}:{nfields}:parse-{}", other.class());
            out.counters.push(("parse_rejected", 1));
            return out.violation(Violation::new(
                "C26.parse-accepts-encoded-message",
                w.clone(),
                "parse_proto returns the message",
                format!("{} (payload {})", other.show(), vv::show(&b)),
            ));
        }
    };
    out.counters.push(("parsed", 1));
    let want = normalise(schema, ty, &v, true);
    let have = normalise(schema, ty, &got, false);
    out.nontrivial = payload_len > 0;
    if payload_len == 0 {
        out.counters.push(("all_default_messages", 1));
    }
    // exact equality (only the f32 rounding applied) is counted, not demanded
    if got == keep_defaults_stored(schema, ty, &v) {
        out.counters.push(("roundtrips_exact_incl_defaults", 1));
    }
    if want == have {
        out.class = format!("{short}:{nfields}:roundtrip");
        out
    } else {
        out.class = format!("{short}:{nfields}:MISMATCH");
        out.violation(Violation::new(
            "C26.roundtrip",
            w.clone(),
            format!("{} (input without proto3-default fields)", vv::show(&want)),
            format!("{} (parsed: {}; payload {})", vv::show(&have), vv::show(&got), vv::show(&b)),
        ))
    }
}

/// The input with only the f32 storage rounding applied (defaults kept).
fn keep_defaults_stored(s: &Schema, msg: &str, v: &Value) -> Value {
    let (Some(m), Value::Object(o)) = (s.msgs.get(msg), v) else { return v.clone() };
    Value::Object(
        o.iter()
            .map(|(k, x)| {
                let Some(f) = m.fields.iter().find(|f| f.name == k.as_str()) else { return (k.clone(), x.clone()) };
                let is_map = f.ty == 11 && f.repeated && s.msgs.get(&f.type_name).is_some_and(|m| m.map_entry);
                let one = |f: &Field, e: &Value| if f.ty == 11 { keep_defaults_stored(s, &f.type_name, e) } else { as_stored(f, e, true) };
                let nv = match x {
                    Value::Object(entries) if is_map => {
                        let vf = &s.msgs[&f.type_name].fields[1];
                        Value::Object(entries.iter().map(|(ek, ev)| (ek.clone(), one(vf, ev))).collect())
                    }
                    Value::Array(a) if f.repeated => Value::Array(a.iter().map(|e| one(f, e)).collect()),
                    other => one(f, other),
                };
                (k.clone(), nv)
            })
            .collect(),
    )
}

// --------------------------------------------------------------------------------- enumeration

pub fn run(tier: Tier) -> Report {
    let mut rep = Report::new("C26", tier, "exploration");
    let lossy = [J::Null, J::Bool(true), J::Bool(false)];
    let mut per_type = serde_json::Map::new();
    let mut n_types = 0u64;
    let mut plans: Vec<Plan> = Vec::new();
    let mut ts_cases: Vec<J> = Vec::new();
    for (desc, schema) in SCHEMAS.iter() {
        for (ty, m) in &schema.msgs {
            if m.map_entry {
                continue;
            }
            n_types += 1;
            let p = plan(schema, desc, ty, tier);
            per_type.insert(format!("{desc}:{ty}"), json!(p.recipes.len()));
            plans.push(p);
            // VRL timestamps given for google.protobuf.Timestamp fields: counted only
            for f in m.fields.iter().filter(|f| f.ty == 11 && !f.repeated && f.type_name == "google.protobuf.Timestamp") {
                for t in [
                    "2021-02-03T04:05:06.789012345Z",
                    "1970-01-01T00:00:00Z",
                    "1969-12-31T23:59:59.5Z",
                    "0001-01-01T00:00:00Z",
                    "9999-12-31T23:59:59.999999999Z",
                    "1970-01-01T00:00:00.000000001Z",
                ] {
                    ts_cases.push(json!({"law": "timestamp-input", "desc": desc, "type": ty, "value": vv::enc(&vv::obj(&[(f.name.as_str(), vv::ts(t))])), "lossy": J::Null}));
                }
            }
        }
    }
    // one flat enumeration over all types (index → plan by prefix sums)
    let mut offsets = vec![0u64];
    for p in &plans {
        offsets.push(offsets.last().unwrap() + p.recipes.len() as u64 * 3);
    }
    law::drive_indexed(
        &mut rep,
        "roundtrip",
        *offsets.last().unwrap(),
        |i| {
            let pi = offsets.partition_point(|o| *o <= i) - 1;
            let p = &plans[pi];
            let j = i - offsets[pi];
            let v = p.build(&p.recipes[(j / 3) as usize]);
            json!({"law": "roundtrip", "desc": p.desc, "type": p.ty, "value": vv::enc(&v), "lossy": lossy[(j % 3) as usize]})
        },
        case,
    );
    law::drive(&mut rep, "timestamp-input", &ts_cases, case);
    rep.set("message_types", n_types);
    rep.set("descriptor_sets", SCHEMAS.len() as u64);
    rep.set("values_per_type", J::Object(per_type));
    rep.set(
        "rule",
        format!(
            "for every message type (map-entry types excluded) of every *.desc under {DATA_DIR}: every object with ≤ {} populated fields ({}) plus 'all fields populated' rows, × allow_lossy_string_coercion ∈ {{omitted, true, false}}. Field alphabets: integers per width at 0, ±1, min, max, varint length boundaries 127/128/16384, 2^53+1; doubles/floats incl. ±0, subnormal, max, ±inf, f32-exact values; strings incl. empty, NUL, multi-byte, 127/128 bytes, '{{{{x}}}}'; bytes incl. non-UTF-8; every enum name; nested messages three levels deep (empty, ≤ 2 populated fields, all fields); repeated: empty, singletons of every element value, adjacent pairs, default-in-the-middle, 40 elements; maps: empty, every key of the key type's alphabet (extremes of bool/int32/int64/uint32/uint64/string), two and all keys, default values under a key. Non-trivial = the encoder accepted, produced a non-empty payload and the decoder was run on it; outcome classes = message type × populated fields × verdict",
            if tier.thorough() { 5 } else { 4 },
            if tier.thorough() { "subsets of ≤ 4 fields over the full alphabets, of 5 fields over their first 3 values" } else { "subsets of ≤ 3 fields over the full alphabets, of 4 fields over their first 3 values" },
        ),
    );
    rep.assume("descriptor sets are read with the harness' own wire reader (names, numbers, labels, types, map_entry, oneof); field presence semantics are NOT modelled: the oracle drops every field holding the proto3 default on BOTH sides, exactly as the property allows");
    rep.assume("a value in a `float` field is compared after rounding the input to f32 (all generated float inputs are f32-exact, so this is the identity on them)");
    rep.assume("'scalars in range': int32/uint32 inputs lie in the field's range; uint64 inputs are ≤ i64::MAX (VRL integers are i64); strings are valid UTF-8 (non-UTF-8 only in `bytes` fields); enums by exact declared name; map keys in canonical decimal / 'true' / 'false' spelling");
    rep.assume("VRL timestamps given for google.protobuf.Timestamp fields are not message-shaped: counted (coverage.timestamp_inputs_*), not judged");
    rep.exhaustive = true;
    rep
}

pub fn replay(_property: &str, w: &J) -> Vec<Violation> {
    case(w).violations
}
