//! Stdlib sweep (DESIGN §3.3): every stdlib function × bounded-exhaustive argument tuples,
//! executed as compiled VRL snippets inside sacrificial worker processes with a watchdog.
//! Serves C03 (signatures), C04 (no panics, runtime half) and C05 (prompt termination).

use crate::model::member::{member_lenient, why_not};
use crate::report::{Report, Tier, Violation, verif_root};
use crate::util::guarded;
use crate::vrlx::{self, Outcome};
use crate::vv;
use serde_json::{Value as J, json};
use std::collections::{BTreeMap, BTreeSet};
use std::io::{BufRead, Write};
use std::time::{Duration, Instant};
use vrl::compiler::state::ExternalEnv;
use vrl::compiler::{CompileConfig, Function};
use vrl::value::Value;

const BYTES: u16 = 1 << 1;
const INTEGER: u16 = 1 << 2;
const FLOAT: u16 = 1 << 3;
const BOOLEAN: u16 = 1 << 4;
const OBJECT: u16 = 1 << 5;
const ARRAY: u16 = 1 << 6;
const TIMESTAMP: u16 = 1 << 7;
const REGEX: u16 = 1 << 8;
pub const REGEX_KIND: u16 = REGEX;
const NULL: u16 = 1 << 9;

/// Functions whose results depend on the environment / wall clock / network, or that write to
/// the process's stdout (exempt by C14's own list; they are not swept).
const EXCLUDED: [&str; 4] = ["dns_lookup", "reverse_dns", "http_request", "log"];

/// Functions whose VALUE is random / environment dependent: their result is still checked against the
/// declared type, for panics and for termination, but never compared between runs.
pub const NONDETERMINISTIC: [&str; 12] = [
    "get_hostname", "get_env_var", "now", "random_bool", "random_bytes", "random_float", "random_int", "uuid_v4", "uuid_v7", "uuid_from_friendly_id", "get_timezone_name", "get_secret",
];

fn kind_bit(v: &Value) -> u16 {
    match v {
        Value::Bytes(_) => BYTES,
        Value::Integer(_) => INTEGER,
        Value::Float(_) => FLOAT,
        Value::Boolean(_) => BOOLEAN,
        Value::Object(_) => OBJECT,
        Value::Array(_) => ARRAY,
        Value::Timestamp(_) => TIMESTAMP,
        Value::Regex(_) => REGEX,
        Value::Null => NULL,
    }
}

/// Edge-value alphabet per kind, most important first, as VRL source text.
fn alphabet(kind: u16, thorough: bool) -> Vec<String> {
    let mut v: Vec<&str> = Vec::new();
    if kind & BYTES != 0 {
        v.extend(["\"a\"", "\"\"", "\"A b,c=1\"", "\"é\"", "\"1\"", "\"-1.5\"", "\"{\\\"a\\\":1}\"", "\"%Y-%m-%d\"", "\"2021-02-03T04:05:06Z\""]);
        if thorough {
            v.extend(["\"true\"", "\"127.0.0.1\"", "\"::1\"", "\"a.b[0]\"", "\"\\n\"", "\"aGk=\"", "\"  \"", "\"ÀÉ😀\""]);
        }
    }
    if kind & INTEGER != 0 {
        v.extend(["0", "1", "-1", "2", "64", "10000", "9223372036854775807", "(-9223372036854775807 - 1)", "16777216"]);
        if thorough {
            v.extend(["3", "16", "36", "255", "-64", "4294967296"]);
        }
    }
    if kind & FLOAT != 0 {
        v.extend(["1.5", "0.0", "-2.5", "100000000000000000000000000000000000000000000000000.0"]);
        if thorough {
            v.extend(["0.1", "-0.0", "123456.789"]);
        }
    }
    if kind & BOOLEAN != 0 {
        v.extend(["true", "false"]);
    }
    if kind & ARRAY != 0 {
        v.extend(["[1, \"a\"]", "[\"a\", 1]", "[]", "[1]", "[\"a\"]", "[null]", "[[1], {\"k\": null}]", "[\"a\", \"b\", \"a\"]"]);
        if thorough {
            v.extend(["[1, 2, 3]", "[1.5, null, true]"]);
        }
    }
    if kind & OBJECT != 0 {
        v.extend(["{\"a\": 1}", "{}", "{\"a\": {\"b\": [1, null]}, \"c\": \"x\"}"]);
        if thorough {
            v.extend(["{\"a\": \"x\", \"b\": \"y\"}", "{\"a.b\": 1, \"\": 2}"]);
        }
    }
    if kind & TIMESTAMP != 0 {
        v.extend(["t'2021-02-03T04:05:06.789Z'", "t'1970-01-01T00:00:00Z'"]);
        if thorough {
            v.push("t'9999-12-31T23:59:59Z'");
        }
    }
    if kind & REGEX != 0 {
        v.extend(["r'a+'", "r''", "r'(?P<n>\\d+)'"]);
    }
    if kind & NULL != 0 {
        v.push("null");
    }
    v.into_iter().map(String::from).collect()
}

/// Runtime-only values (no literal form) per kind.
fn runtime_only(kind: u16) -> Vec<Value> {
    let mut v = Vec::new();
    if kind & BYTES != 0 {
        v.push(Value::Bytes(vec![0xff, 0x61].into()));
    }
    if kind & FLOAT != 0 {
        v.push(vv::f(f64::INFINITY));
        v.push(vv::f(f64::NEG_INFINITY));
    }
    v
}

// ---------------------------------------------------------------------------------------------
// Example harvesting: literal argument texts per (function, parameter)

pub fn split_top_level(s: &str) -> Vec<String> {
    let mut out = Vec::new();
    let mut depth = 0i32;
    let mut cur = String::new();
    let mut chars = s.chars().peekable();
    let mut quote: Option<char> = None;
    while let Some(c) = chars.next() {
        if let Some(q) = quote {
            cur.push(c);
            if c == '\\' {
                if let Some(n) = chars.next() {
                    cur.push(n);
                }
            } else if c == q {
                quote = None;
            }
            continue;
        }
        match c {
            '"' | '\'' => {
                quote = Some(c);
                cur.push(c);
            }
            '(' | '[' | '{' => {
                depth += 1;
                cur.push(c);
            }
            ')' | ']' | '}' => {
                depth -= 1;
                cur.push(c);
            }
            ',' if depth == 0 => {
                out.push(cur.trim().to_string());
                cur.clear();
            }
            _ => cur.push(c),
        }
    }
    if !cur.trim().is_empty() {
        out.push(cur.trim().to_string());
    }
    out
}

pub fn looks_literal(t: &str) -> bool {
    let t = t.trim();
    if t.is_empty() || t.len() > 300 {
        return false;
    }
    let c = t.chars().next().unwrap();
    (c == '"' || c == '[' || c == '{' || c.is_ascii_digit() || c == '-' || t.starts_with("r'") || t.starts_with("t'") || t.starts_with("s'") || t == "true" || t == "false" || t == "null")
        && !t.contains(" . ")
}

/// All call sites `name(...)` / `name!(...)` in `src`: the raw argument list text.
pub fn call_sites(src: &str, name: &str) -> Vec<String> {
    let mut out = Vec::new();
    let bytes = src.as_bytes();
    let mut from = 0;
    while let Some(pos) = src[from..].find(name) {
        let start = from + pos;
        from = start + name.len();
        if start > 0 && (bytes[start - 1].is_ascii_alphanumeric() || bytes[start - 1] == b'_') {
            continue;
        }
        let mut i = start + name.len();
        if i < bytes.len() && bytes[i] == b'!' {
            i += 1;
        }
        if i >= bytes.len() || bytes[i] != b'(' {
            continue;
        }
        // find the matching parenthesis
        let mut depth = 0i32;
        let mut quote: Option<u8> = None;
        let mut j = i;
        let mut end = None;
        while j < bytes.len() {
            let c = bytes[j];
            if let Some(q) = quote {
                if c == b'\\' {
                    j += 1;
                } else if c == q {
                    quote = None;
                }
            } else {
                match c {
                    b'"' | b'\'' => quote = Some(c),
                    b'(' | b'[' | b'{' => depth += 1,
                    b')' | b']' | b'}' => {
                        depth -= 1;
                        if depth == 0 {
                            end = Some(j);
                            break;
                        }
                    }
                    _ => {}
                }
            }
            j += 1;
        }
        if let Some(e) = end {
            if let Some(text) = src.get(i + 1..e) {
                out.push(text.to_string());
            }
        }
    }
    out
}

/// Call shapes taken from a function's own examples with the FIRST argument replaced by `.a0`:
/// (`name(.a0, <the example's other arguments verbatim>)`, the example's first argument text).
pub fn example_shapes() -> Vec<(String, String, String)> {
    let mut out = Vec::new();
    for f in &vrlx::fns() {
        let name = f.identifier();
        if EXCLUDED.contains(&name) || NONDETERMINISTIC.contains(&name) {
            continue;
        }
        for ex in f.examples() {
            for site in call_sites(ex.source, name) {
                let args = split_top_level(&site);
                if args.len() < 2 || !looks_literal(&args[0]) || !args[0].trim_start().starts_with(['"', 's']) {
                    continue;
                }
                let rest = args[1..].join(", ");
                out.push((name.to_string(), format!("{name}(.a0, {rest})"), args[0].clone()));
            }
        }
    }
    out.sort();
    out.dedup();
    out
}

pub struct FnSpec {
    pub name: String,
    pub params: Vec<(String, u16, bool, Vec<String>)>, // keyword, kind, required, alphabet (source texts)
    pub closure: Option<Vec<String>>,                  // closure suffix texts
    pub return_kind: u16,
}

fn closure_suffixes(name: &str) -> Option<Vec<String>> {
    Some(match name {
        "for_each" => vec![" -> |_k, _v| { null }", " -> |k, v| { .seen = [k, v] }"],
        "filter" => vec![" -> |_k, _v| { true }", " -> |_k, v| { v != null && v != 1 }"],
        "map_keys" => vec![" -> |k| { k }", " -> |k| { upcase(k) + \"_\" }"],
        "map_values" => vec![" -> |v| { v }", " -> |_v| { [1] }"],
        "replace_with" => vec![" -> |m| { m.string }", " -> |_m| { \"é\" }"],
        _ => return None,
    }
    .into_iter()
    .map(String::from)
    .collect())
}

pub fn specs(tier: Tier) -> Vec<FnSpec> {
    let fns = vrlx::fns();
    let mut out = Vec::new();
    for f in &fns {
        let name = f.identifier();
        if EXCLUDED.contains(&name) {
            continue;
        }
        let params = f.parameters();
        // harvest example literals
        let mut harvested: Vec<BTreeSet<String>> = vec![BTreeSet::new(); params.len()];
        for ex in f.examples() {
            for site in call_sites(ex.source, name) {
                for (pos, arg) in split_top_level(&site).into_iter().enumerate() {
                    let (kw, text) = match arg.split_once(':') {
                        Some((k, rest)) if k.trim().chars().all(|c| c.is_ascii_alphanumeric() || c == '_') && !k.trim().is_empty() && !arg.trim_start().starts_with(['"', '{', '[']) => {
                            (Some(k.trim().to_string()), rest.trim().to_string())
                        }
                        _ => (None, arg.clone()),
                    };
                    let idx = match kw {
                        Some(k) => params.iter().position(|p| p.keyword == k),
                        None => (pos < params.len()).then_some(pos),
                    };
                    if let Some(i) = idx {
                        if looks_literal(&text) {
                            harvested[i].insert(text);
                        }
                    }
                }
            }
        }
        let mut ps = Vec::new();
        for (i, p) in params.iter().enumerate() {
            let mut alpha: Vec<String> = Vec::new();
            if let Some(vars) = p.enum_variants {
                for v in vars {
                    alpha.push(vv::str_lit(v.value));
                }
            }
            // harvested example literals first (they make calls succeed), then the edge alphabet
            for h in &harvested[i] {
                if !alpha.contains(h) {
                    alpha.push(h.clone());
                }
            }
            if name == "encode_zstd" && p.keyword == "compression_level" {
                // zstd's ultra levels (>= 20; larger values are clamped to 22) spend ~30 s of CPU on table
                // set-up for any input in this build profile — a constant, not a hang; the level alphabet
                // stays below them so that the watchdog verdict never depends on machine speed.
                alpha = ["-7", "0", "1", "3", "19"].iter().map(|s| (*s).to_string()).collect();
            } else {
                for a in alphabet(p.kind, tier.thorough()) {
                    if !alpha.contains(&a) {
                        alpha.push(a);
                    }
                }
            }
            ps.push((p.keyword.to_string(), p.kind, p.required, alpha));
        }
        out.push(FnSpec { name: name.to_string(), params: ps, closure: if f.closure().is_some() { closure_suffixes(name) } else { None }, return_kind: f.return_kind() });
    }
    out.sort_by(|a, b| a.name.cmp(&b.name));
    out
}

/// Bounded-exhaustive tuples for one function: the full cross product of the required
/// parameters' alphabets, shrunk (longest alphabet first) until it fits `cap`; each optional
/// parameter is then added one at a time (every value) on top of the first `base` required tuples.
pub fn cases_for(spec: &FnSpec, cap: u64, thorough: bool) -> Vec<J> {
    let req: Vec<usize> = (0..spec.params.len()).filter(|i| spec.params[*i].2).collect();
    let opt: Vec<usize> = (0..spec.params.len()).filter(|i| !spec.params[*i].2).collect();
    let mut lens: Vec<usize> = req.iter().map(|i| spec.params[*i].3.len().max(1)).collect();
    loop {
        let prod: u64 = lens.iter().map(|l| *l as u64).product();
        if prod <= cap {
            break;
        }
        let (mi, _) = lens.iter().enumerate().max_by_key(|(_, l)| **l).unwrap();
        if lens[mi] <= 1 {
            break;
        }
        lens[mi] -= 1;
    }
    let dims: Vec<u64> = lens.iter().map(|l| *l as u64).collect();
    let total: u64 = dims.iter().product();
    let closures: Vec<String> = spec.closure.clone().unwrap_or_else(|| vec![String::new()]);
    let mut out = Vec::new();
    let mut emit = |args: Vec<(usize, String)>, cl: &str| {
        // literal mode: positional for required, keyword for optional
        let lit_args: Vec<String> = args.iter().map(|(i, t)| if spec.params[*i].2 { t.clone() } else { format!("{}: {t}", spec.params[*i].0) }).collect();
        out.push(json!({"fn": spec.name, "mode": "literal", "args": lit_args.join(", "), "closure": cl}));
        // runtime mode: every argument read from the event
        let rt_args: Vec<String> =
            args.iter().enumerate().map(|(n, (i, _))| if spec.params[*i].2 { format!(".a{n}") } else { format!("{}: .a{n}", spec.params[*i].0) }).collect();
        let ev: Vec<String> = args.iter().map(|(_, t)| t.clone()).collect();
        out.push(json!({"fn": spec.name, "mode": "runtime", "args": rt_args.join(", "), "closure": cl, "event_src": ev, "kinds": args.iter().map(|(i, _)| spec.params[*i].1).collect::<Vec<u16>>()}));
        // same runtime-typed arguments, but compiled under an environment that DECLARES their exact kinds
        // (so the call is type-checked like a call on literals, yet no argument is a compile-time constant)
        out.push(json!({"fn": spec.name, "mode": "typed", "args": rt_args.join(", "), "closure": cl, "event_src": ev, "kinds": args.iter().map(|(i, _)| spec.params[*i].1).collect::<Vec<u16>>()}));
        // … and under an environment that only declares the ELEMENT kinds of collections (arrays / objects of
        // unknown length), which is how values from split(), keys(), external schemas … are typed
        if args.iter().any(|(_, t)| t.starts_with('[') || t.starts_with('{')) {
            out.push(json!({"fn": spec.name, "mode": "typed-loose", "args": rt_args.join(", "), "closure": cl, "event_src": ev, "kinds": args.iter().map(|(i, _)| spec.params[*i].1).collect::<Vec<u16>>()}));
        }
        // mixed: the FIRST argument runtime-typed (collection of unknown length), every other argument a literal
        if args.len() >= 2 && (args[0].1.starts_with('[') || args[0].1.starts_with('{')) {
            let mixed: Vec<String> = args
                .iter()
                .enumerate()
                .map(|(n, (i, t))| {
                    let text = if n == 0 { ".a0".to_string() } else { t.clone() };
                    if spec.params[*i].2 { text } else { format!("{}: {text}", spec.params[*i].0) }
                })
                .collect();
            out.push(json!({"fn": spec.name, "mode": "typed-loose", "args": mixed.join(", "), "closure": cl, "event_src": [args[0].1.clone()], "kinds": [spec.params[args[0].0].1]}));
        }
    };
    let base = if thorough { 12 } else { 4 };
    for idx in 0..total.max(1) {
        let choice = crate::util::unrank(idx, &dims);
        let args: Vec<(usize, String)> = req.iter().enumerate().map(|(n, i)| (*i, spec.params[*i].3.get(choice[n]).cloned().unwrap_or_else(|| "null".into()))).collect();
        for cl in &closures {
            emit(args.clone(), cl);
        }
        if idx < base {
            for o in &opt {
                for val in &spec.params[*o].3 {
                    let mut a2 = args.clone();
                    a2.push((*o, val.clone()));
                    emit(a2, &closures[0]);
                }
            }
            if thorough && opt.len() >= 2 && idx < 2 {
                // optional pairs
                for (x, o1) in opt.iter().enumerate() {
                    for o2 in &opt[x + 1..] {
                        for v1 in spec.params[*o1].3.iter().take(4) {
                            for v2 in spec.params[*o2].3.iter().take(4) {
                                let mut a2 = args.clone();
                                a2.push((*o1, v1.clone()));
                                a2.push((*o2, v2.clone()));
                                emit(a2, &closures[0]);
                            }
                        }
                    }
                }
            }
        }
    }
    // runtime-only values (non-UTF-8 bytes, ±inf) in each required position, others at their first value
    for (n, i) in req.iter().enumerate() {
        for rv in runtime_only(spec.params[*i].1) {
            let rt_args: Vec<String> = (0..req.len()).map(|m| format!(".a{m}")).collect();
            let ev: Vec<J> = req
                .iter()
                .enumerate()
                .map(|(m, j)| if m == n { json!({"$value": vv::enc(&rv)}) } else { J::String(spec.params[*j].3.first().cloned().unwrap_or_else(|| "null".into())) })
                .collect();
            out.push(json!({"fn": spec.name, "mode": "runtime", "args": rt_args.join(", "), "closure": closures[0], "event_src": ev, "kinds": req.iter().map(|j| spec.params[*j].1).collect::<Vec<u16>>()}));
        }
    }
    out
}

// ---------------------------------------------------------------------------------------------
// One case (runs inside a worker process)

thread_local! {
    static FNS: Vec<Box<dyn Function>> = vrlx::fns();
}

pub fn eval_literal(text: &str) -> Option<Value> {
    let p = crate::law::prog(text)?;
    let mut t = vrlx::target(vrlx::empty_object(), vrlx::empty_object());
    match vrlx::run_runtime(&p, &mut t, &vrlx::utc()) {
        Outcome::Ok(v) => Some(v),
        _ => None,
    }
}

/// Result of one case: {status, class, ms, viol: [{tag, clause, expected, observed}]}.
pub fn run_case(w: &J) -> J {
    if w["mode"] == "program" {
        return run_program_case(w["src"].as_str().unwrap_or(""));
    }
    let name = w["fn"].as_str().unwrap_or("");
    let args = w["args"].as_str().unwrap_or("");
    let cl = w["closure"].as_str().unwrap_or("");
    let loose = w["mode"] == "typed-loose";
    let typed = w["mode"] == "typed" || loose;
    let runtime = w["mode"] == "runtime" || typed;
    let mut viol: Vec<J> = Vec::new();
    let mut push = |tag: &str, clause: &str, expected: String, observed: String| {
        viol.push(json!({"tag": tag, "clause": clause, "expected": expected, "observed": observed}));
    };
    // event
    let mut ev = BTreeMap::new();
    let mut arg_values: Vec<Value> = Vec::new();
    if runtime {
        for (n, e) in w["event_src"].as_array().cloned().unwrap_or_default().iter().enumerate() {
            let v = match e {
                J::String(t) => match eval_literal(t) {
                    Some(v) => v,
                    None => return json!({"status": "skipped-unevaluable-literal"}),
                },
                o => vv::dec(&o["$value"]),
            };
            arg_values.push(v.clone());
            ev.insert(vrl::value::KeyString::from(format!("a{n}")), v);
        }
    }
    let event = Value::Object(ev);
    let plain = format!("{name}({args}){cl}");
    let bang = format!("{name}!({args}){cl}");
    let t0 = Instant::now();
    let env = if typed {
        let mut c: vrl::value::kind::Collection<vrl::value::kind::Field> = vrl::value::kind::Collection::empty();
        for (n, v) in arg_values.iter().enumerate() {
            c = c.with_known(format!("a{n}").as_str(), if loose { loosen(v) } else { vrl::value::Kind::from(v) });
        }
        ExternalEnv::new_with_kind(vrl::value::Kind::object(c), vrl::value::Kind::object(vrl::value::kind::Collection::any()))
    } else {
        ExternalEnv::default()
    };
    let compile = |src: &str| FNS.with(|fns| guarded(|| vrlx::compile_ext(src, fns, &env, CompileConfig::default())));
    let (program, used_bang) = match compile(&plain) {
        Err(p) => {
            push("C04", "C04.compile-panic", "compiling a stdlib call does not panic".into(), p);
            return json!({"status": "compile-panic", "viol": viol});
        }
        Ok(Ok(r)) => (r.program, false),
        Ok(Err(_)) => match compile(&bang) {
            Err(p) => {
                push("C04", "C04.compile-panic", "compiling a stdlib call does not panic".into(), p);
                return json!({"status": "compile-panic", "viol": viol});
            }
            Ok(Ok(r)) => (r.program, true),
            Ok(Err(_)) => return json!({"status": "rejected"}),
        },
    };
    let ti = program.final_type_info();
    let mut tgt = vrlx::target(event, vrlx::empty_object());
    let tz = vrlx::utc();
    let outcome = match guarded(|| vrlx::run_runtime(&program, &mut tgt, &tz)) {
        Ok(o) => o,
        Err(p) => {
            // `capacity overflow` is the allocator refusing an absurd size derived from an extreme count:
            // memory exhaustion is out of scope for C04 (its statement says so); counted, not judged.
            if p.starts_with("capacity overflow") {
                // … but it is exactly what C05 forbids: an allocation request that grows with an extreme count
                push("C05", "C05.unbounded-allocation-request", "no argument value makes a call grow its output without bound".into(), p);
                return json!({"status": "run-panic-capacity-overflow(out of scope for C04)", "viol": viol, "bang": used_bang});
            }
            push("C04", "C04.run-panic", "running a stdlib call does not panic".into(), p);
            return json!({"status": "run-panic", "viol": viol, "bang": used_bang});
        }
    };
    let ms = t0.elapsed().as_secs_f64() * 1000.0;
    if let Outcome::Ok(v) = &outcome {
        let size = approx_size(v);
        if size > (4 << 20) {
            push("C05", "C05.output-out-of-proportion", "a few bytes of input give at most 4 MiB of output".into(), format!("result of about {size} bytes"));
        }
    }
    match &outcome {
        Outcome::Ok(v) => {
            let k = ti.result.kind();
            if !member_lenient(v, k) {
                push("C03", "C03.result-in-declared-type", format!("result {} ∈ {k}", vv::show(v)), why_not(v, k).unwrap_or_default());
            }
            let rk = w["return_kind"].as_u64().unwrap_or(u64::from(u16::MAX)) as u16;
            if kind_bit(v) & rk == 0 {
                push("C03", "C03.result-in-return-kind", format!("root kind of {} within documented return_kind mask {rk:#b}", vv::show(v)), format!("kind bit {:#b}", kind_bit(v)));
            }
            if runtime && !typed {
                // a wrong-typed runtime argument must produce an error
                let kinds: Vec<u16> = w["kinds"].as_array().map(|a| a.iter().map(|k| k.as_u64().unwrap_or(0) as u16).collect()).unwrap_or_default();
                for (n, (v, k)) in arg_values.iter().zip(&kinds).enumerate() {
                    if kind_bit(v) & k == 0 {
                        push("C03", "C03.wrong-typed-runtime-argument-errors", format!("argument {n} = {} is outside the parameter kind mask {k:#b}: the call returns an error", vv::show(v)), format!("ok {}", vv::show(tgt_value(&outcome))));
                        break;
                    }
                }
            }
        }
        Outcome::Error(m) => {
            if !used_bang {
                push("C03", "C03.infallible-call-errors", "a call the compiler typed infallible never returns an error".into(), format!("error {m:?}"));
            }
        }
        Outcome::Abort(_) | Outcome::Other(_) | Outcome::Return(_) => {}
    }
    json!({"status": "ran", "class": outcome.class(), "ms": ms, "viol": viol, "bang": used_bang})
}

/// A whole program text (C04's extreme-literal programs): compile, render diagnostics, run on {} — panics only.
fn run_program_case(src: &str) -> J {
    let mut viol: Vec<J> = Vec::new();
    let t0 = Instant::now();
    let compiled = FNS.with(|fns| guarded(|| vrlx::compile_ext(src, fns, &ExternalEnv::default(), CompileConfig::default())));
    let program = match compiled {
        Err(p) => {
            if !p.starts_with("capacity overflow") {
                viol.push(json!({"tag": "C04", "clause": "C04.compile-panic", "expected": "compiling any source text does not panic", "observed": p}));
            }
            return json!({"status": "compile-panic", "viol": viol});
        }
        Ok(Err(d)) => {
            let r = guarded(|| vrl::diagnostic::Formatter::new(src, d).to_string());
            if let Err(p) = r {
                viol.push(json!({"tag": "C04", "clause": "C04.render-panic", "expected": "rendering the diagnostics does not panic", "observed": p}));
            }
            return json!({"status": "rejected", "viol": viol});
        }
        Ok(Ok(r)) => r.program,
    };
    let mut tgt = vrlx::target(vrlx::empty_object(), vrlx::empty_object());
    let tz = vrlx::utc();
    match guarded(|| vrlx::run_runtime(&program, &mut tgt, &tz)) {
        Ok(o) => json!({"status": "ran", "class": o.class(), "ms": t0.elapsed().as_secs_f64() * 1000.0, "viol": viol}),
        Err(p) => {
            if p.starts_with("capacity overflow") {
                return json!({"status": "run-panic-capacity-overflow(out of scope)", "viol": viol});
            }
            viol.push(json!({"tag": "C04", "clause": "C04.run-panic", "expected": "running an accepted program does not panic", "observed": p}));
            json!({"status": "run-panic", "viol": viol})
        }
    }
}

/// Kind of `v` with collections described only by the union of their element kinds (unknown length / keys).
fn loosen(v: &Value) -> vrl::value::Kind {
    use vrl::value::Kind;
    use vrl::value::kind::Collection;
    match v {
        Value::Array(a) => {
            let elem = a.iter().map(loosen).reduce(|x, y| x.union(y));
            Kind::array(elem.map_or_else(Collection::empty, Collection::from_unknown))
        }
        Value::Object(o) => {
            let elem = o.values().map(loosen).reduce(|x, y| x.union(y));
            Kind::object(elem.map_or_else(Collection::empty, Collection::from_unknown))
        }
        other => Kind::from(other),
    }
}

fn approx_size(v: &Value) -> usize {
    match v {
        Value::Bytes(b) => b.len(),
        Value::Array(a) => 8 + a.iter().map(approx_size).sum::<usize>(),
        Value::Object(o) => 8 + o.iter().map(|(k, v)| k.len() + approx_size(v)).sum::<usize>(),
        _ => 8,
    }
}

fn tgt_value(o: &Outcome) -> &Value {
    static NULL_V: Value = Value::Null;
    o.value().unwrap_or(&NULL_V)
}

// ---------------------------------------------------------------------------------------------
// Worker process

pub fn worker_main(args: &[String]) -> i32 {
    // vrlmc worker sweep <cases> <start> <end> <out>
    let cases_path = &args[0];
    let start: usize = args[1].parse().unwrap_or(0);
    let end: usize = args[2].parse().unwrap_or(0);
    let out_path = &args[3];
    let stride: usize = args.get(4).and_then(|s| s.parse().ok()).unwrap_or(1).max(1);
    unsafe {
        let lim = libc::rlimit { rlim_cur: 3 << 30, rlim_max: 3 << 30 };
        libc::setrlimit(libc::RLIMIT_AS, &lim);
    }
    let file = std::fs::File::open(cases_path).expect("cases file");
    let mut out = std::fs::OpenOptions::new().create(true).append(true).open(out_path).expect("out file");
    for (idx, line) in std::io::BufReader::new(file).lines().enumerate() {
        if idx < start || (idx - start) % stride != 0 {
            continue;
        }
        if idx >= end {
            break;
        }
        let line = line.expect("line");
        let w: J = serde_json::from_str(&line).expect("case json");
        writeln!(out, "B {idx}").ok();
        out.flush().ok();
        let r = match guarded(|| run_case(&w)) {
            Ok(r) => r,
            Err(p) => json!({"status": "harness-panic", "panic": p}),
        };
        writeln!(out, "R {idx} {r}").ok();
        out.flush().ok();
    }
    writeln!(out, "D").ok();
    0
}

/// CPU seconds (user + system) consumed so far by process `pid` (Linux /proc; clock tick = 10 ms).
fn cpu_seconds(pid: u32) -> Option<f64> {
    let stat = std::fs::read_to_string(format!("/proc/{pid}/stat")).ok()?;
    let rest = &stat[stat.rfind(')')? + 2..];
    let f: Vec<&str> = rest.split_whitespace().collect();
    let utime: f64 = f.get(11)?.parse().ok()?;
    let stime: f64 = f.get(12)?.parse().ok()?;
    Some((utime + stime) / 100.0)
}

struct Worker {
    cpu_at_case_start: f64,
    child: std::process::Child,
    out_path: std::path::PathBuf,
    read_to: u64,
    end: usize,
    current: Option<(usize, Instant)>,
    done: bool,
}

#[derive(Default)]
pub struct SweepResult {
    pub results: BTreeMap<usize, J>,
    pub hangs: Vec<usize>,
    pub crashes: Vec<(usize, String)>,
    pub slow_but_finished: Vec<(usize, f64)>,
}

fn spawn(cases: &std::path::Path, start: usize, end: usize, out: &std::path::Path, stride: usize) -> std::process::Child {
    let exe = std::env::current_exe().expect("exe");
    std::process::Command::new(exe)
        .args(["worker", "sweep", cases.to_str().unwrap(), &start.to_string(), &end.to_string(), out.to_str().unwrap(), &stride.to_string()])
        .stdout(std::process::Stdio::null())
        .stderr(std::process::Stdio::null())
        .spawn()
        .expect("spawn worker")
}

/// Run all cases in `cases_path` (n lines) over sacrificial workers; per-case wall budget.
pub fn run_workers(cases_path: &std::path::Path, n: usize, budget: Duration, tag: &str) -> SweepResult {
    let nw = crate::util::threads().min(n.max(1));
    let dir = verif_root().join("work");
    std::fs::create_dir_all(&dir).ok();
    let mut res = SweepResult::default();
    // cases are striped over the workers (worker w runs w, w+nw, w+2nw, …) so that the hanging
    // calls of one function do not serialise behind a single watchdog
    let mut workers: Vec<Worker> = Vec::new();
    for wi in 0..nw {
        if wi >= n {
            continue;
        }
        let out_path = dir.join(format!("sweep.{tag}.{wi}.out"));
        std::fs::remove_file(&out_path).ok();
        workers.push(Worker { cpu_at_case_start: 0.0, child: spawn(cases_path, wi, n, &out_path, nw), out_path, read_to: 0, end: n, current: None, done: false });
    }
    let stride = nw;
    loop {
        let mut all_done = true;
        for w in &mut workers {
            if w.done {
                continue;
            }
            all_done = false;
            // read new output
            if let Ok(text) = std::fs::read_to_string(&w.out_path) {
                let bytes = text.as_bytes();
                if (bytes.len() as u64) > w.read_to {
                    let new = &text[w.read_to as usize..];
                    // only complete lines
                    let upto = new.rfind('\n').map_or(0, |p| p + 1);
                    for line in new[..upto].lines() {
                        if let Some(rest) = line.strip_prefix("B ") {
                            w.current = rest.trim().parse().ok().map(|i| (i, Instant::now()));
                            w.cpu_at_case_start = cpu_seconds(w.child.id()).unwrap_or(0.0);
                        } else if let Some(rest) = line.strip_prefix("R ") {
                            if let Some((idx, json)) = rest.split_once(' ') {
                                if let (Ok(i), Ok(j)) = (idx.parse::<usize>(), serde_json::from_str::<J>(json)) {
                                    res.results.insert(i, j);
                                    w.current = None;
                                }
                            }
                        } else if line == "D" {
                            w.done = true;
                        }
                    }
                    w.read_to += upto as u64;
                }
            }
            if w.done {
                let _ = w.child.wait();
                continue;
            }
            let exited = w.child.try_wait().ok().flatten();
            // The verdict uses the CPU time the worker burnt on the case (robust against machine load);
            // wall-clock time is only a backstop (15x) for a call that blocks without computing.
            let timed_out = w.current.is_some_and(|(_, t)| {
                let cpu = cpu_seconds(w.child.id()).unwrap_or(0.0) - w.cpu_at_case_start;
                cpu > budget.as_secs_f64() || t.elapsed() > budget * 15
            });
            if timed_out || exited.is_some() {
                // make sure everything the worker wrote has been consumed before judging
                if exited.is_some() {
                    if let Ok(text) = std::fs::read_to_string(&w.out_path) {
                        if (text.len() as u64) > w.read_to {
                            continue; // next loop iteration will parse the rest
                        }
                    }
                }
                let idx = w.current.map(|(i, _)| i);
                if timed_out {
                    let _ = w.child.kill();
                    let _ = w.child.wait();
                    if let Some(i) = idx {
                        res.hangs.push(i);
                    }
                } else if let Some(i) = idx {
                    res.crashes.push((i, format!("{:?}", exited.unwrap())));
                }
                match idx {
                    Some(i) if i + stride < w.end => {
                        w.child = spawn(cases_path, i + stride, w.end, &w.out_path, stride);
                        w.current = None;
                    }
                    Some(_) => w.done = true,
                    None => {
                        // died outside a case (startup): give up on this shard
                        if exited.is_some() {
                            w.done = true;
                            res.crashes.push((usize::MAX, format!("worker died outside a case: {exited:?}")));
                        }
                    }
                }
            }
        }
        if all_done {
            break;
        }
        std::thread::sleep(Duration::from_millis(20));
    }
    for w in &workers {
        std::fs::remove_file(&w.out_path).ok();
    }
    res
}

pub struct Sweep {
    pub cases: Vec<J>,
    pub result: SweepResult,
    pub confirmed_hangs: Vec<usize>,
    pub functions: usize,
    pub per_function: BTreeMap<String, (u64, u64, u64)>, // cases, ran, ok
    pub program_timeouts: usize,
}

pub fn sweep(tier: Tier, tag: &str) -> Sweep {
    let sp = specs(tier);
    let cap = if tier.thorough() { 4000 } else { 180 };
    let mut cases: Vec<J> = Vec::new();
    for s in &sp {
        for mut c in cases_for(s, cap, tier.thorough()) {
            c["return_kind"] = json!(s.return_kind);
            cases.push(c);
        }
    }
    // whole programs with extreme integer / index / float literals (run here because they may hang or exhaust memory)
    for src in crate::props::c33::c04_extreme_texts() {
        cases.push(json!({"fn": "<program>", "mode": "program", "src": src}));
    }
    let dir = verif_root().join("work");
    std::fs::create_dir_all(&dir).ok();
    let path = dir.join(format!("sweep.{tag}.cases"));
    {
        let mut f = std::io::BufWriter::new(std::fs::File::create(&path).expect("cases file"));
        for c in &cases {
            writeln!(f, "{c}").ok();
        }
    }
    let budget = Duration::from_secs(4);
    let result = run_workers(&path, cases.len(), budget, tag);
    // confirm hangs in fresh workers with a 15x budget (all suspected cases at once, in parallel)
    let mut result = result;
    // A suspected hang whose exact witness is already listed as a known finding is not re-confirmed
    // (it is reported through the known-findings file either way); every other suspect is.
    let known = crate::report::known_hashes("C05");
    let is_known = |i: usize| known.contains(&Violation::new("C05.call-does-not-return", witness(&cases[i]), "", "").hash("C05"));
    // whole-program cases (C04's extreme literals) are not stdlib calls: C05 does not judge them, so a
    // timeout there (e.g. `.a[4294967296] = 1` padding four billion nulls) is only counted
    let is_program = |i: usize| cases[i]["mode"] == "program";
    let suspects: Vec<usize> = result.hangs.iter().copied().filter(|i| !is_known(*i) && !is_program(*i)).collect();
    let mut confirmed: Vec<usize> = result.hangs.iter().copied().filter(|i| is_known(*i) && !is_program(*i)).collect();
    let program_timeouts = result.hangs.iter().filter(|i| is_program(**i)).count();
    if !suspects.is_empty() {
        let p1 = dir.join(format!("sweep.{tag}.confirm.cases"));
        {
            let mut f = std::io::BufWriter::new(std::fs::File::create(&p1).expect("confirm file"));
            for &h in &suspects {
                writeln!(f, "{}", cases[h]).ok();
            }
        }
        let r = run_workers(&p1, suspects.len(), Duration::from_secs(60), &format!("{tag}.confirm"));
        for (k, &h) in suspects.iter().enumerate() {
            if r.hangs.contains(&k) {
                confirmed.push(h);
            } else if let Some(j) = r.results.get(&k) {
                result.slow_but_finished.push((h, j["ms"].as_f64().unwrap_or(0.0)));
                result.results.insert(h, j.clone());
            } else if let Some((_, why)) = r.crashes.iter().find(|(i, _)| *i == k) {
                result.crashes.push((h, why.clone()));
            }
        }
        std::fs::remove_file(&p1).ok();
    }
    std::fs::remove_file(&path).ok();
    let mut per_function: BTreeMap<String, (u64, u64, u64)> = BTreeMap::new();
    for (i, c) in cases.iter().enumerate() {
        let e = per_function.entry(c["fn"].as_str().unwrap_or("").to_string()).or_insert((0, 0, 0));
        e.0 += 1;
        if let Some(r) = result.results.get(&i) {
            if r["status"] == "ran" {
                e.1 += 1;
                if r["class"] == "ok" {
                    e.2 += 1;
                }
            }
        }
    }
    Sweep { functions: sp.len(), cases, result, confirmed_hangs: confirmed, per_function, program_timeouts }
}

fn witness(c: &J) -> J {
    let mut w = c.clone();
    if let Some(o) = w.as_object_mut() {
        o.remove("return_kind");
    }
    w
}

pub fn run_for(property: &'static str, tier: Tier) -> Report {
    let mut rep = Report::new(property, tier, "exploration");
    let sw = sweep(tier, property);
    let mut ran = 0u64;
    let mut rejected = 0u64;
    let mut classes: BTreeMap<String, u64> = BTreeMap::new();
    let mut nontrivial = 0u64;
    let mut other_tags = 0u64;
    let mut max_ms = 0f64;
    for (i, c) in sw.cases.iter().enumerate() {
        let Some(r) = sw.result.results.get(&i) else { continue };
        let status = r["status"].as_str().unwrap_or("?");
        *classes.entry(format!("{status}:{}", r["class"].as_str().unwrap_or("-"))).or_insert(0) += 1;
        if status == "ran" {
            ran += 1;
            nontrivial += 1;
            max_ms = max_ms.max(r["ms"].as_f64().unwrap_or(0.0));
        } else if status == "rejected" {
            rejected += 1;
        }
        if status == "harness-panic" {
            rep.violation(Violation::new("harness-panic", witness(c), "harness completes", r["panic"].to_string()));
        }
        for v in r["viol"].as_array().cloned().unwrap_or_default() {
            if v["tag"] == property {
                rep.violation(Violation::new(v["clause"].as_str().unwrap_or("?"), witness(c), v["expected"].as_str().unwrap_or(""), v["observed"].as_str().unwrap_or("")));
            } else {
                other_tags += 1;
            }
        }
    }
    if property == "C05" {
        for &h in &sw.confirmed_hangs {
            rep.violation(Violation::new("C05.call-does-not-return", witness(&sw.cases[h]), "the call returns within 4 s of CPU time (confirmed with a 60 s CPU budget in a fresh worker); inputs are a few bytes", "no result: worker killed by the watchdog"));
        }
        for (i, why) in &sw.result.crashes {
            if *i != usize::MAX && sw.cases[*i]["mode"] != "program" {
                rep.violation(Violation::new("C05.worker-died-resource-exhaustion", witness(&sw.cases[*i]), "bounded memory / orderly return for a few bytes of input", format!("worker process died: {why} (address space capped at 3 GiB)")));
            }
        }
    }
    if property == "C04" {
        // a worker that dies is either resource exhaustion (out of scope for C04, judged by C05) or an abort
        rep.set("worker_deaths_seen(judged by C05)", sw.result.crashes.len() as u64);
    }
    rep.set("functions_swept", sw.functions as u64);
    rep.set("evaluations", sw.cases.len() as u64);
    rep.set("distinct_nontrivial", nontrivial);
    rep.set("calls_accepted_and_run", ran);
    rep.set("calls_rejected_by_compiler", rejected);
    rep.set("outcome_classes", json!(classes));
    rep.set("violations_of_other_properties_seen", other_tags);
    rep.set("hangs_first_pass", sw.result.hangs.len() as u64);
    rep.set("hangs_confirmed", sw.confirmed_hangs.len() as u64);
    rep.set("whole_program_cases_timed_out(resource exhaustion; not stdlib calls; not judged)", sw.program_timeouts as u64);
    rep.set("slow_but_finished", json!(sw.result.slow_but_finished.iter().map(|(i, ms)| json!({"case": sw.cases[*i]["fn"], "ms": ms})).collect::<Vec<_>>()));
    rep.set("max_call_ms", max_ms);
    let zero_ran: Vec<&String> = sw.per_function.iter().filter(|(_, v)| v.1 == 0).map(|(k, _)| k).collect();
    let zero_ok: Vec<&String> = sw.per_function.iter().filter(|(_, v)| v.1 > 0 && v.2 == 0).map(|(k, _)| k).collect();
    rep.set("functions_with_no_accepted_call", json!(zero_ran));
    rep.set("functions_with_no_successful_call", json!(zero_ok));
    rep.set(
        "rule",
        "for every stdlib function (nondeterministic/IO ones excluded): full cross product of the required parameters' alphabets (declared enum variants + literals harvested from the function's own examples + per-kind edge values; shrunk longest-first to the per-function cap), each optional parameter added one value at a time (thorough: also pairs), every closure body of the alphabet; each tuple as all-literal arguments, as runtime-typed arguments (`.a0`, … read from the event, environment `any`) and as runtime-typed arguments under an environment declaring their exact kinds plus non-UTF-8 bytes / ±inf in every required position; a case is non-trivial when the compiler accepted the call (plain or with `!`) and it was executed; distinct by construction (the cross product has no repeats)",
    );
    rep.assume("every call runs in a sacrificial worker process (RLIMIT_AS 3 GiB; watchdog: 4 s of CPU time per call, re-confirmed with 60 s of CPU time in a fresh worker unless the exact witness is a listed known finding; wall-clock only as a 15x backstop)");
    rep.assume("excluded: dns_lookup, reverse_dns, http_request (network) and log (writes to the process output); random/environment functions are swept (type, panics, termination) but their values are never compared");
    for c in sw.cases.iter().step_by((sw.cases.len() / 6).max(1)).take(6) {
        rep.sample(witness(c));
    }
    rep
}

pub fn run_c03(tier: Tier) -> Report {
    run_for("C03", tier)
}
/// C04 = runtime half (this sweep) + compile half (the token-sequence / edit enumeration of c33.rs in
/// C04 mode: compile, render and run under catch_unwind, label positions not judged).
pub fn run_c04_sweep(tier: Tier) -> Report {
    let rep = run_for("C04", tier);
    let sweep_rule = rep.coverage.get("rule").and_then(J::as_str).unwrap_or("").to_string();
    crate::props::c33::C04_MODE.store(true, std::sync::atomic::Ordering::Relaxed);
    let mut rep = crate::props::c33::run_with(rep, tier);
    crate::props::c33::C04_MODE.store(false, std::sync::atomic::Ordering::Relaxed);
    let text_rule = rep.coverage.get("rule").and_then(J::as_str).unwrap_or("").to_string();
    rep.set("rule", format!("RUNTIME HALF: {sweep_rule} || COMPILE HALF (every text is parsed, compiled under two environments, its diagnostics rendered, and the accepted program run on an empty event, all under catch_unwind): {text_rule}"));
    rep.assumptions.retain(|a| !a.contains("label") && !a.contains("reduced"));
    rep
}
pub fn run_c05(tier: Tier) -> Report {
    run_for("C05", tier)
}

pub fn replay(property: &str, w: &J) -> Vec<Violation> {
    // single case in a sacrificial worker (the case may hang or abort)
    let dir = verif_root().join("work");
    std::fs::create_dir_all(&dir).ok();
    let p = dir.join("sweep.replay.cases");
    let mut c = w.clone();
    // return_kind is not part of the witness; look it up again
    let name = w["fn"].as_str().unwrap_or("");
    if let Some(f) = vrlx::fns().iter().find(|f| f.identifier() == name) {
        c["return_kind"] = json!(f.return_kind());
    }
    std::fs::write(&p, format!("{c}\n")).ok();
    let r = run_workers(&p, 1, Duration::from_secs(60), "replay");
    std::fs::remove_file(&p).ok();
    let mut out = Vec::new();
    if property == "C05" {
        if !r.hangs.is_empty() {
            out.push(Violation::new("C05.call-does-not-return", w.clone(), "the call returns within 4 s of CPU time (confirmed with a 60 s CPU budget in a fresh worker); inputs are a few bytes", "no result: worker killed by the watchdog"));
        }
        for (_, why) in &r.crashes {
            out.push(Violation::new("C05.worker-died-resource-exhaustion", w.clone(), "bounded memory / orderly return for a few bytes of input", format!("worker process died: {why} (address space capped at 3 GiB)")));
        }
    }
    if let Some(j) = r.results.get(&0) {
        for v in j["viol"].as_array().cloned().unwrap_or_default() {
            if v["tag"] == property {
                out.push(Violation::new(v["clause"].as_str().unwrap_or("?"), w.clone(), v["expected"].as_str().unwrap_or(""), v["observed"].as_str().unwrap_or("")));
            }
        }
    }
    out
}
