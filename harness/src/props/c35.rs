//! C35 — embedder type conversions (`Conversion::parse` / `Conversion::convert`) round-trip the
//! canonical text rendering of a value, and zone-carrying timestamp text yields the same instant
//! under every default timezone.
//!
//! The subject is called through vrl's public API. The canonical text is produced here with
//! Rust std (`{}`, `{:e}`, `{:?}`) and chrono (`to_rfc3339_opts`, `format`) — i.e. by the
//! *formatting* side, which shares no code with the parsing side under test.

use crate::law::{self, CaseResult};
use crate::report::{Report, Tier, Violation};
use crate::util::guarded;
use crate::vv;
use bytes::Bytes;
use chrono::{DateTime, Datelike, FixedOffset, LocalResult, NaiveDateTime, SecondsFormat, TimeZone as _, Timelike, Utc};
use serde_json::{Value as J, json};
use std::collections::BTreeSet;
use vrl::compiler::TimeZone;
use vrl::compiler::conversion::Conversion;
use vrl::value::Value;

// --------------------------------------------------------------------------------- timezones

pub const NAMED_ZONES: [&str; 10] = [
    "UTC",
    "Etc/GMT+12",
    "Etc/GMT-14",
    "Asia/Kolkata",
    "Asia/Kathmandu",
    "America/New_York",
    "America/St_Johns",
    "Europe/London",
    "Australia/Lord_Howe",
    "Pacific/Apia",
];
pub const TZ_ENVS: [&str; 3] = ["UTC", "Asia/Tokyo", "America/New_York"];

pub fn zone(name: &str) -> TimeZone {
    if name == "local" { TimeZone::Local } else { TimeZone::parse(name).unwrap_or_else(|| panic!("zone {name}")) }
}

/// Make the process-wide `TZ` variable equal to `want` (only writes when it differs: during a
/// run the driver sets it while no worker thread exists; a replay is single-threaded).
pub fn ensure_tz_env(want: &str) {
    if std::env::var("TZ").ok().as_deref() != Some(want) {
        // SAFETY: see above — never executed while other threads are running.
        unsafe { std::env::set_var("TZ", want) };
    }
}

// --------------------------------------------------------------------------------- alphabets

fn int_alphabet(deep: bool) -> Vec<i64> {
    let mut s: BTreeSet<i64> = BTreeSet::new();
    let r = if deep { 2000 } else { 300 };
    for i in -r..=r {
        s.insert(i);
    }
    for k in [7u32, 8, 15, 16, 24, 31, 32, 52, 53, 62] {
        let p = 1i64 << k;
        for d in -2..=2 {
            s.insert(p + d);
            s.insert(-(p + d));
        }
    }
    let mut p: i64 = 1;
    for _ in 0..18 {
        p *= 10;
        for d in -1..=1 {
            s.insert(p + d);
            s.insert(-(p + d));
        }
    }
    for d in 0..3 {
        s.insert(i64::MIN + d);
        s.insert(i64::MAX - d);
    }
    s.into_iter().collect()
}

fn float_alphabet(deep: bool) -> Vec<f64> {
    let mut v = vec![
        0.0,
        -0.0,
        0.1,
        0.2,
        0.3,
        1.0 / 3.0,
        1e-7,
        1e21,
        1e22,
        1e23,
        5e-324,
        f64::MIN_POSITIVE,
        2.225_073_858_507_201e-308,
        f64::MAX,
        f64::MIN,
        f64::EPSILON,
        9_007_199_254_740_992.0,
        9_007_199_254_740_994.0,
        1e15 + 0.5,
        123.456,
        -1.5,
        1e300,
        1e-300,
        1.0,
        -1.0,
        100.0,
        1e16,
        0.000_001,
        std::f64::consts::PI,
        9.223_372_036_854_775_8e18,
        4.35,
        2.5e-5,
        8.41e21,
        2.0f64.powi(-1074),
        1.797_693_134_862_315_5e308,
    ];
    // a regular sweep over the bit representation: exponents x mantissa patterns x sign
    let step = if deep { 3 } else { 29 };
    let mut e = 0u64;
    while e < 2047 {
        for m in [0u64, 1, 0xf_ffff_ffff_ffff, 0x8_0000_0000_0000, 0x5_5555_5555_5555, 0x3_243f_6a88_85a3] {
            for sign in [0u64, 1] {
                let f = f64::from_bits((sign << 63) | (e << 52) | m);
                if f.is_finite() {
                    v.push(f);
                }
            }
        }
        e += step;
    }
    v
}

fn case_variants(word: &str) -> Vec<String> {
    let chars: Vec<char> = word.chars().collect();
    (0u32..(1 << chars.len()))
        .map(|mask| chars.iter().enumerate().map(|(i, c)| if mask & (1 << i) != 0 { c.to_ascii_uppercase() } else { *c }).collect())
        .collect()
}

fn ts(s: &str) -> DateTime<Utc> {
    DateTime::parse_from_rfc3339(s).expect("ts").with_timezone(&Utc)
}

pub fn instants(deep: bool) -> Vec<DateTime<Utc>> {
    let mut v: BTreeSet<DateTime<Utc>> = [
        "1970-01-01T00:00:00Z",
        "1969-12-31T23:59:59Z",
        "1969-12-31T23:59:59.5Z",
        "1970-01-01T00:00:00.000000001Z",
        "2021-02-03T04:05:06Z",
        "2021-02-03T04:05:06.789Z",
        "2021-02-03T04:05:06.789012Z",
        "2021-02-03T04:05:06.789012345Z",
        "2021-02-03T04:05:06.000000001Z",
        "2021-02-03T04:05:06.999999999Z",
        "2021-02-03T04:05:06.100Z",
        "2000-02-29T12:00:00Z",
        "2020-12-31T23:59:59Z",
        "2021-01-01T00:00:00Z",
        "2038-01-19T03:14:08Z",
        "2001-09-09T01:46:40Z",
        "1999-12-31T12:00:00Z",
        "2069-12-31T23:59:59Z",
        "1900-01-01T00:00:00Z",
        "1800-06-15T12:30:45Z",
        "0001-01-01T00:00:00Z",
        "0000-06-01T00:00:00Z",
        "9999-12-31T23:59:59Z",
        "9999-06-30T11:00:00.5Z",
        "2021-07-04T12:00:00Z",
        "2021-10-10T10:10:10Z",
        "2021-12-05T00:00:00Z",
        "2024-02-29T23:59:59.999Z",
    ]
    .iter()
    .map(|s| ts(s))
    .collect();
    // around DST transitions / date-line change of the named zones (30-minute grid)
    let centres = [
        "2021-03-14T07:00:00Z", // New_York spring forward
        "2021-11-07T06:00:00Z", // New_York fall back
        "2021-03-28T01:00:00Z", // London spring forward
        "2021-10-31T01:00:00Z", // London fall back
        "2021-04-03T15:00:00Z", // Lord_Howe fall back (30 min)
        "2021-10-02T15:30:00Z", // Lord_Howe spring forward
        "2011-12-30T10:00:00Z", // Apia skips a day
        "2021-03-14T05:30:00Z", // St_Johns spring forward
        "2021-11-07T04:30:00Z", // St_Johns fall back
        "1985-12-31T18:15:00Z", // Kathmandu +5:30 -> +5:45
    ];
    let span = if deep { 12 } else { 5 };
    for c in centres {
        let c = ts(c);
        for k in -span..=span {
            v.insert(c + chrono::Duration::minutes(30 * k));
            if deep {
                v.insert(c + chrono::Duration::minutes(30 * k) + chrono::Duration::nanoseconds(123_456_789));
            }
        }
        v.insert(c - chrono::Duration::seconds(1));
        v.insert(c + chrono::Duration::milliseconds(1));
    }
    v.into_iter().collect()
}

/// (strftime format, granularity in nanoseconds, kind). Kinds: "zoned" carries a numeric offset,
/// "epoch" is absolute without a zone, "zonename" prints a zone name/abbreviation (`%Z`),
/// "naive" is wall-clock time without a zone, "naive-2y" the same with a two-digit year.
pub const FORMATS: [(&str, u32, &str); 24] = [
    ("%+", 1, "zoned"),
    ("%Y-%m-%dT%H:%M:%S%.f%:z", 1, "zoned"),
    ("%Y-%m-%dT%H:%M:%S%.3f%z", 1_000_000, "zoned"),
    ("%Y-%m-%d %H:%M:%S %z", 1_000_000_000, "zoned"),
    ("%d/%b/%Y:%T %z", 1_000_000_000, "zoned"),
    ("%a %d %b %T %z %Y", 1_000_000_000, "zoned"),
    ("%a, %d %b %Y %T %z", 1_000_000_000, "zoned"),
    ("%Y%m%dT%H%M%S%.6f%:z", 1_000, "zoned"),
    ("%s", 1_000_000_000, "epoch"),
    ("%s%.3f", 1_000_000, "epoch"),
    ("%Y-%m-%d %H:%M:%S %Z", 1_000_000_000, "zonename"),
    ("%Y-%m-%d %H:%M:%S", 1_000_000_000, "naive"),
    ("%F %T%.6f", 1_000, "naive"),
    ("%Y-%m-%dT%H:%M:%S%.9f", 1, "naive"),
    ("%FT%T", 1_000_000_000, "naive"),
    ("%v %T", 1_000_000_000, "naive"),
    ("%m/%d/%Y:%T", 1_000_000_000, "naive"),
    ("%a, %d %b %Y %T", 1_000_000_000, "naive"),
    ("%a %b %e %T %Y", 1_000_000_000, "naive"),
    ("%A %d %B %T %Y", 1_000_000_000, "naive"),
    ("%I:%M:%S %p %d %b %Y", 1_000_000_000, "naive"),
    ("%j %Y %T", 1_000_000_000, "naive"),
    ("%G-W%V-%u %T", 1_000_000_000, "naive"),
    ("%y%m%d %H%M%S", 1_000_000_000, "naive-2y"),
];

/// Formats that `Conversion::Timestamp` (name "timestamp") documents as guessed.
const AUTO_NAIVE: [&str; 8] = ["%F %T", "%v %T", "%FT%T", "%m/%d/%Y:%T", "%a, %d %b %Y %T", "%a %d %b %T %Y", "%A %d %B %T %Y", "%a %b %e %T %Y"];
const AUTO_ZONED: [&str; 4] = ["%+", "%a %d %b %T %z %Y", "%d/%b/%Y:%T %z", "%a, %d %b %Y %T %z"];

const RENDER_OFFSETS: [i32; 8] = [0, 19_800, -25_200, 50_400, -43_200, 60, -1_800, 20_700];

fn floor_to(t: DateTime<Utc>, gran: u32) -> DateTime<Utc> {
    let n = t.nanosecond() % 1_000_000_000;
    t.with_nanosecond(n - n % gran).expect("nanos")
}

fn fmt_guarded<Z: chrono::TimeZone>(t: &DateTime<Z>, f: &str) -> Option<String>
where
    Z::Offset: std::fmt::Display,
{
    use std::fmt::Write;
    guarded(|| {
        let mut s = String::new();
        write!(s, "{}", t.format(f)).ok().map(|()| s)
    })
    .ok()
    .flatten()
}

// -------------------------------------------------------------------------------------- cases

fn parse_conv(name: &str, tz: TimeZone) -> Result<Conversion, String> {
    match guarded(|| Conversion::parse(name, tz)) {
        Ok(Ok(c)) => Ok(c),
        Ok(Err(e)) => Err(format!("rejected: {e}")),
        Err(p) => Err(format!("panic: {p}")),
    }
}

fn convert(c: &Conversion, text: &[u8]) -> Result<Value, String> {
    match guarded(|| c.convert::<Value>(Bytes::copy_from_slice(text))) {
        Ok(Ok(v)) => Ok(v),
        Ok(Err(e)) => Err(format!("error: {e}")),
        Err(p) => Err(format!("panic: {p}")),
    }
}

fn show_res(r: &Result<Value, String>) -> String {
    match r {
        Ok(v) => vv::show(v),
        Err(e) => e.clone(),
    }
}

fn scalar_case(w: &J) -> CaseResult {
    let name = w["name"].as_str().unwrap_or("");
    let kind = w["kind"].as_str().unwrap_or("");
    let conv = match parse_conv(name, zone("UTC")) {
        Ok(c) => c,
        Err(e) => {
            return CaseResult::trivial("name-rejected").violation(Violation::new("C35.documented-name-accepted", w.clone(), "the documented conversion name is accepted", e));
        }
    };
    let (text, want): (Vec<u8>, Value) = match kind {
        "int" => {
            let i = w["value"].as_i64().unwrap_or(0);
            (i.to_string().into_bytes(), Value::Integer(i))
        }
        "float" => {
            let f = vv::parse_float(w["value"].as_str().unwrap_or("0"));
            let text = match w["render"].as_str().unwrap_or("") {
                "display" => format!("{f}"),
                "debug" => format!("{f:?}"),
                "lower-exp" => format!("{f:e}"),
                "upper-exp" => format!("{f:E}"),
                _ => format!("{f}"),
            };
            (text.into_bytes(), vv::f(f))
        }
        "bool" => {
            let text = w["text"].as_str().unwrap_or("").to_string();
            (text.into_bytes(), Value::Boolean(w["value"].as_bool().unwrap_or(false)))
        }
        "bytes" => {
            let b = vv::dec(&w["value"]);
            let Value::Bytes(raw) = &b else { return CaseResult::trivial("bad-witness") };
            (raw.to_vec(), b.clone())
        }
        _ => return CaseResult::trivial("bad-witness"),
    };
    let got = convert(&conv, &text);
    let same = match (&got, &want) {
        (Ok(Value::Float(a)), Value::Float(b)) => a.into_inner().to_bits() == b.into_inner().to_bits(),
        (Ok(a), b) => a == b,
        _ => false,
    };
    let mut r = CaseResult::ok(&format!("{kind}:{}", if got.is_ok() { "converted" } else { "error" }));
    r.nontrivial = got.is_ok();
    if !same {
        r = r.violation(Violation::new(
            &format!("C35.{kind}-roundtrip"),
            w.clone(),
            format!("{} from text {:?}", vv::show(&want), String::from_utf8_lossy(&text)),
            show_res(&got),
        ));
    }
    r
}

fn offset_of(secs: i64) -> FixedOffset {
    FixedOffset::east_opt(secs as i32).expect("offset")
}

/// Wall-clock reading of `t` in the default zone, and whether that reading is unambiguous there.
fn local_reading(t: DateTime<Utc>, tzname: &str) -> (NaiveDateTime, bool) {
    if tzname == "local" {
        let l = t.with_timezone(&chrono::Local);
        let n = l.naive_local();
        (n, matches!(chrono::Local.from_local_datetime(&n), LocalResult::Single(_)))
    } else {
        let z: chrono_tz::Tz = tzname.parse().expect("tz");
        let l = t.with_timezone(&z);
        let n = l.naive_local();
        (n, matches!(z.from_local_datetime(&n), LocalResult::Single(_)))
    }
}

fn render_local(t: DateTime<Utc>, tzname: &str, f: &str) -> Option<String> {
    if tzname == "local" {
        fmt_guarded(&t.with_timezone(&chrono::Local), f)
    } else {
        let z: chrono_tz::Tz = tzname.parse().expect("tz");
        fmt_guarded(&t.with_timezone(&z), f)
    }
}

fn ts_case(w: &J) -> CaseResult {
    if let Some(env) = w["tz_env"].as_str() {
        ensure_tz_env(env);
    }
    let name = w["name"].as_str().unwrap_or("");
    let tzname = w["tz"].as_str().unwrap_or("UTC");
    let t = match vv::dec(&w["ts"]) {
        Value::Timestamp(t) => t,
        _ => return CaseResult::trivial("bad-witness"),
    };
    let mode = w["mode"].as_str().unwrap_or("");
    // ---- build the canonical text and the expected instant
    let (text, want, judged_error, clause): (String, DateTime<Utc>, bool, &str) = match mode {
        // RFC 3339 text, any offset, every seconds format
        "rfc3339" => {
            let off = offset_of(w["offset"].as_i64().unwrap_or(0));
            let local = t.with_timezone(&off);
            if !(0..=9999).contains(&local.year()) {
                return CaseResult::trivial("year-outside-rfc3339").count("ts_skipped_year_outside_0_9999", 1);
            }
            let (sf, gran) = match w["seconds"].as_str().unwrap_or("") {
                "secs" => (SecondsFormat::Secs, 1_000_000_000),
                "millis" => (SecondsFormat::Millis, 1_000_000),
                "micros" => (SecondsFormat::Micros, 1_000),
                "nanos" => (SecondsFormat::Nanos, 1),
                _ => (SecondsFormat::AutoSi, 1),
            };
            let text = local.to_rfc3339_opts(sf, w["use_z"].as_bool().unwrap_or(false));
            (text, floor_to(t, gran), true, "C35.timestamp-rfc3339-roundtrip")
        }
        // text in a strftime format that carries a numeric offset (or epoch seconds)
        "zoned" => {
            let f = w["render"].as_str().unwrap_or("");
            let gran = w["gran"].as_u64().unwrap_or(1) as u32;
            let off = offset_of(w["offset"].as_i64().unwrap_or(0));
            let local = t.with_timezone(&off);
            if !(0..=9999).contains(&local.year()) {
                return CaseResult::trivial("year-outside-4-digits").count("ts_skipped_year_outside_0_9999", 1);
            }
            // (`%Z` of a UTC date-time prints "UTC", of a fixed offset "+05:30")
            let rendered = if off.local_minus_utc() == 0 && f.contains("%Z") { fmt_guarded(&t, f) } else { fmt_guarded(&local, f) };
            let Some(text) = rendered else { return CaseResult::trivial("unrenderable").count("ts_unrenderable", 1) };
            let judged = w["judge_error"].as_bool().unwrap_or(true);
            let clause = if f.contains("%Z") {
                "C35.timestamp-zone-name-format"
            } else if f.starts_with("%s") && text.starts_with('-') {
                "C35.timestamp-epoch-format-negative"
            } else if f.starts_with("%s") {
                "C35.timestamp-epoch-format-roundtrip"
            } else {
                "C35.timestamp-zoned-format-roundtrip"
            };
            (text, floor_to(t, gran), judged, clause)
        }
        // wall-clock text in the default zone
        "naive" => {
            let f = w["render"].as_str().unwrap_or("");
            let gran = w["gran"].as_u64().unwrap_or(1) as u32;
            let (reading, unambiguous) = local_reading(t, tzname);
            if !(0..=9999).contains(&reading.year()) {
                return CaseResult::trivial("year-outside-4-digits").count("ts_skipped_year_outside_0_9999", 1);
            }
            if w["two_digit_year"].as_bool().unwrap_or(false) && !(1970..=2068).contains(&reading.year()) {
                return CaseResult::trivial("two-digit-year-out-of-window").count("ts_skipped_two_digit_year", 1);
            }
            if !unambiguous {
                return CaseResult::trivial("ambiguous-wall-clock").count("ts_skipped_ambiguous_wall_clock", 1);
            }
            let Some(text) = render_local(t, tzname, f) else { return CaseResult::trivial("unrenderable").count("ts_unrenderable", 1) };
            (text, floor_to(t, gran), true, "C35.timestamp-naive-format-roundtrip")
        }
        _ => return CaseResult::trivial("bad-witness"),
    };
    let conv = match parse_conv(name, zone(tzname)) {
        Ok(c) => c,
        Err(e) => return CaseResult::trivial("name-rejected").violation(Violation::new("C35.documented-name-accepted", w.clone(), "the conversion name is accepted", e)),
    };
    let got = convert(&conv, text.as_bytes());
    let mut r = CaseResult::ok(&format!("{mode}:{}", if got.is_ok() { "converted" } else { "error" }));
    r.nontrivial = got.is_ok();
    match &got {
        Ok(Value::Timestamp(g)) if *g == want => {}
        Ok(_) => {
            r = r.violation(Violation::new(clause, w.clone(), format!("{} from text {text:?}", want.to_rfc3339_opts(SecondsFormat::AutoSi, true)), show_res(&got)));
        }
        Err(e) if e.starts_with("panic") => {
            r = r.violation(Violation::new("C35.convert-panics", w.clone(), format!("a timestamp or an error for text {text:?}"), e.clone()));
        }
        Err(_) if judged_error => {
            r = r.violation(Violation::new(clause, w.clone(), format!("{} from text {text:?}", want.to_rfc3339_opts(SecondsFormat::AutoSi, true)), show_res(&got)));
        }
        Err(_) => {
            r = r.count("ts_error_not_judged", 1);
        }
    }
    r
}

fn name_case(w: &J) -> CaseResult {
    let name = w["name"].as_str().unwrap_or("");
    let documented = w["documented"].as_bool().unwrap_or(false);
    let got = parse_conv(name, zone("UTC"));
    let mut r = CaseResult::ok(if got.is_ok() { "accepted" } else { "rejected" });
    r.nontrivial = got.is_ok();
    match (&got, documented) {
        (Err(e), true) => r = r.violation(Violation::new("C35.documented-name-accepted", w.clone(), "accepted", e.clone())),
        (Err(e), false) if e.starts_with("panic") => r = r.violation(Violation::new("C35.parse-panics", w.clone(), "accepted or rejected", e.clone())),
        (Ok(_), false) => r = r.count("undocumented_names_accepted", 1),
        _ => {}
    }
    r
}

fn case(w: &J) -> CaseResult {
    match w["group"].as_str().unwrap_or("") {
        "scalar" => scalar_case(w),
        "ts" => ts_case(w),
        "name" => name_case(w),
        _ => CaseResult::trivial("unknown-group"),
    }
}

pub fn replay(_property: &str, w: &J) -> Vec<Violation> {
    case(w).violations
}

// ---------------------------------------------------------------------------------------- run

fn ts_cases(deep: bool, tznames: &[&str], env: &str) -> Vec<J> {
    let mut cases = Vec::new();
    let insts = instants(deep);
    let seconds = ["secs", "millis", "micros", "nanos", "auto"];
    for (ti, t) in insts.iter().enumerate() {
        let tj = vv::enc(&Value::Timestamp(*t));
        for tz in tznames {
            let base = |mode: &str, name: &str| json!({"group": "ts", "mode": mode, "name": name, "ts": tj, "tz": tz, "tz_env": env});
            // name "timestamp": RFC 3339
            for off in RENDER_OFFSETS {
                for sf in seconds {
                    for use_z in [false, true] {
                        if use_z && off != 0 {
                            continue;
                        }
                        let mut w = base("rfc3339", "timestamp");
                        w["offset"] = json!(off);
                        w["seconds"] = json!(sf);
                        w["use_z"] = json!(use_z);
                        cases.push(w);
                    }
                }
            }
            // name "timestamp": its documented guessed formats
            for f in AUTO_NAIVE {
                let mut w = base("naive", "timestamp");
                w["render"] = json!(f);
                w["gran"] = json!(1_000_000_000u32);
                cases.push(w);
            }
            for f in AUTO_ZONED {
                for off in RENDER_OFFSETS {
                    let mut w = base("zoned", "timestamp");
                    w["render"] = json!(f);
                    w["gran"] = json!(if f == "%+" { 1u32 } else { 1_000_000_000u32 });
                    w["offset"] = json!(off);
                    if f == "%a, %d %b %Y %T %z" {
                        // RFC 2822 is guessed too but not for every year: only a wrong instant is judged
                        w["judge_error"] = json!(false);
                    }
                    cases.push(w);
                }
            }
            // name "timestamp|FORMAT" (also with blanks around the bar, which parse() trims)
            for (f, gran, kind) in FORMATS {
                for name in [format!("timestamp|{f}"), format!("timestamp | {f}")] {
                    match kind {
                        "zoned" | "epoch" | "zonename" => {
                            for off in RENDER_OFFSETS {
                                if kind == "epoch" && off != 0 {
                                    continue;
                                }
                                // `%Z` text: a thin slice is enough (zone names are never parsed)
                                if kind == "zonename" && (ti % 8 != 0 || !(off == 0 || off == 19_800) || name.contains(" | ")) {
                                    continue;
                                }
                                let mut w = base("zoned", &name);
                                w["render"] = json!(f);
                                w["gran"] = json!(gran);
                                w["offset"] = json!(off);
                                cases.push(w);
                            }
                        }
                        _ => {
                            let mut w = base("naive", &name);
                            w["render"] = json!(f);
                            w["gran"] = json!(gran);
                            if kind == "naive-2y" {
                                w["two_digit_year"] = json!(true);
                            }
                            cases.push(w);
                        }
                    }
                }
            }
        }
    }
    cases
}

pub fn run(tier: Tier) -> Report {
    let mut rep = Report::new("C35", tier, "exploration");
    let deep = tier.thorough();

    // ---- conversion names
    {
        let documented = ["asis", "bytes", "string", "int", "integer", "float", "bool", "boolean", "timestamp", "timestamp|%F", " int ", "integer ", "timestamp | %F %T", "\tfloat"];
        let others = [
            "", " ", "Int", "INTEGER", "i64", "double", "str", "time", "Timestamp", "bool|x", "int|", "float|%F", "asis|", "|int", "timestamp|", "timestamp||", "int eger", "boolean1", "bytes\0",
            "timestamp|%", "timestamp|%Q",
        ];
        let mut cases: Vec<J> = documented.iter().map(|n| json!({"group": "name", "name": n, "documented": true})).collect();
        cases.extend(others.iter().map(|n| json!({"group": "name", "name": n, "documented": false})));
        law::drive(&mut rep, "names", &cases, case);
    }

    // ---- integers, floats, booleans, bytes
    {
        let mut cases = Vec::new();
        for name in ["int", "integer", " int"] {
            for i in int_alphabet(deep) {
                cases.push(json!({"group": "scalar", "kind": "int", "name": name, "value": i}));
            }
        }
        for f in float_alphabet(deep) {
            for render in ["display", "debug", "lower-exp", "upper-exp"] {
                cases.push(json!({"group": "scalar", "kind": "float", "name": "float", "value": vv::fmt_float(f), "render": render}));
            }
        }
        for name in ["bool", "boolean"] {
            for (word, val) in [("true", true), ("t", true), ("yes", true), ("y", true), ("false", false), ("f", false), ("no", false), ("n", false)] {
                for text in case_variants(word) {
                    cases.push(json!({"group": "scalar", "kind": "bool", "name": name, "text": text, "value": val}));
                }
            }
            cases.push(json!({"group": "scalar", "kind": "bool", "name": name, "text": "0", "value": false}));
            for i in int_alphabet(false) {
                if i != 0 {
                    cases.push(json!({"group": "scalar", "kind": "bool", "name": name, "text": i.to_string(), "value": true}));
                }
            }
        }
        for name in ["asis", "bytes", "string"] {
            for b in [vv::s(""), vv::s("a"), vv::s(" 12 "), vv::s("é\n"), Value::Bytes(vec![0xffu8, 0x00, 0x61].into())] {
                cases.push(json!({"group": "scalar", "kind": "bytes", "name": name, "value": vv::enc(&b)}));
            }
        }
        law::drive(&mut rep, "scalars", &cases, case);
    }

    // ---- timestamps: every named default zone plus `local` under several TZ environments
    for (k, env) in TZ_ENVS.iter().enumerate() {
        ensure_tz_env(env);
        let mut tznames: Vec<&str> = if k == 0 { NAMED_ZONES.to_vec() } else { Vec::new() };
        tznames.push("local");
        let cases = ts_cases(deep, &tznames, env);
        law::drive(&mut rep, &format!("timestamps[TZ={env}]"), &cases, case);
    }
    ensure_tz_env(TZ_ENVS[0]);

    rep.set(
        "rule",
        "one case = (conversion name, value, rendering, default timezone[, TZ environment for `local`]). Integers: [-300,300] (thorough [-2000,2000]), 2^k+-2, 10^k+-1, i64 extremes, rendered with `{}`. Floats: hand-picked edge values plus a regular sweep over sign x exponent x mantissa bit patterns, rendered with `{}`, `{:?}`, `{:e}`, `{:E}`, compared bit-for-bit. Booleans: every letter-case variant of true/t/yes/y/false/f/no/n, \"0\", and the non-zero integers. Timestamps: edge instants (epoch, negative, sub-second digits, years 0000/0001/9999, leap days) plus a 30-minute grid around the DST/date-line transitions of the default zones, rendered (a) as RFC 3339 under 8 offsets x 5 second formats x Z/+00:00, (b) in each of 24 strftime formats — formats carrying an offset are rendered under 8 offsets and must give the instant under each of the 11 default zones; naive formats are rendered as the wall clock of the default zone and judged when that reading is unambiguous there. A case is non-trivial when the conversion produced a value.",
    );
    rep.assume("chrono's formatting (`to_rfc3339_opts`, `format`) and Rust's float/integer Display are the canonical renderings");
    rep.assume("chrono / chrono-tz `from_local_datetime` decides whether a wall-clock reading is ambiguous in a zone (ambiguous readings cannot round-trip and are skipped and counted)");
    rep.assume("`local` is exercised by setting the process TZ variable to UTC, Asia/Tokyo and America/New_York before the worker threads start");
    rep
}
