//! C27 — digest and checksum functions match their published algorithms.
//!
//! One case = (function, variant, how the variant is passed, message[, key]) run as a compiled VRL
//! snippet on an event; the result is compared with an independent reference:
//!   * md5 / sha1 / sha2 / sha3 / hmac: Python `hashlib` / `hmac` (ONE python process per run; a
//!     replay asks a one-shot process),
//!   * crc: a bit-serial Rocksoft-model implementation written here, parameterised by the reveng
//!     catalogue entry of the algorithm NAME (so a wrong name→algorithm mapping, a too narrow
//!     register type or a wrong rendering in vrl is visible),
//!   * xxhash (XXH32, XXH64, XXH3-64, XXH3-128) and seahash: straight-line re-implementations of
//!     the published specifications written here.
//! The references are self-checked before the run (catalogue check values, zlib.crc32,
//! binascii.crc_hqx, published empty-input vectors); a failing self-check is a machinery error.

use crate::law::{self, CaseResult};
use crate::report::{Report, Tier, Violation};
use crate::vrlx::Outcome;
use crate::vv;
use serde_json::{Value as J, json};
use std::collections::{BTreeMap, BTreeSet, HashMap};
use std::io::{BufRead, BufReader, Write};
use std::process::{Command, Stdio};
use std::sync::{Arc, OnceLock, RwLock};
use vrl::value::Value;

// ------------------------------------------------------------------------------------ messages

/// A message is described either literally (`{"hex": "…"}`) or generatively (`{"pat": p, "len": n}`).
fn msg_bytes(j: &J) -> Vec<u8> {
    if let Some(h) = j["hex"].as_str() {
        return vv::unhex(h);
    }
    let n = j["len"].as_u64().unwrap_or(0) as usize;
    match j["pat"].as_str().unwrap_or("inc") {
        "zero" => vec![0u8; n],
        "ff" => vec![0xffu8; n],
        "a" => vec![b'a'; n],
        // key material: different stride and offset from the message pattern
        "k" => (0..n).map(|i| (i.wrapping_mul(13).wrapping_add(0x5c)) as u8).collect(),
        _ => (0..n).map(|i| (i.wrapping_mul(7).wrapping_add(3)) as u8).collect(),
    }
}

fn pat(p: &str, n: usize) -> J {
    json!({"pat": p, "len": n})
}

fn lit_msg(b: &[u8]) -> J {
    json!({"hex": vv::hex(b)})
}

// ------------------------------------------------------------------------------------ variants

const SHA2: [&str; 6] = ["SHA-224", "SHA-256", "SHA-384", "SHA-512", "SHA-512/224", "SHA-512/256"];
const SHA3: [&str; 4] = ["SHA3-224", "SHA3-256", "SHA3-384", "SHA3-512"];
const HMAC: [&str; 5] = ["SHA1", "SHA-224", "SHA-256", "SHA-384", "SHA-512"];
const XXH: [&str; 4] = ["XXH32", "XXH64", "XXH3-64", "XXH3-128"];

/// Documented default of the optional variant/algorithm parameter.
fn default_variant(f: &str) -> Option<&'static str> {
    match f {
        "sha2" => Some("SHA-512/256"),
        "sha3" => Some("SHA3-512"),
        "hmac" => Some("SHA-256"),
        "crc" => Some("CRC_32_ISO_HDLC"),
        "xxhash" => Some("XXH32"),
        _ => None,
    }
}

fn param_name(f: &str) -> &'static str {
    match f {
        "hmac" | "crc" => "algorithm",
        _ => "variant",
    }
}

// ------------------------------------------------------------------------------------ CRC reference

/// (name, width, poly, init, refin, refout, xorout, check) — the reveng "Catalogue of parametrised
/// CRC algorithms" entries for the names vrl documents.
#[rustfmt::skip]
const CRC_TABLE: &[(&str, u32, u128, u128, bool, bool, u128, u128)] = &[
    ("CRC_3_GSM", 3, 0x3, 0x0, false, false, 0x7, 0x4),
    ("CRC_3_ROHC", 3, 0x3, 0x7, true, true, 0x0, 0x6),
    ("CRC_4_G_704", 4, 0x3, 0x0, true, true, 0x0, 0x7),
    ("CRC_4_INTERLAKEN", 4, 0x3, 0xf, false, false, 0xf, 0xb),
    ("CRC_5_EPC_C1G2", 5, 0x09, 0x09, false, false, 0x00, 0x00),
    ("CRC_5_G_704", 5, 0x15, 0x00, true, true, 0x00, 0x07),
    ("CRC_5_USB", 5, 0x05, 0x1f, true, true, 0x1f, 0x19),
    ("CRC_6_CDMA2000_A", 6, 0x27, 0x3f, false, false, 0x00, 0x0d),
    ("CRC_6_CDMA2000_B", 6, 0x07, 0x3f, false, false, 0x00, 0x3b),
    ("CRC_6_DARC", 6, 0x19, 0x00, true, true, 0x00, 0x26),
    ("CRC_6_GSM", 6, 0x2f, 0x00, false, false, 0x3f, 0x13),
    ("CRC_6_G_704", 6, 0x03, 0x00, true, true, 0x00, 0x06),
    ("CRC_7_MMC", 7, 0x09, 0x00, false, false, 0x00, 0x75),
    ("CRC_7_ROHC", 7, 0x4f, 0x7f, true, true, 0x00, 0x53),
    ("CRC_7_UMTS", 7, 0x45, 0x00, false, false, 0x00, 0x61),
    ("CRC_8_AUTOSAR", 8, 0x2f, 0xff, false, false, 0xff, 0xdf),
    ("CRC_8_BLUETOOTH", 8, 0xa7, 0x00, true, true, 0x00, 0x26),
    ("CRC_8_CDMA2000", 8, 0x9b, 0xff, false, false, 0x00, 0xda),
    ("CRC_8_DARC", 8, 0x39, 0x00, true, true, 0x00, 0x15),
    ("CRC_8_DVB_S2", 8, 0xd5, 0x00, false, false, 0x00, 0xbc),
    ("CRC_8_GSM_A", 8, 0x1d, 0x00, false, false, 0x00, 0x37),
    ("CRC_8_GSM_B", 8, 0x49, 0x00, false, false, 0xff, 0x94),
    ("CRC_8_HITAG", 8, 0x1d, 0xff, false, false, 0x00, 0xb4),
    ("CRC_8_I_432_1", 8, 0x07, 0x00, false, false, 0x55, 0xa1),
    ("CRC_8_I_CODE", 8, 0x1d, 0xfd, false, false, 0x00, 0x7e),
    ("CRC_8_LTE", 8, 0x9b, 0x00, false, false, 0x00, 0xea),
    ("CRC_8_MAXIM_DOW", 8, 0x31, 0x00, true, true, 0x00, 0xa1),
    ("CRC_8_MIFARE_MAD", 8, 0x1d, 0xc7, false, false, 0x00, 0x99),
    ("CRC_8_NRSC_5", 8, 0x31, 0xff, false, false, 0x00, 0xf7),
    ("CRC_8_OPENSAFETY", 8, 0x2f, 0x00, false, false, 0x00, 0x3e),
    ("CRC_8_ROHC", 8, 0x07, 0xff, true, true, 0x00, 0xd0),
    ("CRC_8_SAE_J1850", 8, 0x1d, 0xff, false, false, 0xff, 0x4b),
    ("CRC_8_SMBUS", 8, 0x07, 0x00, false, false, 0x00, 0xf4),
    ("CRC_8_TECH_3250", 8, 0x1d, 0xff, true, true, 0x00, 0x97),
    ("CRC_8_WCDMA", 8, 0x9b, 0x00, true, true, 0x00, 0x25),
    ("CRC_10_ATM", 10, 0x233, 0x000, false, false, 0x000, 0x199),
    ("CRC_10_CDMA2000", 10, 0x3d9, 0x3ff, false, false, 0x000, 0x233),
    ("CRC_10_GSM", 10, 0x175, 0x000, false, false, 0x3ff, 0x12a),
    ("CRC_11_FLEXRAY", 11, 0x385, 0x01a, false, false, 0x000, 0x5a3),
    ("CRC_11_UMTS", 11, 0x307, 0x000, false, false, 0x000, 0x061),
    ("CRC_12_CDMA2000", 12, 0xf13, 0xfff, false, false, 0x000, 0xd4d),
    ("CRC_12_DECT", 12, 0x80f, 0x000, false, false, 0x000, 0xf5b),
    ("CRC_12_GSM", 12, 0xd31, 0x000, false, false, 0xfff, 0xb34),
    ("CRC_12_UMTS", 12, 0x80f, 0x000, false, true, 0x000, 0xdaf),
    ("CRC_13_BBC", 13, 0x1cf5, 0x0000, false, false, 0x0000, 0x04fa),
    ("CRC_14_DARC", 14, 0x0805, 0x0000, true, true, 0x0000, 0x082d),
    ("CRC_14_GSM", 14, 0x202d, 0x0000, false, false, 0x3fff, 0x30ae),
    ("CRC_15_CAN", 15, 0x4599, 0x0000, false, false, 0x0000, 0x059e),
    ("CRC_15_MPT1327", 15, 0x6815, 0x0000, false, false, 0x0001, 0x2566),
    ("CRC_16_ARC", 16, 0x8005, 0x0000, true, true, 0x0000, 0xbb3d),
    ("CRC_16_CDMA2000", 16, 0xc867, 0xffff, false, false, 0x0000, 0x4c06),
    ("CRC_16_CMS", 16, 0x8005, 0xffff, false, false, 0x0000, 0xaee7),
    ("CRC_16_DDS_110", 16, 0x8005, 0x800d, false, false, 0x0000, 0x9ecf),
    ("CRC_16_DECT_R", 16, 0x0589, 0x0000, false, false, 0x0001, 0x007e),
    ("CRC_16_DECT_X", 16, 0x0589, 0x0000, false, false, 0x0000, 0x007f),
    ("CRC_16_DNP", 16, 0x3d65, 0x0000, true, true, 0xffff, 0xea82),
    ("CRC_16_EN_13757", 16, 0x3d65, 0x0000, false, false, 0xffff, 0xc2b7),
    ("CRC_16_GENIBUS", 16, 0x1021, 0xffff, false, false, 0xffff, 0xd64e),
    ("CRC_16_GSM", 16, 0x1021, 0x0000, false, false, 0xffff, 0xce3c),
    ("CRC_16_IBM_3740", 16, 0x1021, 0xffff, false, false, 0x0000, 0x29b1),
    ("CRC_16_IBM_SDLC", 16, 0x1021, 0xffff, true, true, 0xffff, 0x906e),
    ("CRC_16_ISO_IEC_14443_3_A", 16, 0x1021, 0xc6c6, true, true, 0x0000, 0xbf05),
    ("CRC_16_KERMIT", 16, 0x1021, 0x0000, true, true, 0x0000, 0x2189),
    ("CRC_16_LJ1200", 16, 0x6f63, 0x0000, false, false, 0x0000, 0xbdf4),
    ("CRC_16_M17", 16, 0x5935, 0xffff, false, false, 0x0000, 0x772b),
    ("CRC_16_MAXIM_DOW", 16, 0x8005, 0x0000, true, true, 0xffff, 0x44c2),
    ("CRC_16_MCRF4XX", 16, 0x1021, 0xffff, true, true, 0x0000, 0x6f91),
    ("CRC_16_MODBUS", 16, 0x8005, 0xffff, true, true, 0x0000, 0x4b37),
    ("CRC_16_NRSC_5", 16, 0x080b, 0xffff, true, true, 0x0000, 0xa066),
    ("CRC_16_OPENSAFETY_A", 16, 0x5935, 0x0000, false, false, 0x0000, 0x5d38),
    ("CRC_16_OPENSAFETY_B", 16, 0x755b, 0x0000, false, false, 0x0000, 0x20fe),
    ("CRC_16_PROFIBUS", 16, 0x1dcf, 0xffff, false, false, 0xffff, 0xa819),
    ("CRC_16_RIELLO", 16, 0x1021, 0xb2aa, true, true, 0x0000, 0x63d0),
    ("CRC_16_SPI_FUJITSU", 16, 0x1021, 0x1d0f, false, false, 0x0000, 0xe5cc),
    ("CRC_16_T10_DIF", 16, 0x8bb7, 0x0000, false, false, 0x0000, 0xd0db),
    ("CRC_16_TELEDISK", 16, 0xa097, 0x0000, false, false, 0x0000, 0x0fb3),
    ("CRC_16_TMS37157", 16, 0x1021, 0x89ec, true, true, 0x0000, 0x26b1),
    ("CRC_16_UMTS", 16, 0x8005, 0x0000, false, false, 0x0000, 0xfee8),
    ("CRC_16_USB", 16, 0x8005, 0xffff, true, true, 0xffff, 0xb4c8),
    ("CRC_16_XMODEM", 16, 0x1021, 0x0000, false, false, 0x0000, 0x31c3),
    ("CRC_17_CAN_FD", 17, 0x1685b, 0x00000, false, false, 0x00000, 0x04f03),
    ("CRC_21_CAN_FD", 21, 0x102899, 0x000000, false, false, 0x000000, 0x0ed841),
    ("CRC_24_BLE", 24, 0x00065b, 0x555555, true, true, 0x000000, 0xc25a56),
    ("CRC_24_FLEXRAY_A", 24, 0x5d6dcb, 0xfedcba, false, false, 0x000000, 0x7979bd),
    ("CRC_24_FLEXRAY_B", 24, 0x5d6dcb, 0xabcdef, false, false, 0x000000, 0x1f23b8),
    ("CRC_24_INTERLAKEN", 24, 0x328b63, 0xffffff, false, false, 0xffffff, 0xb4f3e6),
    ("CRC_24_LTE_A", 24, 0x864cfb, 0x000000, false, false, 0x000000, 0xcde703),
    ("CRC_24_LTE_B", 24, 0x800063, 0x000000, false, false, 0x000000, 0x23ef52),
    ("CRC_24_OPENPGP", 24, 0x864cfb, 0xb704ce, false, false, 0x000000, 0x21cf02),
    ("CRC_24_OS_9", 24, 0x800063, 0xffffff, false, false, 0xffffff, 0x200fa5),
    ("CRC_30_CDMA", 30, 0x2030b9c7, 0x3fffffff, false, false, 0x3fffffff, 0x04c34abf),
    ("CRC_31_PHILIPS", 31, 0x04c11db7, 0x7fffffff, false, false, 0x7fffffff, 0x0ce9e46c),
    ("CRC_32_AIXM", 32, 0x814141ab, 0x00000000, false, false, 0x00000000, 0x3010bf7f),
    ("CRC_32_AUTOSAR", 32, 0xf4acfb13, 0xffffffff, true, true, 0xffffffff, 0x1697d06a),
    ("CRC_32_BASE91_D", 32, 0xa833982b, 0xffffffff, true, true, 0xffffffff, 0x87315576),
    ("CRC_32_BZIP2", 32, 0x04c11db7, 0xffffffff, false, false, 0xffffffff, 0xfc891918),
    ("CRC_32_CD_ROM_EDC", 32, 0x8001801b, 0x00000000, true, true, 0x00000000, 0x6ec2edc4),
    ("CRC_32_CKSUM", 32, 0x04c11db7, 0x00000000, false, false, 0xffffffff, 0x765e7680),
    ("CRC_32_ISCSI", 32, 0x1edc6f41, 0xffffffff, true, true, 0xffffffff, 0xe3069283),
    ("CRC_32_ISO_HDLC", 32, 0x04c11db7, 0xffffffff, true, true, 0xffffffff, 0xcbf43926),
    ("CRC_32_JAMCRC", 32, 0x04c11db7, 0xffffffff, true, true, 0x00000000, 0x340bc6d9),
    ("CRC_32_MEF", 32, 0x741b8cd7, 0xffffffff, true, true, 0x00000000, 0xd2c22f51),
    ("CRC_32_MPEG_2", 32, 0x04c11db7, 0xffffffff, false, false, 0x00000000, 0x0376e6e7),
    ("CRC_32_XFER", 32, 0x000000af, 0x00000000, false, false, 0x00000000, 0xbd0be338),
    ("CRC_40_GSM", 40, 0x0004820009, 0x0000000000, false, false, 0xffffffffff, 0xd4164fc646),
    ("CRC_64_ECMA_182", 64, 0x42f0e1eba9ea3693, 0x0000000000000000, false, false, 0x0000000000000000, 0x6c40df5f0b497347),
    ("CRC_64_GO_ISO", 64, 0x000000000000001b, 0xffffffffffffffff, true, true, 0xffffffffffffffff, 0xb90956c775a41001),
    ("CRC_64_MS", 64, 0x259c84cba6426349, 0xffffffffffffffff, true, true, 0x0000000000000000, 0x75d4b74f024eceea),
    ("CRC_64_REDIS", 64, 0xad93d23594c935a9, 0x0000000000000000, true, true, 0x0000000000000000, 0xe9c6d914c4b8d9ca),
    ("CRC_64_WE", 64, 0x42f0e1eba9ea3693, 0xffffffffffffffff, false, false, 0xffffffffffffffff, 0x62ec59e3f1a4f00a),
    ("CRC_64_XZ", 64, 0x42f0e1eba9ea3693, 0xffffffffffffffff, true, true, 0xffffffffffffffff, 0x995dc9bbdf1939fa),
    ("CRC_82_DARC", 82, 0x0308c0111011401440411, 0x000000000000000000000, true, true, 0x000000000000000000000, 0x09ea83f625023801fd612),
];

fn reflect(v: u128, width: u32) -> u128 {
    let mut r = 0u128;
    for i in 0..width {
        if (v >> i) & 1 == 1 {
            r |= 1 << (width - 1 - i);
        }
    }
    r
}

/// Bit-serial Rocksoft model: one message bit at a time through a `width`-bit shift register.
fn crc_ref(name: &str, msg: &[u8]) -> Option<u128> {
    let &(_, width, poly, init, refin, refout, xorout, _) = CRC_TABLE.iter().find(|e| e.0 == name)?;
    let mask: u128 = (1u128 << width) - 1;
    let mut reg = init & mask;
    for &byte in msg {
        for k in 0..8 {
            let inbit = if refin { (byte >> k) & 1 } else { (byte >> (7 - k)) & 1 };
            let top = ((reg >> (width - 1)) & 1) as u8;
            reg = (reg << 1) & mask;
            if top ^ inbit == 1 {
                reg ^= poly;
            }
        }
    }
    if refout {
        reg = reflect(reg, width);
    }
    Some((reg ^ xorout) & mask)
}

// ------------------------------------------------------------------------------------ xxHash reference

const P32_1: u32 = 0x9E37_79B1;
const P32_2: u32 = 0x85EB_CA77;
const P32_3: u32 = 0xC2B2_AE3D;
const P32_4: u32 = 0x27D4_EB2F;
const P32_5: u32 = 0x1656_67B1;
const P64_1: u64 = 0x9E37_79B1_85EB_CA87;
const P64_2: u64 = 0xC2B2_AE3D_27D4_EB4F;
const P64_3: u64 = 0x1656_67B1_9E37_79F9;
const P64_4: u64 = 0x85EB_CA77_C2B2_AE63;
const P64_5: u64 = 0x27D4_EB2F_1656_67C5;
const PRIME_MX1: u64 = 0x1656_6791_9E37_79F9;
const PRIME_MX2: u64 = 0x9FB2_1C65_1E98_DF25;

fn r32(b: &[u8], o: usize) -> u32 {
    u32::from_le_bytes([b[o], b[o + 1], b[o + 2], b[o + 3]])
}
fn r64(b: &[u8], o: usize) -> u64 {
    let mut x = [0u8; 8];
    x.copy_from_slice(&b[o..o + 8]);
    u64::from_le_bytes(x)
}

fn xxh32_ref(m: &[u8], seed: u32) -> u32 {
    let len = m.len();
    let mut p = 0usize;
    let mut h: u32;
    if len >= 16 {
        let mut v = [
            seed.wrapping_add(P32_1).wrapping_add(P32_2),
            seed.wrapping_add(P32_2),
            seed,
            seed.wrapping_sub(P32_1),
        ];
        while p + 16 <= len {
            for (i, lane) in v.iter_mut().enumerate() {
                *lane = lane.wrapping_add(r32(m, p + 4 * i).wrapping_mul(P32_2)).rotate_left(13).wrapping_mul(P32_1);
            }
            p += 16;
        }
        h = v[0].rotate_left(1).wrapping_add(v[1].rotate_left(7)).wrapping_add(v[2].rotate_left(12)).wrapping_add(v[3].rotate_left(18));
    } else {
        h = seed.wrapping_add(P32_5);
    }
    h = h.wrapping_add(len as u32);
    while p + 4 <= len {
        h = h.wrapping_add(r32(m, p).wrapping_mul(P32_3)).rotate_left(17).wrapping_mul(P32_4);
        p += 4;
    }
    while p < len {
        h = h.wrapping_add(u32::from(m[p]).wrapping_mul(P32_5)).rotate_left(11).wrapping_mul(P32_1);
        p += 1;
    }
    h ^= h >> 15;
    h = h.wrapping_mul(P32_2);
    h ^= h >> 13;
    h = h.wrapping_mul(P32_3);
    h ^= h >> 16;
    h
}

fn xxh64_round(acc: u64, input: u64) -> u64 {
    acc.wrapping_add(input.wrapping_mul(P64_2)).rotate_left(31).wrapping_mul(P64_1)
}

fn xxh64_avalanche(mut h: u64) -> u64 {
    h ^= h >> 33;
    h = h.wrapping_mul(P64_2);
    h ^= h >> 29;
    h = h.wrapping_mul(P64_3);
    h ^= h >> 32;
    h
}

fn xxh64_ref(m: &[u8], seed: u64) -> u64 {
    let len = m.len();
    let mut p = 0usize;
    let mut h: u64;
    if len >= 32 {
        let mut v = [
            seed.wrapping_add(P64_1).wrapping_add(P64_2),
            seed.wrapping_add(P64_2),
            seed,
            seed.wrapping_sub(P64_1),
        ];
        while p + 32 <= len {
            for (i, lane) in v.iter_mut().enumerate() {
                *lane = xxh64_round(*lane, r64(m, p + 8 * i));
            }
            p += 32;
        }
        h = v[0].rotate_left(1).wrapping_add(v[1].rotate_left(7)).wrapping_add(v[2].rotate_left(12)).wrapping_add(v[3].rotate_left(18));
        for lane in v {
            h ^= xxh64_round(0, lane);
            h = h.wrapping_mul(P64_1).wrapping_add(P64_4);
        }
    } else {
        h = seed.wrapping_add(P64_5);
    }
    h = h.wrapping_add(len as u64);
    while p + 8 <= len {
        h ^= xxh64_round(0, r64(m, p));
        h = h.rotate_left(27).wrapping_mul(P64_1).wrapping_add(P64_4);
        p += 8;
    }
    if p + 4 <= len {
        h ^= u64::from(r32(m, p)).wrapping_mul(P64_1);
        h = h.rotate_left(23).wrapping_mul(P64_2).wrapping_add(P64_3);
        p += 4;
    }
    while p < len {
        h ^= u64::from(m[p]).wrapping_mul(P64_5);
        h = h.rotate_left(11).wrapping_mul(P64_1);
        p += 1;
    }
    xxh64_avalanche(h)
}

const XXH3_SECRET_HEX: &str = "b8fe6c3923a44bbe7c01812cf721ad1cded46de9839097db7240a4a4b7b3671fcb79e64eccc0e578825ad07dccff7221b8084674f743248ee03590e6813a264c3c2852bb91c300cb88d0658b1b532ea371644897a20df94e3819ef46a9deacd8a8fa763fe39c343ff9dcbbc7c70b4f1d8a51e04bcdb45931c89f7ec9d9787364eac5ac8334d3ebc3c581a0fffa1363eb170ddd51b7f0da49d316552629d4689e2b16be587d47a1fc8ff8b8d17ad031ce45cb3a8f95160428afd7fbcabb4b407e";

fn xxh3_secret() -> &'static [u8] {
    static S: OnceLock<Vec<u8>> = OnceLock::new();
    S.get_or_init(|| {
        let s = vv::unhex(XXH3_SECRET_HEX);
        assert_eq!(s.len(), 192, "XXH3 kSecret is 192 bytes");
        s
    })
}

fn mul128_fold64(a: u64, b: u64) -> u64 {
    let p = u128::from(a) * u128::from(b);
    (p as u64) ^ ((p >> 64) as u64)
}

fn xorshift64(v: u64, s: u32) -> u64 {
    v ^ (v >> s)
}

fn xxh3_avalanche(mut h: u64) -> u64 {
    h = xorshift64(h, 37);
    h = h.wrapping_mul(PRIME_MX1);
    xorshift64(h, 32)
}

fn xxh3_rrmxmx(mut h: u64, len: u64) -> u64 {
    h ^= h.rotate_left(49) ^ h.rotate_left(24);
    h = h.wrapping_mul(PRIME_MX2);
    h ^= (h >> 35).wrapping_add(len);
    h = h.wrapping_mul(PRIME_MX2);
    xorshift64(h, 28)
}

fn xxh3_mix16(m: &[u8], mo: usize, s: &[u8], so: usize, seed: u64) -> u64 {
    mul128_fold64(r64(m, mo) ^ r64(s, so).wrapping_add(seed), r64(m, mo + 8) ^ r64(s, so + 8).wrapping_sub(seed))
}

fn xxh3_accumulate_512(acc: &mut [u64; 8], m: &[u8], mo: usize, s: &[u8], so: usize) {
    for i in 0..8 {
        let data_val = r64(m, mo + 8 * i);
        let data_key = data_val ^ r64(s, so + 8 * i);
        acc[i ^ 1] = acc[i ^ 1].wrapping_add(data_val);
        acc[i] = acc[i].wrapping_add((data_key & 0xFFFF_FFFF).wrapping_mul(data_key >> 32));
    }
}

fn xxh3_long_acc(m: &[u8]) -> [u64; 8] {
    let s = xxh3_secret();
    let len = m.len();
    let mut acc: [u64; 8] =
        [u64::from(P32_3), P64_1, P64_2, P64_3, P64_4, u64::from(P32_2), P64_5, u64::from(P32_1)];
    let stripes_per_block = (s.len() - 64) / 8; // 16
    let block_len = 64 * stripes_per_block; // 1024
    let nb_blocks = (len - 1) / block_len;
    for n in 0..nb_blocks {
        for st in 0..stripes_per_block {
            xxh3_accumulate_512(&mut acc, m, n * block_len + st * 64, s, st * 8);
        }
        // scramble
        for i in 0..8 {
            let key = r64(s, s.len() - 64 + 8 * i);
            let mut a = xorshift64(acc[i], 47);
            a ^= key;
            acc[i] = a.wrapping_mul(u64::from(P32_1));
        }
    }
    let nb_stripes = ((len - 1) - block_len * nb_blocks) / 64;
    for st in 0..nb_stripes {
        xxh3_accumulate_512(&mut acc, m, nb_blocks * block_len + st * 64, s, st * 8);
    }
    xxh3_accumulate_512(&mut acc, m, len - 64, s, s.len() - 64 - 7);
    acc
}

fn xxh3_merge(acc: &[u64; 8], so: usize, start: u64) -> u64 {
    let s = xxh3_secret();
    let mut r = start;
    for i in 0..4 {
        r = r.wrapping_add(mul128_fold64(acc[2 * i] ^ r64(s, so + 16 * i), acc[2 * i + 1] ^ r64(s, so + 16 * i + 8)));
    }
    xxh3_avalanche(r)
}

/// XXH3 64-bit, seed 0, default secret.
fn xxh3_64_ref(m: &[u8]) -> u64 {
    let s = xxh3_secret();
    let len = m.len();
    let l = len as u64;
    if len == 0 {
        return xxh64_avalanche(r64(s, 56) ^ r64(s, 64));
    }
    if len <= 3 {
        let (c1, c2, c3) = (u32::from(m[0]), u32::from(m[len >> 1]), u32::from(m[len - 1]));
        let combined = (c1 << 16) | (c2 << 24) | c3 | ((len as u32) << 8);
        let bitflip = u64::from(r32(s, 0) ^ r32(s, 4));
        return xxh64_avalanche(u64::from(combined) ^ bitflip);
    }
    if len <= 8 {
        let in1 = r32(m, 0);
        let in2 = r32(m, len - 4);
        let bitflip = r64(s, 8) ^ r64(s, 16);
        let in64 = u64::from(in2).wrapping_add(u64::from(in1) << 32);
        return xxh3_rrmxmx(in64 ^ bitflip, l);
    }
    if len <= 16 {
        let bitflip1 = r64(s, 24) ^ r64(s, 32);
        let bitflip2 = r64(s, 40) ^ r64(s, 48);
        let lo = r64(m, 0) ^ bitflip1;
        let hi = r64(m, len - 8) ^ bitflip2;
        let acc = l.wrapping_add(lo.swap_bytes()).wrapping_add(hi).wrapping_add(mul128_fold64(lo, hi));
        return xxh3_avalanche(acc);
    }
    if len <= 128 {
        let mut acc = l.wrapping_mul(P64_1);
        if len > 32 {
            if len > 64 {
                if len > 96 {
                    acc = acc.wrapping_add(xxh3_mix16(m, 48, s, 96, 0));
                    acc = acc.wrapping_add(xxh3_mix16(m, len - 64, s, 112, 0));
                }
                acc = acc.wrapping_add(xxh3_mix16(m, 32, s, 64, 0));
                acc = acc.wrapping_add(xxh3_mix16(m, len - 48, s, 80, 0));
            }
            acc = acc.wrapping_add(xxh3_mix16(m, 16, s, 32, 0));
            acc = acc.wrapping_add(xxh3_mix16(m, len - 32, s, 48, 0));
        }
        acc = acc.wrapping_add(xxh3_mix16(m, 0, s, 0, 0));
        acc = acc.wrapping_add(xxh3_mix16(m, len - 16, s, 16, 0));
        return xxh3_avalanche(acc);
    }
    if len <= 240 {
        let mut acc = l.wrapping_mul(P64_1);
        let rounds = len / 16;
        for i in 0..8 {
            acc = acc.wrapping_add(xxh3_mix16(m, 16 * i, s, 16 * i, 0));
        }
        acc = xxh3_avalanche(acc);
        for i in 8..rounds {
            acc = acc.wrapping_add(xxh3_mix16(m, 16 * i, s, 16 * (i - 8) + 3, 0));
        }
        acc = acc.wrapping_add(xxh3_mix16(m, len - 16, s, 136 - 17, 0));
        return xxh3_avalanche(acc);
    }
    let acc = xxh3_long_acc(m);
    xxh3_merge(&acc, 11, l.wrapping_mul(P64_1))
}

fn xxh3_mix32(acc: (u64, u64), m: &[u8], o1: usize, o2: usize, s: &[u8], so: usize) -> (u64, u64) {
    let (mut lo, mut hi) = acc;
    lo = lo.wrapping_add(xxh3_mix16(m, o1, s, so, 0));
    lo ^= r64(m, o2).wrapping_add(r64(m, o2 + 8));
    hi = hi.wrapping_add(xxh3_mix16(m, o2, s, so + 16, 0));
    hi ^= r64(m, o1).wrapping_add(r64(m, o1 + 8));
    (lo, hi)
}

fn xxh3_128_finish(acc: (u64, u64), len: u64) -> u128 {
    let lo = acc.0.wrapping_add(acc.1);
    let hi = acc.0.wrapping_mul(P64_1).wrapping_add(acc.1.wrapping_mul(P64_4)).wrapping_add(len.wrapping_mul(P64_2));
    let lo = xxh3_avalanche(lo);
    let hi = 0u64.wrapping_sub(xxh3_avalanche(hi));
    (u128::from(hi) << 64) | u128::from(lo)
}

/// XXH3 128-bit, seed 0, default secret. Value = high64 << 64 | low64.
fn xxh3_128_ref(m: &[u8]) -> u128 {
    let s = xxh3_secret();
    let len = m.len();
    let l = len as u64;
    let pack = |lo: u64, hi: u64| (u128::from(hi) << 64) | u128::from(lo);
    if len == 0 {
        return pack(xxh64_avalanche(r64(s, 64) ^ r64(s, 72)), xxh64_avalanche(r64(s, 80) ^ r64(s, 88)));
    }
    if len <= 3 {
        let (c1, c2, c3) = (u32::from(m[0]), u32::from(m[len >> 1]), u32::from(m[len - 1]));
        let cl = (c1 << 16) | (c2 << 24) | c3 | ((len as u32) << 8);
        let ch = cl.swap_bytes().rotate_left(13);
        let bl = u64::from(r32(s, 0) ^ r32(s, 4));
        let bh = u64::from(r32(s, 8) ^ r32(s, 12));
        return pack(xxh64_avalanche(u64::from(cl) ^ bl), xxh64_avalanche(u64::from(ch) ^ bh));
    }
    if len <= 8 {
        let in_lo = r32(m, 0);
        let in_hi = r32(m, len - 4);
        let in64 = u64::from(in_lo).wrapping_add(u64::from(in_hi) << 32);
        let bitflip = r64(s, 16) ^ r64(s, 24);
        let keyed = in64 ^ bitflip;
        let p = u128::from(keyed) * u128::from(P64_1.wrapping_add(l << 2));
        let (mut lo, mut hi) = (p as u64, (p >> 64) as u64);
        hi = hi.wrapping_add(lo << 1);
        lo ^= hi >> 3;
        lo = xorshift64(lo, 35);
        lo = lo.wrapping_mul(PRIME_MX2);
        lo = xorshift64(lo, 28);
        hi = xxh3_avalanche(hi);
        return pack(lo, hi);
    }
    if len <= 16 {
        let bl = r64(s, 32) ^ r64(s, 40);
        let bh = r64(s, 48) ^ r64(s, 56);
        let in_lo = r64(m, 0);
        let mut in_hi = r64(m, len - 8);
        let p = u128::from(in_lo ^ in_hi ^ bl) * u128::from(P64_1);
        let (mut mlo, mut mhi) = (p as u64, (p >> 64) as u64);
        mlo = mlo.wrapping_add((l - 1) << 54);
        in_hi ^= bh;
        mhi = mhi.wrapping_add(in_hi).wrapping_add((in_hi & 0xFFFF_FFFF).wrapping_mul(u64::from(P32_2 - 1)));
        mlo ^= mhi.swap_bytes();
        let h = u128::from(mlo) * u128::from(P64_2);
        let (hlo, mut hhi) = (h as u64, (h >> 64) as u64);
        hhi = hhi.wrapping_add(mhi.wrapping_mul(P64_2));
        return pack(xxh3_avalanche(hlo), xxh3_avalanche(hhi));
    }
    if len <= 128 {
        let mut acc = (l.wrapping_mul(P64_1), 0u64);
        if len > 32 {
            if len > 64 {
                if len > 96 {
                    acc = xxh3_mix32(acc, m, 48, len - 64, s, 96);
                }
                acc = xxh3_mix32(acc, m, 32, len - 48, s, 64);
            }
            acc = xxh3_mix32(acc, m, 16, len - 32, s, 32);
        }
        acc = xxh3_mix32(acc, m, 0, len - 16, s, 0);
        return xxh3_128_finish(acc, l);
    }
    if len <= 240 {
        let mut acc = (l.wrapping_mul(P64_1), 0u64);
        let mut i = 32;
        while i <= 128 {
            acc = xxh3_mix32(acc, m, i - 32, i - 16, s, i - 32);
            i += 32;
        }
        acc = (xxh3_avalanche(acc.0), xxh3_avalanche(acc.1));
        let mut i = 160;
        while i <= len {
            acc = xxh3_mix32(acc, m, i - 32, i - 16, s, 3 + i - 160);
            i += 32;
        }
        acc = xxh3_mix32(acc, m, len - 16, len - 32, s, 136 - 17 - 16);
        return xxh3_128_finish(acc, l);
    }
    let acc = xxh3_long_acc(m);
    let lo = xxh3_merge(&acc, 11, l.wrapping_mul(P64_1));
    let hi = xxh3_merge(&acc, 192 - 64 - 11, !(l.wrapping_mul(P64_2)));
    pack(lo, hi)
}

// ------------------------------------------------------------------------------------ SeaHash reference

fn sea_diffuse(mut x: u64) -> u64 {
    x = x.wrapping_mul(0x6eed_0e9d_a4d9_4a4f);
    let a = x >> 32;
    let b = x >> 60;
    x ^= a >> b;
    x.wrapping_mul(0x6eed_0e9d_a4d9_4a4f)
}

/// SeaHash (v4 specification, default seeds): the message is read as little-endian 64-bit words
/// (the last one zero-padded), word i is absorbed into lane i mod 4; finalisation mixes the four
/// lanes with the byte length.
fn seahash_ref(m: &[u8]) -> u64 {
    let mut lanes: [u64; 4] =
        [0x16f1_1fe8_9b0d_677c, 0xb480_a793_d8e6_c86c, 0x6fe2_e5aa_f078_ebc9, 0x14f9_94a4_c525_9381];
    for (i, chunk) in m.chunks(8).enumerate() {
        let mut w = [0u8; 8];
        w[..chunk.len()].copy_from_slice(chunk);
        let x = u64::from_le_bytes(w);
        lanes[i % 4] = sea_diffuse(lanes[i % 4] ^ x);
    }
    sea_diffuse(lanes[0] ^ lanes[1] ^ lanes[2] ^ lanes[3] ^ (m.len() as u64))
}

// ------------------------------------------------------------------------------------ Python reference

const PY: &str = r#"
import sys, json, hashlib, hmac, zlib, binascii
SHA2 = {"SHA-224": "sha224", "SHA-256": "sha256", "SHA-384": "sha384", "SHA-512": "sha512",
        "SHA-512/224": "sha512_224", "SHA-512/256": "sha512_256"}
SHA3 = {"SHA3-224": "sha3_224", "SHA3-256": "sha3_256", "SHA3-384": "sha3_384", "SHA3-512": "sha3_512"}
HM = {"SHA1": "sha1", "SHA-224": "sha224", "SHA-256": "sha256", "SHA-384": "sha384", "SHA-512": "sha512"}
for line in sys.stdin:
    line = line.strip()
    if not line:
        continue
    q = json.loads(line)
    m = bytes.fromhex(q["msg"])
    d = {"md5": hashlib.new("md5", m).hexdigest(), "sha1": hashlib.new("sha1", m).hexdigest()}
    for k, v in SHA2.items():
        d[k] = hashlib.new(v, m).hexdigest()
    for k, v in SHA3.items():
        d[k] = hashlib.new(v, m).hexdigest()
    d["zlib_crc32"] = zlib.crc32(m) & 0xffffffff
    d["crc_hqx_0"] = binascii.crc_hqx(m, 0)
    d["crc_hqx_ffff"] = binascii.crc_hqx(m, 0xffff)
    h = {}
    for kh in q["keys"]:
        kb = bytes.fromhex(kh)
        h[kh] = {a: hmac.new(kb, m, v).hexdigest() for a, v in HM.items()}
    sys.stdout.write(json.dumps({"msg": q["msg"], "d": d, "h": h}) + "\n")
sys.stdout.flush()
"#;

/// Reference digests per message (key = message hex): `{"d": {name: hex|number}, "h": {keyhex: {alg: hex}}}`.
fn refs() -> &'static RwLock<HashMap<String, Arc<J>>> {
    static R: OnceLock<RwLock<HashMap<String, Arc<J>>>> = OnceLock::new();
    R.get_or_init(|| RwLock::new(HashMap::new()))
}

/// One python process for the whole batch `(message, keys)`.
fn python_batch(batch: &[(Vec<u8>, Vec<Vec<u8>>)]) -> Vec<J> {
    if batch.is_empty() {
        return Vec::new();
    }
    let mut child = Command::new("python3")
        .arg("-c")
        .arg(PY)
        .stdin(Stdio::piped())
        .stdout(Stdio::piped())
        .stderr(Stdio::inherit())
        .spawn()
        .expect("python3 must be available for the C27 reference");
    let mut stdin = child.stdin.take().expect("stdin");
    let lines: Vec<String> = batch
        .iter()
        .map(|(m, ks)| json!({"msg": vv::hex(m), "keys": ks.iter().map(|k| vv::hex(k)).collect::<Vec<_>>()}).to_string())
        .collect();
    let writer = std::thread::spawn(move || {
        for l in lines {
            stdin.write_all(l.as_bytes()).expect("write to python");
            stdin.write_all(b"\n").expect("write to python");
        }
    });
    let out = BufReader::new(child.stdout.take().expect("stdout"));
    let mut res = Vec::with_capacity(batch.len());
    for line in out.lines() {
        let line = line.expect("read from python");
        res.push(serde_json::from_str::<J>(&line).expect("python reference emits JSON"));
    }
    writer.join().expect("python writer");
    let st = child.wait().expect("python exit");
    assert!(st.success(), "python reference process failed");
    assert_eq!(res.len(), batch.len(), "python reference answered every query");
    res
}

fn merge_ref(r: J) {
    let key = r["msg"].as_str().expect("msg").to_string();
    let mut g = refs().write().expect("refs lock");
    match g.get(&key) {
        None => {
            g.insert(key, Arc::new(r));
        }
        Some(old) => {
            let mut merged = (**old).clone();
            if let (Some(h), Some(nh)) = (merged["h"].as_object_mut(), r["h"].as_object()) {
                for (k, v) in nh {
                    h.insert(k.clone(), v.clone());
                }
            }
            g.insert(key, Arc::new(merged));
        }
    }
}

/// Reference entry for `msg` containing (when `key` is given) the HMACs under that key.
fn reference(msg: &[u8], key: Option<&[u8]>) -> Arc<J> {
    let mh = vv::hex(msg);
    let has = |r: &J| key.is_none_or(|k| r["h"].get(vv::hex(k)).is_some());
    if let Some(r) = refs().read().expect("refs lock").get(&mh) {
        if has(r) {
            return r.clone();
        }
    }
    // replay path: one-shot process
    let r = python_batch(&[(msg.to_vec(), key.map(|k| vec![k.to_vec()]).unwrap_or_default())]);
    for x in r {
        merge_ref(x);
    }
    refs().read().expect("refs lock").get(&mh).expect("reference just inserted").clone()
}

// ------------------------------------------------------------------------------------ one case

fn bytes_val(b: &[u8]) -> Value {
    Value::Bytes(b.to_vec().into())
}

fn snippet(f: &str, variant: Option<&str>, mode: &str) -> String {
    let head = if f == "hmac" { "hmac!(.a, .b".to_string() } else { format!("{f}!(.a") };
    match (mode, variant) {
        ("default", _) | (_, None) => format!("{head})"),
        ("literal", Some(v)) => format!("{head}, {}: {})", param_name(f), vv::str_lit(v)),
        ("positional", Some(v)) => format!("{head}, {})", vv::str_lit(v)),
        (_, Some(_)) => format!("{head}, {}: .c)", param_name(f)),
    }
}

/// The value the documentation promises for `f`/`variant` on `msg` (None: no reference).
fn expected(f: &str, variant: &str, msg: &[u8], key: Option<&[u8]>) -> Option<Value> {
    let hexstr = |r: &J, name: &str| r["d"][name].as_str().map(|s| Value::from(s));
    Some(match f {
        "md5" | "sha1" => hexstr(&reference(msg, None), f)?,
        "sha2" if SHA2.contains(&variant) => hexstr(&reference(msg, None), variant)?,
        "sha3" if SHA3.contains(&variant) => hexstr(&reference(msg, None), variant)?,
        "hmac" if HMAC.contains(&variant) => {
            let k = key?;
            let r = reference(msg, Some(k));
            let mac = r["h"][vv::hex(k)][variant].as_str()?.to_string();
            bytes_val(&vv::unhex(&mac))
        }
        "crc" => Value::from(crc_ref(variant, msg)?.to_string()),
        "xxhash" => match variant {
            "XXH32" => Value::Integer(i64::from(xxh32_ref(msg, 0))),
            "XXH64" => Value::Integer(xxh64_ref(msg, 0) as i64),
            "XXH3-64" => Value::Integer(xxh3_64_ref(msg) as i64),
            "XXH3-128" => Value::from(xxh3_128_ref(msg).to_string()),
            _ => return None,
        },
        "seahash" => Value::Integer(seahash_ref(msg) as i64),
        _ => return None,
    })
}

fn clause(f: &str, what: &str) -> String {
    format!("C27.{f}.{what}")
}

fn case(w: &J) -> CaseResult {
    let f = w["fn"].as_str().unwrap_or("");
    let mode = w["mode"].as_str().unwrap_or("default");
    let variant = w["variant"].as_str();
    let msg = msg_bytes(&w["msg"]);
    let key = if w["key"].is_null() { None } else { Some(msg_bytes(&w["key"])) };
    let canonical: Option<String> = variant.map(str::to_string).or_else(|| default_variant(f).map(str::to_string));
    // how the variant text reaches the function
    let passed: Option<String> = match mode {
        "dynamic-lower" => variant.map(str::to_lowercase),
        _ => variant.map(str::to_string),
    };
    let src = snippet(f, passed.as_deref(), mode);
    let ev = vv::obj(&[
        ("a", bytes_val(&msg)),
        ("b", bytes_val(key.as_deref().unwrap_or(b""))),
        ("c", passed.as_deref().map_or(Value::Null, Value::from)),
    ]);
    let Some(want) = expected(f, canonical.as_deref().unwrap_or(""), &msg, key.as_deref()) else {
        return CaseResult::trivial("no-reference").count("no_reference", 1);
    };
    let out = law::call(&src, ev);
    let cls = format!("{f}:{}:{mode}:{}", canonical.as_deref().unwrap_or("-"), out.class());
    match &out {
        Outcome::Ok(v) => {
            let mut r = CaseResult::ok(&cls).count("compared_with_reference", 1);
            if v != &want {
                r = r.violation(Violation::new(&clause(f, "reference"), w.clone(), vv::show(&want), vv::show(v)));
            }
            r
        }
        // Lower-case spellings are accepted by today's implementation but nothing documents
        // that; a rejection is only counted.
        Outcome::Error(_) if mode == "dynamic-lower" => CaseResult::trivial(&cls).count("lowercase_variant_rejected", 1),
        o => CaseResult::trivial(&cls).violation(Violation::new(
            &clause(f, "outcome"),
            w.clone(),
            format!("the value {}", vv::show(&want)),
            if matches!(o, Outcome::Other(m) if m == "rejected") {
                format!("program rejected: {}", law::why_rejected(&src))
            } else {
                o.show()
            },
        )),
    }
}

pub fn replay(_property: &str, w: &J) -> Vec<Violation> {
    case(w).violations
}

// ------------------------------------------------------------------------------------ enumeration

fn boundary_lengths() -> Vec<usize> {
    // md5/sha1/sha256 (64-byte blocks, padding at 55/56), sha512 (128, 111/112), sha3 rates
    // (72, 104, 136, 144), xxh32 (16), xxh64 (32), xxh3 (3/4, 8/9, 16/17, 128/129, 240/241),
    // seahash (8, 32)
    let mut s = BTreeSet::new();
    for b in [4usize, 8, 16, 32, 56, 64, 72, 104, 112, 120, 128, 136, 144, 192, 208, 240, 256, 272, 288] {
        for d in [-1i64, 0, 1] {
            s.insert((b as i64 + d) as usize);
        }
    }
    s.extend([0, 1, 2, 3]);
    s.into_iter().collect()
}

fn full_inputs(tier: Tier) -> Vec<J> {
    let mut v = Vec::new();
    let dense = if tier.thorough() { 1100 } else { 300 };
    for n in 0..=dense {
        v.push(pat("inc", n));
    }
    for p in ["zero", "ff", "a"] {
        for n in boundary_lengths() {
            if n > 0 {
                v.push(pat(p, n));
            }
        }
    }
    let big: &[usize] = if tier.thorough() {
        &[1151, 1152, 1153, 2047, 2048, 2049, 2111, 2112, 2113, 3071, 3072, 3073, 4095, 4096, 4097, 5000, 8191, 8192, 8193, 16384, 20001]
    } else {
        &[511, 512, 513, 1023, 1024, 1025, 1087, 1088, 1089, 2047, 2048, 2049, 3000, 4096, 4097]
    };
    for &n in big {
        v.push(pat("inc", n));
    }
    if tier.thorough() {
        for &n in big.iter().take(9) {
            v.push(pat("ff", n));
        }
    }
    for b in 0..=255u8 {
        v.push(lit_msg(&[b]));
    }
    for t in [
        &b"123456789"[..],
        b"foo",
        b"foobar",
        b"The quick brown fox jumps over the lazy dog",
        "h\u{e9}llo w\u{f6}rld \u{1f600}".as_bytes(),
        &[0x80, 0x00],
        &[0x00, 0x80],
        &[0xff, 0xfe, 0xc3, 0x28, 0x00, 0x61],
        &[0x01, 0x00, 0x00, 0x00, 0x00, 0x00, 0x00, 0x00],
        &[0x00, 0x00, 0x00, 0x00, 0x00, 0x00, 0x00, 0x80],
    ] {
        v.push(lit_msg(t));
    }
    v
}

fn hmac_inputs(tier: Tier) -> Vec<J> {
    let mut v = Vec::new();
    let dense = if tier.thorough() { 300 } else { 140 };
    for n in 0..=dense {
        v.push(pat("inc", n));
    }
    v.push(lit_msg(b"Hello there"));
    v.push(lit_msg(&[0xff, 0x00, 0x80]));
    v
}

fn hmac_keys(tier: Tier) -> Vec<J> {
    // block sizes 64 (SHA1/224/256) and 128 (SHA-384/512): a longer key is hashed first
    let mut lens = vec![0usize, 1, 20, 32, 63, 64, 65, 100, 127, 128, 129, 130, 200];
    if tier.thorough() {
        lens.extend([2, 16, 48, 66, 96, 126, 131, 255, 256, 257, 1000]);
    }
    let mut v: Vec<J> = lens.into_iter().map(|n| pat("k", n)).collect();
    v.push(pat("zero", 64));
    v.push(pat("ff", 129));
    v.push(lit_msg(b"super-secret-key"));
    v.push(lit_msg(&[0x00]));
    v.push(lit_msg(&[0xc3, 0x28, 0xff]));
    v
}

/// (fn, variant, mode) snippets run on every "full" input.
fn full_snippets() -> Vec<(&'static str, Option<&'static str>, &'static str)> {
    let mut v: Vec<(&'static str, Option<&'static str>, &'static str)> =
        vec![("md5", None, "default"), ("sha1", None, "default"), ("seahash", None, "default")];
    v.push(("sha2", None, "default"));
    for x in SHA2 {
        v.push(("sha2", Some(x), "literal"));
    }
    v.push(("sha3", None, "default"));
    for x in SHA3 {
        v.push(("sha3", Some(x), "literal"));
    }
    v.push(("xxhash", None, "default"));
    for x in XXH {
        v.push(("xxhash", Some(x), "literal"));
    }
    v.push(("crc", None, "default"));
    for e in CRC_TABLE {
        v.push(("crc", Some(e.0), "literal"));
    }
    v
}

/// Snippets run on the small input set only: other ways of passing the variant.
fn small_snippets() -> Vec<(&'static str, Option<&'static str>, &'static str)> {
    let mut v: Vec<(&'static str, Option<&'static str>, &'static str)> = Vec::new();
    for x in SHA2 {
        v.push(("sha2", Some(x), "positional"));
    }
    for x in SHA3 {
        v.push(("sha3", Some(x), "positional"));
    }
    for x in XXH {
        for m in ["positional", "dynamic", "dynamic-lower"] {
            v.push(("xxhash", Some(x), m));
        }
    }
    for e in CRC_TABLE {
        for m in ["dynamic", "dynamic-lower"] {
            v.push(("crc", Some(e.0), m));
        }
    }
    v
}

fn self_check(rep: &mut Report, inputs: &[J]) {
    let mut n = 0u64;
    for e in CRC_TABLE {
        assert_eq!(crc_ref(e.0, b"123456789"), Some(e.7), "CRC reference: catalogue check value of {}", e.0);
        n += 1;
    }
    assert_eq!(xxh32_ref(b"", 0), 0x02CC_5D05, "XXH32 empty-input vector");
    assert_eq!(xxh64_ref(b"", 0), 0xEF46_DB37_51D8_E999, "XXH64 empty-input vector");
    assert_eq!(xxh3_64_ref(b""), 0x2D06_8005_38D3_94C2, "XXH3-64 empty-input vector");
    assert_eq!(xxh3_128_ref(b""), 0x99AA_06D3_0147_98D8_6001_C324_468D_497F, "XXH3-128 empty-input vector");
    assert_eq!(seahash_ref(b"to be or not to be"), 1_988_685_042_348_123_509, "SeaHash documented vector");
    n += 5;
    // the CRC engine against Python's zlib/binascii on every enumerated message
    for j in inputs {
        let m = msg_bytes(j);
        let r = reference(&m, None);
        assert_eq!(crc_ref("CRC_32_ISO_HDLC", &m).map(|x| x as u64), r["d"]["zlib_crc32"].as_u64(), "zlib.crc32 on {j}");
        assert_eq!(crc_ref("CRC_16_XMODEM", &m).map(|x| x as u64), r["d"]["crc_hqx_0"].as_u64(), "binascii.crc_hqx(_, 0) on {j}");
        assert_eq!(crc_ref("CRC_16_IBM_3740", &m).map(|x| x as u64), r["d"]["crc_hqx_ffff"].as_u64(), "binascii.crc_hqx(_, 0xffff) on {j}");
        n += 3;
    }
    rep.set("reference_self_checks_passed", n);
}

pub fn run(tier: Tier) -> Report {
    let mut rep = Report::new("C27", tier, "exploration");
    let full = full_inputs(tier);
    let small: Vec<J> = full
        .iter()
        .filter(|j| j["hex"].as_str().is_some_and(|h| h.len() > 2) || (j["pat"] == "inc" && j["len"].as_u64().unwrap_or(0) <= 40))
        .cloned()
        .collect();
    let hin = hmac_inputs(tier);
    let hkeys = hmac_keys(tier);

    // ONE python process computes every reference digest / MAC of the run.
    let mut batch: BTreeMap<Vec<u8>, Vec<Vec<u8>>> = BTreeMap::new();
    for j in &full {
        batch.entry(msg_bytes(j)).or_default();
    }
    let keys: Vec<Vec<u8>> = hkeys.iter().map(msg_bytes).collect();
    for j in &hin {
        batch.insert(msg_bytes(j), keys.clone());
    }
    let batch: Vec<(Vec<u8>, Vec<Vec<u8>>)> = batch.into_iter().collect();
    for r in python_batch(&batch) {
        merge_ref(r);
    }
    rep.set("python_reference_messages", batch.len() as u64);
    self_check(&mut rep, &full);

    let fs = full_snippets();
    let (nf, ni) = (fs.len() as u64, full.len() as u64);
    law::drive_indexed(
        &mut rep,
        "digest-crc-xxhash-seahash:all-variants",
        nf * ni,
        |i| {
            let (f, v, m) = fs[(i % nf) as usize];
            json!({"fn": f, "variant": v, "mode": m, "msg": full[(i / nf) as usize]})
        },
        case,
    );
    let ss = small_snippets();
    let (ns, nsi) = (ss.len() as u64, small.len() as u64);
    law::drive_indexed(
        &mut rep,
        "variant-passing:positional-dynamic-lowercase",
        ns * nsi,
        |i| {
            let (f, v, m) = ss[(i % ns) as usize];
            json!({"fn": f, "variant": v, "mode": m, "msg": small[(i / ns) as usize]})
        },
        case,
    );
    // hmac: message × key × algorithm × {default, literal, dynamic, dynamic-lower}
    let mut hs: Vec<(Option<&'static str>, &'static str)> = vec![(None, "default")];
    for a in HMAC {
        hs.push((Some(a), "literal"));
    }
    let (nh, nk, nm) = (hs.len() as u64, hkeys.len() as u64, hin.len() as u64);
    law::drive_indexed(
        &mut rep,
        "hmac:message-x-key-x-algorithm",
        nh * nk * nm,
        |i| {
            let (v, m) = hs[(i % nh) as usize];
            let k = &hkeys[((i / nh) % nk) as usize];
            let msg = &hin[(i / nh / nk) as usize];
            json!({"fn": "hmac", "variant": v, "mode": m, "msg": msg, "key": k})
        },
        case,
    );
    let mut hd: Vec<(Option<&'static str>, &'static str)> = Vec::new();
    for a in HMAC {
        hd.push((Some(a), "dynamic"));
        hd.push((Some(a), "dynamic-lower"));
        hd.push((Some(a), "positional"));
    }
    let hsmall: Vec<J> = hin.iter().filter(|j| j["len"].as_u64().is_none_or(|n| n % 16 <= 1)).cloned().collect();
    let (nh, nm) = (hd.len() as u64, hsmall.len() as u64);
    law::drive_indexed(
        &mut rep,
        "hmac:variant-passing",
        nh * nk * nm,
        |i| {
            let (v, m) = hd[(i % nh) as usize];
            let k = &hkeys[((i / nh) % nk) as usize];
            let msg = &hsmall[(i / nh / nk) as usize];
            json!({"fn": "hmac", "variant": v, "mode": m, "msg": msg, "key": k})
        },
        case,
    );

    rep.set("inputs_full", ni);
    rep.set("inputs_hmac", hin.len() as u64);
    rep.set("hmac_keys", nk);
    rep.set("crc_variants", CRC_TABLE.len() as u64);
    rep.set(
        "rule",
        "messages: every length 0..=300 (thorough 0..=1100) of the pattern (7i+3) mod 256, all-0x00/all-0xff/all-'a' at every block/rate/lane boundary ±1 of the algorithms, lengths around 512/1024/1088/2048/4096, all 256 single bytes, text and non-UTF-8 vectors; × md5, sha1, seahash, sha2 (default + 6 variants), sha3 (default + 4), xxhash (default + 4), crc (default + all 112 catalogue names) with the variant as a literal; on the short messages additionally positional / run-time (.c) / lower-case run-time variants; hmac: messages 0..=140 (thorough 0..=300) × keys of length {0,1,20,32,63,64,65,100,127,128,129,130,200,…} incl. non-UTF-8 × 5 algorithms + default. A case is non-trivial when vrl returned a value and it was compared with the independent reference; distinct_nontrivial counts distinct such witnesses",
    );
    rep.assume("reference for md5/sha1/sha2/sha3/hmac = Python hashlib/hmac (OpenSSL) — trusted");
    rep.assume("CRC parameters = reveng catalogue entries (transcribed as shipped in crc-catalog 2.4.0), each self-checked against its published check value with the harness's own bit-serial engine; the engine is cross-checked against zlib.crc32 and binascii.crc_hqx on every enumerated message. Under test: vrl's name→algorithm dispatch, register width and decimal rendering");
    rep.assume("XXH32/XXH64/XXH3-64/XXH3-128 (seed 0, default secret) and SeaHash references are re-implementations from the published specifications written in this file, self-checked on published vectors; a disagreement with vrl on any length class would be investigated as either side's fault");
    rep.assume("documented encodings: md5/sha1/sha2/sha3 lower-case hex string; hmac raw bytes; crc decimal string; xxhash XXH32/XXH64/XXH3-64 integer (u64 wrapped to i64), XXH3-128 decimal string; seahash integer (u64 wrapped to i64)");
    rep.assume("lower-case variant names passed at run time: a rejection is counted, an accepted call must return the value of the upper-case name");
    rep
}
