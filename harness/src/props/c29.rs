//! C29 — numeric functions return mathematically correct results.
//!
//! Every case is a compiled VRL snippet run on an event; verdicts come from exact arithmetic on
//! the binary expansions of the floats involved (a small big-integer type below), never from
//! floating-point re-computation:
//!   * round / ceil / floor × value × precision: result finite, |r − x| ≤ 10^-precision exactly,
//!     ceil ≥ x, floor ≤ x; at precision 0 (explicit or default) the result must be THE integer
//!     (nearest, ties away from zero / smallest above / largest below); integers pass unchanged,
//!   * abs: magnitude (i64::MIN may wrap),
//!   * mod: the truncated remainder a − b·trunc(a/b) computed exactly (integers in i128, floats by
//!     exact modular reduction of the mantissas), sign and magnitude rules,
//!   * to_int / to_float / to_string / parse_int / parse_float: one law per pair of functions on
//!     their common domain, plus radix renderings for parse_int.

use crate::law::{self, CaseResult};
use crate::report::{Report, Tier, Violation};
use crate::vrlx::Outcome;
use crate::vv;
use serde_json::{Value as J, json};
use std::cmp::Ordering;
use std::collections::BTreeSet;
use vrl::value::Value;

// ------------------------------------------------------------------------------------ exact arithmetic

/// Unsigned big integer, little-endian 32-bit limbs, no leading zero limbs.
#[derive(Clone, Debug, PartialEq, Eq)]
struct Big(Vec<u32>);

impl Big {
    fn from_u64(x: u64) -> Self {
        let mut b = Big(vec![x as u32, (x >> 32) as u32]);
        b.trim();
        b
    }
    fn trim(&mut self) {
        while self.0.last() == Some(&0) {
            self.0.pop();
        }
    }
    fn is_zero(&self) -> bool {
        self.0.is_empty()
    }
    fn shl(&self, n: u32) -> Big {
        if self.is_zero() {
            return self.clone();
        }
        let (limbs, bits) = ((n / 32) as usize, n % 32);
        let mut out = vec![0u32; limbs];
        let mut carry = 0u64;
        for &l in &self.0 {
            let v = (u64::from(l) << bits) | carry;
            out.push(v as u32);
            carry = v >> 32;
        }
        out.push(carry as u32);
        let mut b = Big(out);
        b.trim();
        b
    }
    fn mul_small(&self, m: u32) -> Big {
        let mut out = Vec::with_capacity(self.0.len() + 1);
        let mut carry = 0u64;
        for &l in &self.0 {
            let v = u64::from(l) * u64::from(m) + carry;
            out.push(v as u32);
            carry = v >> 32;
        }
        out.push(carry as u32);
        let mut b = Big(out);
        b.trim();
        b
    }
    fn mul_pow10(&self, k: u32) -> Big {
        let mut b = self.clone();
        let mut k = k;
        while k >= 9 {
            b = b.mul_small(1_000_000_000);
            k -= 9;
        }
        if k > 0 {
            b = b.mul_small(10u32.pow(k));
        }
        b
    }
    fn cmp(&self, o: &Big) -> Ordering {
        if self.0.len() != o.0.len() {
            return self.0.len().cmp(&o.0.len());
        }
        for i in (0..self.0.len()).rev() {
            if self.0[i] != o.0[i] {
                return self.0[i].cmp(&o.0[i]);
            }
        }
        Ordering::Equal
    }
    fn add(&self, o: &Big) -> Big {
        let n = self.0.len().max(o.0.len());
        let mut out = Vec::with_capacity(n + 1);
        let mut carry = 0u64;
        for i in 0..n {
            let v = u64::from(*self.0.get(i).unwrap_or(&0)) + u64::from(*o.0.get(i).unwrap_or(&0)) + carry;
            out.push(v as u32);
            carry = v >> 32;
        }
        out.push(carry as u32);
        let mut b = Big(out);
        b.trim();
        b
    }
    /// self mod 2^n
    fn low_bits(&self, n: u32) -> Big {
        let (limbs, bits) = ((n / 32) as usize, n % 32);
        let mut out: Vec<u32> = self.0.iter().take(limbs + 1).copied().collect();
        if out.len() > limbs {
            out[limbs] &= if bits == 0 { 0 } else { (1u32 << bits) - 1 };
        }
        let mut b = Big(out);
        b.trim();
        b
    }
    /// self − o, requires self ≥ o.
    fn sub(&self, o: &Big) -> Big {
        let mut out = Vec::with_capacity(self.0.len());
        let mut borrow = 0i64;
        for i in 0..self.0.len() {
            let mut v = i64::from(self.0[i]) - i64::from(*o.0.get(i).unwrap_or(&0)) - borrow;
            if v < 0 {
                v += 1 << 32;
                borrow = 1;
            } else {
                borrow = 0;
            }
            out.push(v as u32);
        }
        assert_eq!(borrow, 0, "Big::sub underflow");
        let mut b = Big(out);
        b.trim();
        b
    }
}

/// finite x = (−1)^neg · mant · 2^exp
fn decomp(x: f64) -> (bool, u64, i32) {
    let bits = x.to_bits();
    let neg = bits >> 63 == 1;
    let e = ((bits >> 52) & 0x7ff) as i32;
    let frac = bits & ((1u64 << 52) - 1);
    if e == 0 { (neg, frac, -1074) } else { (neg, frac | (1u64 << 52), e - 1075) }
}

/// |r − x| as (D, e) with value D·2^e, for finite r and x.
fn abs_diff(r: f64, x: f64) -> (Big, i32) {
    let (rn, rm, re) = decomp(r);
    let (xn, xm, xe) = decomp(x);
    let e = re.min(xe);
    let rb = Big::from_u64(rm).shl((re - e) as u32);
    let xb = Big::from_u64(xm).shl((xe - e) as u32);
    let d = if rn != xn {
        rb.add(&xb)
    } else if rb.cmp(&xb) == Ordering::Less {
        xb.sub(&rb)
    } else {
        rb.sub(&xb)
    };
    (d, e)
}

/// Exactly: |r − x| ≤ 10^-p + slack_ulps · ulp, where ulp is the spacing of doubles at the larger
/// of |r| and |x| (slack 0 = the bare bound).
fn within_pow10(r: f64, x: f64, p: i64, slack_ulps: u32) -> bool {
    let (d, e) = abs_diff(r, x);
    if d.is_zero() {
        return true;
    }
    // subtract the slack: everything in units of 2^c
    let u = decomp(r).2.max(decomp(x).2);
    let c = e.min(u);
    let left = d.shl((e - c) as u32);
    let slack = Big::from_u64(u64::from(slack_ulps)).shl((u - c) as u32);
    if left.cmp(&slack) != Ordering::Greater {
        return true;
    }
    let d = left.sub(&slack);
    let e = c;
    // a non-zero multiple of 2^-1074 is > 10^-324; a difference of two doubles is < 2^1025 < 10^309
    if p >= 324 {
        return false;
    }
    if p <= -309 {
        return true;
    }
    // d·2^e·10^p ≤ 1  ⇔  A ≤ B
    let mut a = d;
    let mut b = Big::from_u64(1);
    if p >= 0 {
        a = a.mul_pow10(p as u32);
    } else {
        b = b.mul_pow10((-p) as u32);
    }
    if e >= 0 {
        a = a.shl(e as u32);
    } else {
        b = b.shl((-e) as u32);
    }
    a.cmp(&b) != Ordering::Greater
}

/// Is r·10^p within `k` ulps (of r, scaled by 10^p) of an integer, i.e. does `r` sit on the grid of
/// multiples of 10^-p as closely as a double can? Exact; p ≥ 0.
fn on_decimal_grid(r: f64, p: u32, k: u32) -> bool {
    let (_, m, e) = decomp(r);
    if m == 0 || e >= 0 {
        return true;
    }
    let sh = (-e) as u32;
    let a = Big::from_u64(m).mul_pow10(p); // r·10^p = a·2^e
    let low = a.low_bits(sh);
    if low.is_zero() {
        return true;
    }
    let up = Big::from_u64(1).shl(sh).sub(&low);
    let dist = if low.cmp(&up) == Ordering::Less { low } else { up };
    // dist·2^e ≤ k·ulp(r)·10^p = k·2^e·10^p
    dist.cmp(&Big::from_u64(u64::from(k)).mul_pow10(p)) != Ordering::Greater
}

/// Number of representable doubles between two finite doubles (0 = equal).
fn ulp_steps(a: f64, b: f64) -> u64 {
    let key = |v: f64| {
        let m = (v.to_bits() & !(1u64 << 63)) as i64;
        if v.is_sign_negative() { -m } else { m }
    };
    key(a).abs_diff(key(b))
}

/// Exact integer roundings of a finite float. `mode`: "round" (ties away from zero), "ceil",
/// "floor", "trunc". The result is an integer-valued double, exactly.
fn exact_integer(x: f64, mode: &str) -> f64 {
    let (neg, m, e) = decomp(x);
    if e >= 0 || m == 0 {
        return x; // already an integer
    }
    let sh = (-e) as u32;
    let (int, frac_nonzero, half_or_more) = if sh >= 64 {
        (0u64, true, false)
    } else {
        let int = m >> sh;
        let frac = m & ((1u64 << sh) - 1);
        (int, frac != 0, frac >= (1u64 << (sh - 1)))
    };
    let mag = match mode {
        "round" => int + u64::from(half_or_more),
        "ceil" => int + u64::from(!neg && frac_nonzero),
        "floor" => int + u64::from(neg && frac_nonzero),
        _ => int,
    };
    // mag ≤ 2^53: exact
    let v = mag as f64;
    if neg { -v } else { v }
}

/// trunc(x) as i128 when it fits comfortably, else None.
fn trunc_i128(x: f64) -> Option<i128> {
    let (neg, m, e) = decomp(x);
    let mag: i128 = if e >= 0 {
        if e > 70 {
            return None;
        }
        i128::from(m) << e
    } else if -e >= 64 {
        0
    } else {
        i128::from(m >> (-e) as u32)
    };
    Some(if neg { -mag } else { mag })
}

/// r·2^e for r < 2^53 where the result is known to be representable: exact scaling.
fn ldexp_exact(r: u64, e: i32) -> f64 {
    let mut v = r as f64;
    let mut e = e;
    while e > 0 {
        let s = e.min(512);
        v *= 2f64.powi(s);
        e -= s;
    }
    while e < 0 {
        let s = (-e).min(512);
        v *= 2f64.powi(-s);
        e += s;
    }
    v
}

/// The truncated remainder a − b·trunc(a/b) of finite doubles (b ≠ 0), computed exactly: it is
/// always representable, has the sign of `a` and magnitude < |b|.
fn fmod_exact(a: f64, b: f64) -> f64 {
    let (an, am, ae) = decomp(a);
    let (_, bm, be) = decomp(b);
    if am == 0 {
        return a;
    }
    let (r, e): (u64, i32) = if ae >= be {
        // (am·2^(ae−be)) mod bm, scaled by 2^be
        let mut r = u128::from(am) % u128::from(bm);
        for _ in 0..(ae - be) {
            r = (r * 2) % u128::from(bm);
        }
        (r as u64, be)
    } else {
        let sh = (be - ae) as u32;
        if sh > 64 {
            (am, ae) // |b| > |a|
        } else {
            ((u128::from(am) % (u128::from(bm) << sh)) as u64, ae)
        }
    };
    // r < 2^53 in both branches (r < bm, or r ≤ am)
    let v = ldexp_exact(r, e);
    if an { -v } else { v }
}

// ------------------------------------------------------------------------------------ alphabets

fn next_up(x: f64) -> f64 {
    if x == 0.0 {
        return f64::from_bits(1);
    }
    let b = x.to_bits();
    f64::from_bits(if x > 0.0 { b + 1 } else { b - 1 })
}
fn next_down(x: f64) -> f64 {
    -next_up(-x)
}

fn float_alphabet(tier: Tier) -> Vec<f64> {
    fn push3_into(v: &mut Vec<f64>, x: f64) {
        for y in [x, next_up(x), next_down(x)] {
            if y.is_finite() {
                v.push(y);
                v.push(-y);
            }
        }
    }
    let mut v: Vec<f64> = Vec::new();
    // decimal fractions k/10^d around rounding ties and unit steps
    let ks: &[u32] = if tier.thorough() {
        &[0, 1, 2, 3, 4, 5, 6, 7, 9, 10, 11, 14, 15, 16, 24, 25, 26, 35, 45, 49, 50, 51, 55, 65, 75, 85, 95, 99, 100, 101, 105, 115, 125, 135, 145, 150, 250, 285, 995, 999, 1000, 1005, 1015, 1234, 1450, 2675, 4345, 4350, 5450, 5500, 8345, 9995, 12345, 99995]
    } else {
        &[0, 1, 2, 4, 5, 6, 9, 10, 15, 25, 35, 45, 49, 50, 51, 55, 95, 99, 100, 105, 115, 125, 135, 145, 285, 999, 1005, 1015, 1234, 2675, 4345, 4350, 5450, 5500, 9995]
    };
    for d in 0..=(if tier.thorough() { 7u32 } else { 4u32 }) {
        for &k in ks {
            push3_into(&mut v, f64::from(k) / 10f64.powi(d as i32));
        }
    }
    // binary scale: subnormals, 2^52/2^53 (no fraction bits left), i64 range edge, overflow edge
    for k in [-1074, -1073, -1050, -1023, -1022, -1021, -500, -64, -60, -54, -53, -52, -30, -2, -1, 0, 1, 2, 30, 31, 32, 51, 52, 53, 54, 62, 63, 64, 65, 100, 500, 1000, 1022, 1023] {
        let x = if k < -1022 { f64::from_bits(1u64 << (k + 1074)) } else { 2f64.powi(k) };
        push3_into(&mut v, x);
        push3_into(&mut v, x * 1.5);
    }
    // decimal scale: where 10^p stops being exact (22/23) and where x·10^p overflows
    for k in [-323, -320, -310, -308, -307, -300, -200, -100, -30, -23, -22, -17, -16, -15, -10, -7, -5, -4, 4, 5, 7, 10, 14, 15, 16, 17, 18, 19, 22, 23, 30, 100, 200, 290, 300, 305, 307, 308] {
        let p = format!("1e{k}").parse::<f64>().expect("pow10");
        push3_into(&mut v, p);
        for m in ["1.5", "2.5", "9.99", "1.23456789"] {
            v.push(format!("{m}e{k}").parse::<f64>().expect("float"));
            v.push(-format!("{m}e{k}").parse::<f64>().expect("float"));
        }
    }
    for x in [
        f64::MAX, f64::MIN_POSITIVE, 5e-324, 0.1 + 0.2, 1e15 + 0.5, 4_503_599_627_370_496.5, 4_503_599_627_370_495.5,
        2_251_799_813_685_248.5, 2_251_799_813_685_247.75, 0.499_999_999_999_999_94, 0.500_000_000_000_000_1, 1.5e300, 123.456,
        1234.5678, 4.345, 4.35, 5.45, 1.005, 2.675, 1.45, 8.345, 0.285, 1.000_000_1, 9.995, 999_999.999_999_5, 0.07, 0.57, 0.58, 1.1,
        2.2, 3.3, 1.15, 1.25, 1.35, 64.1, 33.3, 1e15 + 0.3, 9.223_372_036_854_775_8e18, 9.223_372_036_854_774_8e18, 1.844_674_407_370_955_2e19,
        9_007_199_254_740_993.0, 9_007_199_254_740_991.0, 4_611_686_018_427_387_904.0, 299_792_458.0, 3.141_592_653_589_793, 2.718_281_828_459_045,
    ] {
        push3_into(&mut v, x);
    }
    let set: BTreeSet<u64> = v.into_iter().filter(|x| x.is_finite()).map(|x| x.to_bits()).collect();
    // deterministic numeric-ish order: by bit pattern
    set.into_iter().map(f64::from_bits).collect()
}

fn int_alphabet(tier: Tier) -> Vec<i64> {
    let mut s: BTreeSet<i64> = BTreeSet::new();
    let r = if tier.thorough() { 300 } else { 70 };
    for i in -r..=r {
        s.insert(i);
    }
    for k in [7u32, 8, 15, 16, 24, 31, 32, 52, 53, 54, 62] {
        let p = 1i64 << k;
        for d in [-2, -1, 0, 1, 2] {
            s.insert(p + d);
            s.insert(-(p + d));
        }
    }
    let mut p10 = 1i64;
    for _ in 1..=18 {
        p10 *= 10;
        for d in [-1, 0, 1] {
            s.insert(p10 + d);
            s.insert(-(p10 + d));
        }
    }
    for v in [i64::MIN, i64::MIN + 1, i64::MIN + 2, i64::MAX, i64::MAX - 1, i64::MAX - 2, 3_037_000_500, -3_037_000_500, 9_007_199_254_740_993, 1_234_567_890_123_456_789] {
        s.insert(v);
    }
    s.into_iter().collect()
}

fn precisions(tier: Tier) -> Vec<J> {
    let mut p: Vec<i64> = vec![
        i64::MIN, -(1i64 << 32) - 2, -(1i64 << 31) - 1, -1000, -400, -330, -325, -324, -323, -310, -309, -308, -307, -300, -100, -23, -22,
        -20, -17, -16, -15, -5, -3, -2, -1, 0, 1, 2, 3, 4, 5, 10, 15, 16, 17, 20, 22, 23, 100, 290, 300, 307, 308, 309, 310, 323, 324,
        325, 330, 400, 1000, 1i64 << 31, (1i64 << 32) + 2, i64::MAX,
    ];
    if tier.thorough() {
        p.extend([-350, -306, -200, -50, -30, -19, -18, -10, -9, -8, -7, -6, -4, 6, 7, 8, 9, 11, 12, 13, 14, 18, 19, 21, 24, 30, 50, 200, 305, 306, 350, 1023, 1024, 1074, 1075]);
        p.sort_unstable();
    }
    let mut v: Vec<J> = vec![J::Null];
    v.extend(p.into_iter().map(|x| json!(x)));
    v
}

// ------------------------------------------------------------------------------------ helpers

fn fval(o: &Outcome) -> Option<f64> {
    match o.value()? {
        Value::Float(f) => Some(f.into_inner()),
        _ => None,
    }
}

fn num(x: &J) -> Value {
    vv::dec(x)
}

fn viol(clause: &str, w: &J, expected: impl Into<String>, observed: impl Into<String>) -> Violation {
    Violation::new(clause, w.clone(), expected, observed)
}

// ------------------------------------------------------------------------------------ round / ceil / floor

/// |r − x| may exceed 10^-p by this many ulps (of the larger of r, x) before `within` is raised: the
/// ideal result (a multiple of 10^-p) is generally not a double, so half an ulp is unavoidable and
/// any floating-point evaluation adds a little more.
const NOISE_ULPS: u32 = 2;
/// A result of rounding to `p` decimals is a multiple of 10^-p as far as a double can be: its
/// product with 10^p must be within this many (scaled) ulps of an integer. Vacuous once one ulp of
/// the result exceeds 10^-p (large values / precisions), where every double qualifies.
const GRID_ULPS: u32 = 4;

fn case_round(w: &J) -> CaseResult {
    let f = w["fn"].as_str().unwrap_or("round");
    let x = num(&w["x"]);
    let p: Option<i64> = w["p"].as_i64();
    let pmode = w["pmode"].as_str().unwrap_or("literal");
    let src = match (p, pmode) {
        (None, _) => format!("{f}!(.a)"),
        (Some(p), "event") => {
            let _ = p;
            format!("{f}!(.a, precision: .b)")
        }
        (Some(p), _) => format!("{f}!(.a, precision: {})", vv::lit(&Value::Integer(p)).expect("int literal")),
    };
    let ev = law::ev2(x.clone(), p.map_or(Value::Null, Value::Integer));
    let out = law::call(&src, ev);
    let pp = p.unwrap_or(0);
    match &x {
        Value::Integer(i) => {
            // an integer is within 10^-p of itself for every p; the documentation promises it unchanged
            let mut r = CaseResult::ok(&format!("{f}:int:{}", out.class()));
            if out.value() != Some(&Value::Integer(*i)) {
                r = r.violation(viol(&format!("C29.{f}.integer-unchanged"), w, i.to_string(), out.show()));
            }
            r
        }
        Value::Float(xf) => {
            let xf = xf.into_inner();
            let Some(r) = fval(&out) else {
                return CaseResult::trivial(&format!("{f}:float:{}", out.class())).violation(viol(
                    &format!("C29.{f}.outcome"),
                    w,
                    "a float",
                    out.show(),
                ));
            };
            let mut res = CaseResult::ok("");
            let mut cls = "ok";
            if !r.is_finite() {
                cls = "nonfinite";
                res = res.violation(viol(&format!("C29.{f}.finite"), w, "a finite value", vv::fmt_float(r)));
            } else {
                if !within_pow10(r, xf, pp, 0) {
                    if within_pow10(r, xf, pp, NOISE_ULPS) {
                        // 10^-p (or the ideal result) is not a double: the bound is exceeded only by
                        // the rounding of the result itself
                        res = res.count("bound_exceeded_only_by_result_rounding", 1);
                    } else {
                        cls = "far";
                        res = res.violation(viol(
                            &format!("C29.{f}.within"),
                            w,
                            format!("|result − {}| ≤ 10^{}", vv::fmt_float(xf), -i128::from(pp)),
                            vv::fmt_float(r),
                        ));
                    }
                }
                // direction: never judged with slack (x itself is always an admissible answer)
                let wrong_side = (f == "ceil" && r < xf) || (f == "floor" && r > xf);
                if wrong_side {
                    let near = ulp_steps(r, xf) <= u64::from(NOISE_ULPS);
                    cls = if near { "wrong-side-ulp" } else { "wrong-side" };
                    let clause = match (f, near) {
                        ("ceil", false) => "C29.ceil.not-below",
                        ("ceil", true) => "C29.ceil.not-below.ulp",
                        (_, false) => "C29.floor.not-above",
                        (_, true) => "C29.floor.not-above.ulp",
                    };
                    let want = if f == "ceil" { format!("≥ {}", vv::fmt_float(xf)) } else { format!("≤ {}", vv::fmt_float(xf)) };
                    res = res.violation(viol(clause, w, want, vv::fmt_float(r)));
                }
                // Sharpening beyond the literal bound (declared in `assumptions`): applied only where 10^p and
                // x·10^p are normal finite doubles — outside that range "the input unchanged" is the only
                // answer the f64 range allows and the property's bound already accepts it (DESIGN §8, correction 2).
                let scaled_ok = (1..=300).contains(&pp) && xf.is_normal() && (xf.abs().log10() + pp as f64) < 300.0;
                if scaled_ok && !on_decimal_grid(r, pp as u32, GRID_ULPS) {
                    cls = "off-grid";
                    res = res.violation(viol(
                        &format!("C29.{f}.decimal-grid"),
                        w,
                        format!("a multiple of 10^-{pp} (to within {GRID_ULPS} ulps of the result)"),
                        vv::fmt_float(r),
                    ));
                }
                if pp == 0 {
                    let want = exact_integer(xf, f);
                    if r != want {
                        cls = "p0-inexact";
                        res = res.violation(viol(&format!("C29.{f}.precision0-exact"), w, vv::fmt_float(want), vv::fmt_float(r)));
                    }
                }
            }
            res.class = format!("{f}:float:{cls}:{}", if r == xf { "same" } else { "moved" });
            res.count(if r == xf { "rounding_returned_input" } else { "rounding_moved_value" }, 1)
        }
        _ => CaseResult::trivial("bad-witness"),
    }
}

// ------------------------------------------------------------------------------------ abs

fn case_abs(w: &J) -> CaseResult {
    let x = num(&w["x"]);
    let out = law::call("abs!(.a)", law::ev1(x.clone()));
    match &x {
        Value::Integer(i) => {
            if *i == i64::MIN {
                // The property lets the minimum integer wrap. With overflow checks compiled in
                // (the harness profile) `i64::abs` panics instead; only counted.
                return match &out {
                    Outcome::Ok(Value::Integer(r)) if *r == i64::MIN => CaseResult::ok("abs:int-min:wrapped"),
                    o if law::is_panic(o) => CaseResult::trivial("abs:int-min:panic").count("abs_min_integer_panics_under_overflow_checks", 1),
                    o => CaseResult::trivial("abs:int-min:other").violation(viol("C29.abs.min-integer", w, "wraps to the minimum integer", o.show())),
                };
            }
            let want = Value::Integer(if *i < 0 { -*i } else { *i });
            let mut r = CaseResult::ok(&format!("abs:int:{}", out.class()));
            if out.value() != Some(&want) {
                r = r.violation(viol("C29.abs.integer", w, vv::show(&want), out.show()));
            }
            r
        }
        Value::Float(f) => {
            let f = f.into_inner();
            let want = f64::from_bits(f.to_bits() & !(1u64 << 63));
            let mut r = CaseResult::ok(&format!("abs:float:{}", out.class()));
            match fval(&out) {
                Some(g) if g == want => {
                    if g.is_sign_negative() {
                        r = r.count("abs_returned_negative_zero", 1);
                    }
                }
                _ => r = r.violation(viol("C29.abs.float", w, vv::fmt_float(want), out.show())),
            }
            r
        }
        _ => CaseResult::trivial("bad-witness"),
    }
}

// ------------------------------------------------------------------------------------ mod

fn case_mod(w: &J) -> CaseResult {
    let (a, b) = (num(&w["a"]), num(&w["b"]));
    let out = law::call("mod!(.a, .b)", law::ev2(a.clone(), b.clone()));
    let zero_div = matches!(&b, Value::Integer(0)) || matches!(&b, Value::Float(f) if f.into_inner() == 0.0);
    if zero_div {
        // "modulus is equal to 0" is a documented failure; the property says nothing about it.
        return CaseResult::trivial(&format!("mod:zero:{}", out.class())).count(
            if out.success() { "mod_by_zero_returned_value" } else { "mod_by_zero_rejected" },
            1,
        );
    }
    match (&a, &b) {
        (Value::Integer(x), Value::Integer(y)) => {
            let (x, y) = (i128::from(*x), i128::from(*y));
            let want = x - y * (x / y); // i128 division truncates
            let mut r = CaseResult::ok(&format!("mod:int:{}", out.class()));
            match out.value() {
                Some(Value::Integer(g)) => {
                    let g = i128::from(*g);
                    if g != 0 && (g < 0) != (x < 0) {
                        r = r.violation(viol("C29.mod.sign", w, "zero or the sign of the dividend", g.to_string()));
                    }
                    if g.abs() >= y.abs() {
                        r = r.violation(viol("C29.mod.magnitude", w, "|result| < |modulus|", g.to_string()));
                    }
                    if g != want {
                        r = r.violation(viol("C29.mod.reference", w, want.to_string(), g.to_string()));
                    }
                }
                _ => r = r.violation(viol("C29.mod.outcome", w, want.to_string(), out.show())),
            }
            r
        }
        _ => {
            // mixed operands: the integer is converted; only exactly convertible ones are judged
            let conv = |v: &Value| match v {
                Value::Integer(i) if i.unsigned_abs() <= 1u64 << 53 => Some(*i as f64),
                Value::Integer(_) => None,
                Value::Float(f) => Some(f.into_inner()),
                _ => None,
            };
            let (Some(x), Some(y)) = (conv(&a), conv(&b)) else {
                return CaseResult::trivial("mod:mixed-inexact-integer").count("mod_mixed_inexact_integer_skipped", 1);
            };
            let want = fmod_exact(x, y);
            let mut r = CaseResult::ok(&format!("mod:float:{}", out.class()));
            match fval(&out) {
                Some(g) => {
                    if g != 0.0 && (g < 0.0) != (x < 0.0) {
                        r = r.violation(viol("C29.mod.sign", w, "zero or the sign of the dividend", vv::fmt_float(g)));
                    }
                    if !(g.abs() < y.abs()) {
                        r = r.violation(viol("C29.mod.magnitude", w, "|result| < |modulus|", vv::fmt_float(g)));
                    }
                    if g != want {
                        r = r.violation(viol("C29.mod.reference", w, vv::fmt_float(want), vv::fmt_float(g)));
                    }
                }
                None => r = r.violation(viol("C29.mod.outcome", w, vv::fmt_float(want), out.show())),
            }
            r
        }
    }
}

// ------------------------------------------------------------------------------------ conversions

fn feq(o: &Outcome, want: f64) -> bool {
    fval(o).is_some_and(|g| g == want)
}

fn case_conv_int(w: &J) -> CaseResult {
    let Value::Integer(i) = num(&w["x"]) else { return CaseResult::trivial("bad-witness") };
    let ev = || law::ev1(Value::Integer(i));
    let dec = i.to_string();
    let as_float = i as f64; // nearest double, ties to even
    let mut r = CaseResult::ok("conv-int");
    let mut laws = 0u64;
    let mut check = |clause: &str, src: &str, ok: &dyn Fn(&Outcome) -> bool, want: String| {
        let o = law::call(src, ev());
        laws += 1;
        if !ok(&o) {
            r.violations.push(viol(clause, w, format!("{src} = {want}"), o.show()));
        }
    };
    let is_i = |o: &Outcome| o.value() == Some(&Value::Integer(i));
    check("C29.conv.to_int-of-int", "to_int!(.a)", &is_i, dec.clone());
    check("C29.conv.to_string-of-int", "to_string!(.a)", &|o| o.value() == Some(&Value::from(dec.as_str())), format!("{dec:?}"));
    check("C29.conv.to_float-of-int", "to_float!(.a)", &|o| feq(o, as_float), vv::fmt_float(as_float));
    check("C29.conv.parse_int-to_string", "parse_int!(to_string!(.a))", &is_i, dec.clone());
    check("C29.conv.parse_int10-to_string", "parse_int!(to_string!(.a), base: 10)", &is_i, dec.clone());
    check("C29.conv.to_int-to_string", "to_int!(to_string!(.a))", &is_i, dec.clone());
    check("C29.conv.parse_float-to_string-int", "parse_float!(to_string!(.a))", &|o| feq(o, as_float), vv::fmt_float(as_float));
    check("C29.conv.to_float-to_string-int", "to_float!(to_string!(.a))", &|o| feq(o, as_float), vv::fmt_float(as_float));
    if i.unsigned_abs() <= 1u64 << 53 {
        check("C29.conv.to_int-to_float", "to_int!(to_float!(.a))", &is_i, dec.clone());
        check("C29.conv.to_int-parse_float-to_string", "to_int!(parse_float!(to_string!(.a)))", &is_i, dec.clone());
    }
    r.count("conversion_laws_evaluated", laws)
}

fn case_conv_float(w: &J) -> CaseResult {
    let Value::Float(nf) = num(&w["x"]) else { return CaseResult::trivial("bad-witness") };
    let f = nf.into_inner();
    let ev = || law::ev1(vv::f(f));
    let mut r = CaseResult::ok("conv-float");
    let mut laws = 0u64;
    let show = vv::fmt_float(f);
    {
        let mut check = |clause: &str, src: &str, ok: &dyn Fn(&Outcome) -> bool, want: String| {
            let o = law::call(src, ev());
            laws += 1;
            if !ok(&o) {
                r.violations.push(viol(clause, w, format!("{src} = {want}"), o.show()));
            }
        };
        check("C29.conv.to_float-of-float", "to_float!(.a)", &|o| feq(o, f), show.clone());
        check("C29.conv.to_string-of-float", "to_string!(.a)", &|o| matches!(o.value(), Some(Value::Bytes(_))), "a string".into());
        check("C29.conv.parse_float-to_string", "parse_float!(to_string!(.a))", &|o| feq(o, f), show.clone());
        check("C29.conv.to_float-to_string", "to_float!(to_string!(.a))", &|o| feq(o, f), show.clone());
    }
    // truncation towards zero, where the integer part is an i64
    let t = trunc_i128(f);
    let in_range = t.is_some_and(|t| t >= i128::from(i64::MIN) && t <= i128::from(i64::MAX));
    let o = law::call("to_int!(.a)", ev());
    if in_range {
        laws += 1;
        let want = Value::Integer(t.expect("in range") as i64);
        if o.value() != Some(&want) {
            r.violations.push(viol("C29.conv.to_int-truncates", w, format!("to_int!(.a) = {}", vv::show(&want)), o.show()));
        }
        if f.abs() < 9_007_199_254_740_992.0 {
            // back to float: the integer part, exactly
            laws += 1;
            let back = law::call("to_float!(to_int!(.a))", ev());
            if !feq(&back, exact_integer(f, "trunc")) {
                r.violations.push(viol("C29.conv.to_float-to_int", w, vv::fmt_float(exact_integer(f, "trunc")), back.show()));
            }
            if exact_integer(f, "trunc") == f {
                // integral value: its text, where to_int accepts it, denotes the same integer
                let via = law::call("to_int!(to_string!(.a))", ev());
                match via.value() {
                    Some(v) => {
                        laws += 1;
                        if v != &want {
                            r.violations.push(viol("C29.conv.to_int-to_string-float", w, vv::show(&want), via.show()));
                        }
                    }
                    None => r = r.count("integral_float_text_not_accepted_by_to_int", 1),
                }
            }
        }
    } else {
        r = r.count("to_int_of_float_outside_i64_not_judged", 1);
    }
    r.class = format!("conv-float:{}", if in_range { "int-range" } else { "beyond-i64" });
    r.count("conversion_laws_evaluated", laws)
}

fn strict_decimal_int(s: &str) -> Option<i128> {
    let body = s.strip_prefix(['+', '-']).unwrap_or(s);
    if body.is_empty() || body.len() > 30 || !body.bytes().all(|b| b.is_ascii_digit()) {
        return None;
    }
    let mut v: i128 = 0;
    for b in body.bytes() {
        v = v * 10 + i128::from(b - b'0');
    }
    Some(if s.starts_with('-') { -v } else { v })
}

fn strict_decimal_float(s: &str) -> bool {
    // [+-]? digits+ (. digits+)? ([eE] [+-]? digits+)?
    let b = s.as_bytes();
    let mut i = 0;
    if i < b.len() && (b[i] == b'+' || b[i] == b'-') {
        i += 1;
    }
    let digits = |i: &mut usize| {
        let s0 = *i;
        while *i < b.len() && b[*i].is_ascii_digit() {
            *i += 1;
        }
        *i > s0
    };
    if !digits(&mut i) {
        return false;
    }
    if i < b.len() && b[i] == b'.' {
        i += 1;
        if !digits(&mut i) {
            return false;
        }
    }
    if i < b.len() && (b[i] == b'e' || b[i] == b'E') {
        i += 1;
        if i < b.len() && (b[i] == b'+' || b[i] == b'-') {
            i += 1;
        }
        if !digits(&mut i) {
            return false;
        }
    }
    i == b.len()
}

fn case_conv_str(w: &J) -> CaseResult {
    let s = w["s"].as_str().unwrap_or("").to_string();
    let ev = || law::ev1(Value::from(s.as_str()));
    let to_int = law::call("to_int!(.a)", ev());
    let p_int = law::call("parse_int!(.a, base: 10)", ev());
    let to_float = law::call("to_float!(.a)", ev());
    let p_float = law::call("parse_float!(.a)", ev());
    let mut r = CaseResult::ok("");
    let ival = |o: &Outcome| match o.value() {
        Some(Value::Integer(i)) => Some(*i),
        _ => None,
    };
    for (name, o) in [("to_int", &to_int), ("parse_int", &p_int), ("to_float", &to_float), ("parse_float", &p_float)] {
        if law::is_panic(o) || matches!(o, Outcome::Other(_)) {
            r.violations.push(viol("C29.conv.string-outcome", w, format!("{name}: a value or an error"), o.show()));
        }
    }
    // pairwise agreement where both accept
    match (ival(&to_int), ival(&p_int)) {
        (Some(x), Some(y)) if x != y => r.violations.push(viol("C29.conv.to_int-vs-parse_int", w, format!("to_int = {x}"), format!("parse_int(base 10) = {y}"))),
        (Some(_), None) | (None, Some(_)) => r = r.count("string_accepted_by_only_one_of_to_int_parse_int", 1),
        _ => {}
    }
    match (fval(&to_float), fval(&p_float)) {
        (Some(x), Some(y)) if x != y => r.violations.push(viol("C29.conv.to_float-vs-parse_float", w, vv::fmt_float(x), vv::fmt_float(y))),
        (Some(_), None) | (None, Some(_)) => r = r.count("string_accepted_by_only_one_of_to_float_parse_float", 1),
        _ => {}
    }
    if let (Some(n), Some(x)) = (ival(&to_int), fval(&to_float)) {
        if x != n as f64 {
            r.violations.push(viol("C29.conv.int-text-as-float", w, vv::fmt_float(n as f64), vv::fmt_float(x)));
        }
    }
    // references on the strict decimal grammar
    let mut cls = "other";
    if let Some(n) = strict_decimal_int(&s) {
        if n >= i128::from(i64::MIN) && n <= i128::from(i64::MAX) {
            cls = "decimal-int";
            for (name, o) in [("to_int", &to_int), ("parse_int", &p_int)] {
                if ival(o) != Some(n as i64) {
                    r.violations.push(viol("C29.conv.decimal-integer-text", w, format!("{name} = {n}"), o.show()));
                }
            }
        } else {
            cls = "decimal-int-overflow";
            for (name, o) in [("to_int", &to_int), ("parse_int", &p_int)] {
                if o.success() {
                    r.violations.push(viol("C29.conv.decimal-integer-overflow", w, format!("{name}: an error ({n} is not an i64)"), o.show()));
                }
            }
        }
    }
    if strict_decimal_float(&s) {
        let want: f64 = s.parse().expect("strict decimal grammar is accepted by Rust");
        if want.is_finite() {
            if cls == "other" {
                cls = "decimal-float";
            }
            for (name, o) in [("to_float", &to_float), ("parse_float", &p_float)] {
                if !feq(o, want) {
                    r.violations.push(viol("C29.conv.decimal-float-text", w, format!("{name} = {}", vv::fmt_float(want)), o.show()));
                }
            }
        } else {
            r = r.count("decimal_text_beyond_f64_range_not_judged", 1);
        }
    }
    r.class = format!("conv-str:{cls}:{}{}{}{}", to_int.class(), p_int.class(), to_float.class(), p_float.class());
    r.nontrivial = cls != "other";
    r
}

fn render_radix(i: i64, base: u32, upper: bool) -> String {
    let mut mag = i.unsigned_abs();
    let mut digits = Vec::new();
    if mag == 0 {
        digits.push(b'0');
    }
    while mag > 0 {
        let d = (mag % u64::from(base)) as u8;
        digits.push(if d < 10 { b'0' + d } else if upper { b'A' + d - 10 } else { b'a' + d - 10 });
        mag /= u64::from(base);
    }
    if i < 0 {
        digits.push(b'-');
    }
    digits.reverse();
    String::from_utf8(digits).expect("ascii")
}

fn case_radix(w: &J) -> CaseResult {
    let i = w["x"].as_i64().unwrap_or(0);
    let form = w["form"].as_str().unwrap_or("base");
    let base = w["base"].as_u64().unwrap_or(10) as u32;
    let (text, src): (String, String) = match form {
        "base" => (render_radix(i, base, false), format!("parse_int!(.a, base: {base})")),
        "base-upper" => (render_radix(i, base, true), format!("parse_int!(.a, base: {base})")),
        "base-event" => (render_radix(i, base, false), "parse_int!(.a, base: .b)".to_string()),
        // automatic base detection from the documented prefixes (non-negative numbers)
        "0b" => (format!("0b{}", render_radix(i, 2, false)), "parse_int!(.a)".into()),
        "0o" => (format!("0o{}", render_radix(i, 8, false)), "parse_int!(.a)".into()),
        "0x" => (format!("0x{}", render_radix(i, 16, false)), "parse_int!(.a)".into()),
        "0" => (format!("0{}", render_radix(i, 8, false)), "parse_int!(.a)".into()),
        _ => return CaseResult::trivial("bad-witness"),
    };
    let out = law::call(&src, law::ev2(Value::from(text.as_str()), Value::Integer(i64::from(base))));
    let mut r = CaseResult::ok(&format!("radix:{form}:{}", out.class()));
    if out.value() != Some(&Value::Integer(i)) {
        r = r.violation(viol("C29.parse_int.radix", w, format!("{src} on {text:?} = {i}"), out.show()));
    }
    r
}

// ------------------------------------------------------------------------------------ dispatch

fn case(w: &J) -> CaseResult {
    match w["law"].as_str().unwrap_or("") {
        "rounding" => case_round(w),
        "abs" => case_abs(w),
        "mod" => case_mod(w),
        "conv-int" => case_conv_int(w),
        "conv-float" => case_conv_float(w),
        "conv-str" => case_conv_str(w),
        "radix" => case_radix(w),
        _ => CaseResult::trivial("bad-witness"),
    }
}

pub fn replay(_property: &str, w: &J) -> Vec<Violation> {
    case(w).violations
}

fn string_alphabet() -> Vec<String> {
    let bodies = [
        "0", "1", "7", "10", "007", "00", "42", "9223372036854775807", "9223372036854775808", "9223372036854775809", "18446744073709551615",
        "18446744073709551616", "123456789012345678901234567890", "9007199254740993", "9007199254740992", "1.5", "1.", ".5", "0.5", "0.1", "3.0",
        "2.50", "1e3", "1E3", "1e+3", "1e-3", "1.5e3", "1e400", "1e-400", "1e308", "1.7976931348623157e308", "1.7976931348623159e308",
        "4.9e-324", "2.4e-324", "2.5e-324", "0.30000000000000004", "0.1e1", "100000000000000000000", "1e22", "1e23", "8.41e21",
        "2.2250738585072011e-308", "0x10", "0b11", "0o17", "1_000", "1,000", "\u{661}\u{662}", "inf", "Inf", "infinity", "nan", "NaN", "",
        " 1", "1 ", "1\n", "1.5.2", "1e", "e1", "--1", "1-", "0.0", "00.5", "5e0", "12abc", "true",
    ];
    let mut v = Vec::new();
    for sign in ["", "-", "+"] {
        for b in bodies {
            v.push(format!("{sign}{b}"));
        }
    }
    v
}

pub fn run(tier: Tier) -> Report {
    let mut rep = Report::new("C29", tier, "exploration");
    let floats = float_alphabet(tier);
    let ints = int_alphabet(tier);
    let precs = precisions(tier);
    let fj: Vec<J> = floats.iter().map(|x| vv::enc(&vv::f(*x))).collect();
    let ij: Vec<J> = ints.iter().map(|x| json!(x)).collect();
    let mut nums: Vec<J> = fj.clone();
    nums.extend(ij.iter().cloned());

    // round / ceil / floor × number × precision (literal in the program text). 10^p is inf from
    // p = 309 and 0 from p = -324: those two edges run on every number, the precisions further
    // out (which behave alike) on every 8th number in the quick tier.
    let fns = ["round", "ceil", "floor"];
    let (core, extreme): (Vec<J>, Vec<J>) = precs.iter().cloned().partition(|p| p.as_i64().is_none_or(|p| (-324..=309).contains(&p)));
    let sparse: Vec<J> = if tier.thorough() { nums.clone() } else { nums.iter().step_by(8).cloned().collect() };
    let nn = nums.len() as u64;
    let np = precs.len() as u64;
    for (group, ps, xs) in [("rounding:fn-x-value-x-precision", &core, &nums), ("rounding:fn-x-value-x-extreme-precision", &extreme, &sparse)] {
        let (npp, nx) = (ps.len() as u64, xs.len() as u64);
        law::drive_indexed(
            &mut rep,
            group,
            3 * nx * npp,
            |i| {
                let f = fns[(i % 3) as usize];
                let p = &ps[((i / 3) % npp) as usize];
                let x = &xs[(i / 3 / npp) as usize];
                json!({"law": "rounding", "fn": f, "x": x, "p": p, "pmode": "literal"})
            },
            case,
        );
    }
    // precision taken from the event (run-time value) on a subset of precisions
    let pev: Vec<J> = [-324i64, -2, 0, 1, 2, 17, 309].iter().map(|x| json!(x)).collect();
    let npe = pev.len() as u64;
    let nsp = sparse.len() as u64;
    law::drive_indexed(
        &mut rep,
        "rounding:precision-from-event",
        3 * nsp * npe,
        |i| {
            let f = fns[(i % 3) as usize];
            let p = &pev[((i / 3) % npe) as usize];
            let x = &sparse[(i / 3 / npe) as usize];
            json!({"law": "rounding", "fn": f, "x": x, "p": p, "pmode": "event"})
        },
        case,
    );
    law::drive_indexed(&mut rep, "abs", nn, |i| json!({"law": "abs", "x": nums[i as usize]}), case);

    // mod: integer pairs, float pairs, mixed pairs
    let ni = ij.len() as u64;
    law::drive_indexed(&mut rep, "mod:int-int", ni * ni, |i| json!({"law": "mod", "a": ij[(i % ni) as usize], "b": ij[(i / ni) as usize]}), case);
    let stride = if tier.thorough() { 3 } else { 9 };
    let mut fm: Vec<J> = fj.iter().step_by(stride).cloned().collect();
    for x in [0.0, -0.0, 1.0, -1.0, 2.0, 3.0, -3.0, 0.1, 0.3, -0.3, 1.5, 2.5, 7.5, -7.5, 5e-324, f64::MAX, f64::MIN, 1e300, 1e-300, 9_007_199_254_740_992.0, 10.0, 0.7, 360.0] {
        let j = vv::enc(&vv::f(x));
        if !fm.contains(&j) {
            fm.push(j);
        }
    }
    let nf = fm.len() as u64;
    law::drive_indexed(&mut rep, "mod:float-float", nf * nf, |i| json!({"law": "mod", "a": fm[(i % nf) as usize], "b": fm[(i / nf) as usize]}), case);
    let im: Vec<J> = ij.iter().step_by(if tier.thorough() { 2 } else { 5 }).cloned().collect();
    let nim = im.len() as u64;
    law::drive_indexed(
        &mut rep,
        "mod:mixed",
        2 * nim * nf,
        |i| {
            let (a, b) = (&im[((i / 2) % nim) as usize], &fm[(i / 2 / nim) as usize]);
            if i % 2 == 0 { json!({"law": "mod", "a": a, "b": b}) } else { json!({"law": "mod", "a": b, "b": a}) }
        },
        case,
    );

    // conversions
    law::drive_indexed(&mut rep, "conversions:integers", ni, |i| json!({"law": "conv-int", "x": ij[i as usize]}), case);
    let nfl = fj.len() as u64;
    law::drive_indexed(&mut rep, "conversions:floats", nfl, |i| json!({"law": "conv-float", "x": fj[i as usize]}), case);
    let strs = string_alphabet();
    law::drive_indexed(&mut rep, "conversions:number-like-strings", strs.len() as u64, |i| json!({"law": "conv-str", "s": strs[i as usize]}), case);
    // parse_int radix renderings
    let forms_any = ["base", "base-upper", "base-event"];
    let radix_ints: Vec<i64> = ints.iter().copied().filter(|i| tier.thorough() || i.unsigned_abs() <= 40 || i.unsigned_abs() > 1000).collect();
    let nri = radix_ints.len() as u64;
    law::drive_indexed(
        &mut rep,
        "parse_int:every-base",
        nri * 35 * 3,
        |i| {
            let form = forms_any[(i % 3) as usize];
            let base = 2 + (i / 3) % 35;
            let x = radix_ints[(i / 3 / 35) as usize];
            json!({"law": "radix", "x": x, "base": base, "form": form})
        },
        case,
    );
    let prefixed = ["0b", "0o", "0x", "0"];
    let nonneg: Vec<i64> = ints.iter().copied().filter(|i| *i >= 0).collect();
    law::drive_indexed(
        &mut rep,
        "parse_int:prefix-detection",
        nonneg.len() as u64 * 4,
        |i| json!({"law": "radix", "x": nonneg[(i / 4) as usize], "base": 0, "form": prefixed[(i % 4) as usize]}),
        case,
    );

    rep.set("floats", nfl);
    rep.set("integers", ni);
    rep.set("precisions", np);
    rep.set(
        "rule",
        "floats: k/10^d (d ≤ 4, thorough d ≤ 7) around ties and unit steps, 2^k and 1.5·2^k from 2^-1074 to 2^1023, 10^k × {1,1.5,2.5,9.99,…} for k in [-323,308], classic binary-fraction traps, each with both neighbours and both signs; integers: [-70,70] (thorough [-300,300]) ∪ ±(2^k+{-2..2}) ∪ ±(10^k+{-1,0,1}) ∪ i64 extremes; precisions: omitted, 0, ±1…±23, ±100, ±290…±310, ±323…±330 (10^p overflow/underflow), ±400, ±1000, ±2^31, ±2^32, i64 extremes. rounding = {round,ceil,floor} × number × precision in [-324, 309] (every number), × precisions further out and × precision passed through the event (quick: every 8th number); abs × number; mod × ordered pairs (int², float-subset², mixed); conversion laws per integer / float / number-like string; parse_int × base 2..36 × digit case × {literal,event} base, and prefix detection. A case is non-trivial when the function returned a value that was judged against the exact reference",
    );
    rep.assume("exact oracle: doubles are decomposed into mantissa·2^exp and compared with 10^-p using big-integer arithmetic written in this file; no floating-point tolerance is involved");
    rep.assume("precision 0 / default: the result must be exactly the nearest integer with ties away from zero (round, as documented by `round(5.5) = 6`), the smallest integer not below (ceil), the largest integer not above (floor) — this sharpens the 10^-p bound of the property where no rounding error is possible");
    rep.assume("positive precision: the result must lie on the grid of multiples of 10^-p to within 4 ulps of itself (exact test on the binary expansion) — what `rounds to p decimal places` means; it catches an off-by-one precision that the 10^-p bound alone would accept, and is vacuous where one ulp exceeds 10^-p");
    rep.assume("abs(i64::MIN): the property allows wrapping; the panic of `i64::abs` under the harness's overflow-checks profile is counted (abs_min_integer_panics_under_overflow_checks), not reported");
    rep.assume("mod by zero, to_int of floats beyond the i64 range, texts beyond the f64 range, texts accepted by only one function of a pair: counted, not judged (left open by the property)");
    rep.assume("decimal text → float reference = Rust core `str::parse::<f64>` (correctly rounded); integer → float reference = `as f64` (round to nearest even)");
    rep
}
