pub mod ops;
