pub mod c18;
pub mod c19;
pub mod ops;
pub mod pm;
pub mod diff;
