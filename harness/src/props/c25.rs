//! C25 — paired conversion functions are mutually inverse.
//!
//! One witness = one input of one pair (`law`), re-executed through compiled VRL snippets:
//!   flatten      unflatten(flatten(o))                       == o
//!   entries      from_entries(to_entries(o))                 == o   (+ reverse on canonical entry lists)
//!   ipv4         ip_aton/ip_ntoa, ip_pton/ip_ntop, ip_to_ipv6/ipv6_to_ipv4 on one IPv4 address, both directions
//!   ipv6         ip_pton/ip_ntop on one IPv6 address, both directions
//!   int          parse_int(format_int(x, b), b) == x and format_int(parse_int(s, b), b) == s
//!   unix         to_unix_timestamp(from_unix_timestamp(n, u), u) == n
//!   unix-ts      from_unix_timestamp(to_unix_timestamp(t, u), u) == t   (t a whole number of units)
//!   tsfmt        parse_timestamp(format_timestamp(t, f, tz), f, tz) == t
//! The reference side is always the input itself (plus Rust std / integer arithmetic to build the
//! canonical text form of an input or to decide whether an input is in the pair's range).

use crate::law::{self, CaseResult};
use crate::report::{Report, Tier, Violation};
use crate::vrlx::Outcome;
use crate::vv;
use chrono::{DateTime, TimeZone, Utc};
use serde_json::{Value as J, json};
use std::collections::BTreeSet;
use std::net::{Ipv4Addr, Ipv6Addr};
use vrl::value::Value;

fn ev(name: &str, v: Value) -> Value {
    vv::obj(&[(name, v)])
}

/// Push a violation unless `got` is `Ok(want)`.
fn expect(r: &mut CaseResult, clause: &str, w: &J, what: &str, want: &Value, got: &Outcome) -> bool {
    if matches!(got, Outcome::Ok(v) if v == want) {
        return true;
    }
    r.violations.push(Violation::new(clause, w.clone(), format!("{what} == {}", vv::show(want)), got.show()));
    false
}

// ---------------------------------------------------------------------------------------------
// flatten / unflatten

const SEPS: &[Option<&str>] = &[None, Some("."), Some("_"), Some("::")];
const RECS: &[Option<bool>] = &[None, Some(true), Some(false)];

fn has_empty_container(v: &Value) -> bool {
    match v {
        Value::Object(m) => m.is_empty() || m.values().any(has_empty_container),
        Value::Array(a) => a.is_empty() || a.iter().any(has_empty_container),
        _ => false,
    }
}

fn any_key_contains(v: &Value, sep: &str) -> bool {
    match v {
        Value::Object(m) => m.iter().any(|(k, x)| k.contains(sep) || any_key_contains(x, sep)),
        Value::Array(a) => a.iter().any(|x| any_key_contains(x, sep)),
        _ => false,
    }
}

fn depth(v: &Value) -> u64 {
    match v {
        Value::Object(m) => 1 + m.values().map(depth).max().unwrap_or(0),
        _ => 0,
    }
}

fn flatten_case(w: &J) -> CaseResult {
    let obj = vv::dec(&w["obj"]);
    let sep = w["sep"].as_str();
    let rec = w["rec"].as_bool();
    let sep_eff = sep.unwrap_or(".");
    if !matches!(obj, Value::Object(_)) || has_empty_container(&obj) || any_key_contains(&obj, sep_eff) {
        return CaseResult::trivial("outside-domain").count("flatten.outside-domain", 1);
    }
    let mut f = String::from("flatten!(.o");
    let mut u = String::from("unflatten!(.f");
    if let Some(s) = sep {
        f.push_str(&format!(", separator: {}", vv::str_lit(s)));
        u.push_str(&format!(", separator: {}", vv::str_lit(s)));
    }
    if let Some(r) = rec {
        u.push_str(&format!(", recursive: {r}"));
    }
    f.push(')');
    u.push(')');
    let flat = law::call(&f, ev("o", obj.clone()));
    let Outcome::Ok(flat_v) = &flat else {
        return CaseResult::ok("flatten-failed").violation(Violation::new(
            "C25.flatten-unflatten",
            w.clone(),
            format!("{u} of {f} restores the object"),
            format!("flatten: {}", flat.show()),
        ));
    };
    let back = law::call(&u, ev("f", flat_v.clone()));
    let mut r = CaseResult::ok(if *flat_v == obj { "already-flat" } else { "nested" });
    if *flat_v != obj {
        r = r.count("flatten.changed-by-flatten", 1);
    }
    r = r.count(
        match depth(&obj) {
            1 => "flatten.depth1",
            2 => "flatten.depth2",
            _ => "flatten.depth3+",
        },
        1,
    );
    if !matches!(&back, Outcome::Ok(v) if *v == obj) {
        r.class = "not-restored".into();
        r.violations.push(Violation::new(
            "C25.flatten-unflatten",
            w.clone(),
            format!("{u} of {f} restores {}", vv::show(&obj)),
            format!("flattened {} unflattened {}", vv::show(flat_v), back.show()),
        ));
    }
    r
}

/// All objects with 1..=2 entries (unordered distinct keys) over keys x values.
fn level(keys: &[&str], values: &[Value]) -> Vec<Value> {
    let mut out = Vec::new();
    for k in keys {
        for v in values {
            out.push(vv::obj(&[(k, v.clone())]));
        }
    }
    for (i, k1) in keys.iter().enumerate() {
        for k2 in &keys[i + 1..] {
            for v1 in values {
                for v2 in values {
                    out.push(vv::obj(&[(k1, v1.clone()), (k2, v2.clone())]));
                }
            }
        }
    }
    out
}

fn leaves() -> Vec<Value> {
    use vv::{arr, f, i, obj, s};
    vec![
        Value::Null,
        Value::Boolean(true),
        i(1),
        f(1.5),
        s("s"),
        s(""),
        arr(&[i(1), s("x")]),
        arr(&[obj(&[("a", i(1))])]),
        arr(&[obj(&[("a", obj(&[("b", i(1))]))])]),
        arr(&[arr(&[i(1)])]),
        vv::ts("2021-02-03T04:05:06.789Z"),
    ]
}

fn flatten_objects(tier: Tier) -> Vec<Value> {
    use vv::{arr, i, obj, s};
    let l = leaves();
    let mut out = Vec::new();
    // depth 1
    let k6: &[&str] = if tier.thorough() { &["a", "b", "", "a b", "é", "0", "A", "a-b"] } else { &["a", "b", "", "a b", "é", "0"] };
    out.extend(level(k6, &l));
    // depth 2
    let d1s = level(&["a", "b", ""], &[i(1), Value::Null, s("s")]);
    let mut v2 = vec![Value::Null, i(1), s("s"), arr(&[obj(&[("a", i(1))])])];
    v2.extend(d1s.iter().cloned());
    out.extend(level(&["a", "b", "", "é"], &v2));
    // depth 3
    let d1t = level(&["a", "b"], &[i(1), Value::Null]);
    let mut v2t = vec![i(1)];
    v2t.extend(d1t);
    let d2s = level(&["a", "b"], &v2t);
    let mut v3 = vec![i(1), Value::Null];
    v3.extend(d2s.iter().cloned());
    out.extend(level(&["a", "b", ""], &v3));
    // depth 4 chain and wide objects
    out.push(obj(&[("a", obj(&[("b", obj(&[("c", obj(&[("d", i(1))]))]))]))]));
    out.push(obj(&[("", obj(&[("", obj(&[("", obj(&[("", i(1))]))]))]))]));
    out.push(obj(&[("a", i(1)), ("b", obj(&[("a", i(2)), ("b", obj(&[("a", i(3))]))])), ("c", arr(&[i(1)])), ("d", s("x"))]));
    if tier.thorough() {
        // three entries on top
        let vals: Vec<Value> = vec![i(1), Value::Null, obj(&[("a", i(1))]), obj(&[("a", obj(&[("b", i(2))])), ("b", i(3))])];
        for a in &vals {
            for b in &vals {
                for c in &vals {
                    out.push(obj(&[("a", a.clone()), ("ab", b.clone()), ("b", c.clone())]));
                }
            }
        }
        let mut v2b = l.clone();
        v2b.extend(d1s);
        out.extend(level(&["a", "b", "", "é", "a b"], &v2b));
    }
    let mut seen = BTreeSet::new();
    out.retain(|o| seen.insert(vv::show(o)));
    out
}

// ---------------------------------------------------------------------------------------------
// to_entries / from_entries

fn entries_objects(tier: Tier) -> Vec<Value> {
    use vv::{arr, i, obj, s};
    let vals = vec![
        Value::Null,
        Value::Boolean(false),
        Value::Boolean(true),
        i(0),
        s("x"),
        s(""),
        obj(&[]),
        arr(&[]),
        obj(&[("key", s("k")), ("value", s("v"))]),
        arr(&[obj(&[("key", s("k")), ("value", i(1))])]),
    ];
    let mut out = vec![obj(&[])];
    out.extend(level(&["key", "value", "Key", "Value", "name", "Name", "", "a", "é x", "0"], &vals));
    let small = vec![Value::Null, Value::Boolean(false), i(0), obj(&[])];
    for a in &small {
        for b in &small {
            for c in &small {
                out.push(obj(&[("key", a.clone()), ("name", b.clone()), ("value", c.clone())]));
            }
        }
    }
    if tier.thorough() {
        out.extend(flatten_objects(Tier::Quick));
    }
    let mut seen = BTreeSet::new();
    out.retain(|o| seen.insert(vv::show(o)));
    out
}

fn entries_case(w: &J) -> CaseResult {
    let o = vv::dec(&w["obj"]);
    let Value::Object(map) = &o else { return CaseResult::trivial("outside-domain") };
    let mut r = CaseResult::ok(if map.is_empty() { "empty" } else { "non-empty" });
    let fwd = law::call("from_entries!(to_entries!(.o))", ev("o", o.clone()));
    expect(&mut r, "C25.entries-roundtrip", w, "from_entries!(to_entries!(.o))", &o, &fwd);
    // reverse direction on the canonical entry list of the same object
    let list = Value::Array(
        map.iter().map(|(k, v)| vv::obj(&[("key", Value::from(k.as_str())), ("value", v.clone())])).collect(),
    );
    let rev = law::call("to_entries!(from_entries!(.l))", ev("l", list.clone()));
    expect(&mut r, "C25.entries-reverse", w, "to_entries!(from_entries!(.l)) for l = canonical entries of obj", &list, &rev);
    r
}

// ---------------------------------------------------------------------------------------------
// IP pairs

fn ipv4_violations(n: u32, w: &J, r: &mut CaseResult) {
    let s = Ipv4Addr::from(n).to_string();
    let sv = Value::from(s.as_str());
    let nv = Value::Integer(i64::from(n));
    let bv = Value::Bytes(n.to_be_bytes().to_vec().into());
    let mapped = Value::from(format!("::ffff:{s}"));
    expect(r, "C25.ip-ntoa-aton", w, "ip_aton!(ip_ntoa!(.n))", &nv, &law::call("ip_aton!(ip_ntoa!(.n))", ev("n", nv.clone())));
    expect(r, "C25.ip-aton-ntoa", w, "ip_ntoa!(ip_aton!(.s))", &sv, &law::call("ip_ntoa!(ip_aton!(.s))", ev("s", sv.clone())));
    expect(r, "C25.ip-ntop-pton", w, "ip_pton!(ip_ntop!(.b))", &bv, &law::call("ip_pton!(ip_ntop!(.b))", ev("b", bv.clone())));
    expect(r, "C25.ip-pton-ntop", w, "ip_ntop!(ip_pton!(.s))", &sv, &law::call("ip_ntop!(ip_pton!(.s))", ev("s", sv.clone())));
    expect(
        r,
        "C25.ip-v4-to-v6-to-v4",
        w,
        "ipv6_to_ipv4!(ip_to_ipv6!(.s))",
        &sv,
        &law::call("ipv6_to_ipv4!(ip_to_ipv6!(.s))", ev("s", sv.clone())),
    );
    expect(
        r,
        "C25.ip-mapped-v6-to-v4-to-v6",
        w,
        "ip_to_ipv6!(ipv6_to_ipv4!(.m))",
        &mapped,
        &law::call("ip_to_ipv6!(ipv6_to_ipv4!(.m))", ev("m", mapped.clone())),
    );
}

fn ipv4_case(w: &J) -> CaseResult {
    let Some(n) = w["n"].as_u64().and_then(|n| u32::try_from(n).ok()) else { return CaseResult::trivial("bad-witness") };
    let mut r = CaseResult::ok("ipv4").count("ip.sublaws", 6);
    ipv4_violations(n, w, &mut r);
    if !r.violations.is_empty() {
        r.class = "ipv4-not-restored".into();
    }
    r
}

/// thorough: 65536 consecutive addresses per case, mapped inside VRL (`map_values`) to amortise the
/// per-run cost. A mismatch is re-run and reported as a single-address `ipv4` witness.
fn ipv4_block_case(w: &J) -> CaseResult {
    let Some(hi) = w["hi"].as_u64().filter(|h| *h < 65536) else { return CaseResult::trivial("bad-witness") };
    // "all": the four compositions; otherwise only ip_aton(ip_ntoa(n)) (which runs both functions on every address)
    let all = w["all"].as_bool().unwrap_or(false);
    let base = (hi as u32) << 16;
    let ns: Vec<u32> = (0..=0xffffu32).map(|lo| base | lo).collect();
    let ints = Value::Array(ns.iter().map(|n| Value::Integer(i64::from(*n))).collect());
    let mut programs: Vec<(&str, Value)> = vec![("map_values(array!(.a)) -> |v| { ip_aton!(ip_ntoa!(v)) }", ints)];
    if all {
        let strs = Value::Array(ns.iter().map(|n| Value::from(Ipv4Addr::from(*n).to_string())).collect());
        let bytes = Value::Array(ns.iter().map(|n| Value::Bytes(n.to_be_bytes().to_vec().into())).collect());
        programs.push(("map_values(array!(.a)) -> |v| { ip_ntoa!(ip_aton!(v)) }", strs.clone()));
        programs.push(("map_values(array!(.a)) -> |v| { ip_pton!(ip_ntop!(v)) }", bytes));
        programs.push(("map_values(array!(.a)) -> |v| { ip_ntop!(ip_pton!(v)) }", strs));
    }
    let mut r = CaseResult::ok(if all { "ipv4-block-4-compositions" } else { "ipv4-block-aton-ntoa" })
        .count("ip.block-addresses", 65536)
        .count("ip.sublaws", programs.len() as u64 * 65536);
    let mut bad: BTreeSet<u32> = BTreeSet::new();
    let mut block_failed = false;
    for (src, input) in programs {
        match law::call(src, ev("a", input.clone())) {
            Outcome::Ok(Value::Array(out)) if out.len() == ns.len() => {
                if let Value::Array(inp) = &input {
                    for (i, (a, b)) in inp.iter().zip(out.iter()).enumerate() {
                        if a != b {
                            bad.insert(ns[i]);
                        }
                    }
                }
            }
            _ => block_failed = true,
        }
    }
    if block_failed {
        // some element aborted the whole map: find it one by one
        for n in &ns {
            let mut one = CaseResult::default();
            ipv4_violations(*n, &json!({"law": "ipv4", "n": n}), &mut one);
            r.violations.extend(one.violations);
        }
    }
    for n in bad {
        let mut one = CaseResult::default();
        let w1 = json!({"law": "ipv4", "n": n});
        ipv4_violations(n, &w1, &mut one);
        if one.violations.is_empty() {
            r.violations.push(Violation::new(
                "C25.ip-block-mismatch-not-reproduced",
                w.clone(),
                "block result equals single-address result",
                format!("address {n} differs inside the block only"),
            ));
        }
        r.violations.extend(one.violations);
    }
    r
}

fn ipv6_case(w: &J) -> CaseResult {
    let Some(segs) = w["segs"].as_array() else { return CaseResult::trivial("bad-witness") };
    let mut g = [0u16; 8];
    for (i, s) in segs.iter().enumerate().take(8) {
        g[i] = s.as_u64().unwrap_or(0) as u16;
    }
    let addr = Ipv6Addr::new(g[0], g[1], g[2], g[3], g[4], g[5], g[6], g[7]);
    let sv = Value::from(addr.to_string());
    let bv = Value::Bytes(addr.octets().to_vec().into());
    let mut r = CaseResult::ok("ipv6").count("ip.sublaws", 2);
    expect(&mut r, "C25.ip-ntop-pton", w, "ip_pton!(ip_ntop!(.b))", &bv, &law::call("ip_pton!(ip_ntop!(.b))", ev("b", bv.clone())));
    expect(&mut r, "C25.ip-pton-ntop", w, "ip_ntop!(ip_pton!(.s))", &sv, &law::call("ip_ntop!(ip_pton!(.s))", ev("s", sv.clone())));
    if !r.violations.is_empty() {
        r.class = "ipv6-not-restored".into();
    }
    r
}

// ---------------------------------------------------------------------------------------------
// format_int / parse_int

/// Independent radix printer (i128 arithmetic, lower-case digits, '-' sign, no padding).
fn ref_radix(x: i64, base: u32) -> String {
    const DIGITS: &[u8; 36] = b"0123456789abcdefghijklmnopqrstuvwxyz";
    let mut m = i128::from(x).unsigned_abs();
    let mut buf = Vec::new();
    loop {
        buf.push(DIGITS[(m % u128::from(base)) as usize]);
        m /= u128::from(base);
        if m == 0 {
            break;
        }
    }
    if x < 0 {
        buf.push(b'-');
    }
    buf.reverse();
    String::from_utf8(buf).expect("ascii")
}

fn int_set(base: u32, tier: Tier) -> Vec<i64> {
    let mut s: BTreeSet<i64> = BTreeSet::new();
    let r = if tier.thorough() { 50_000 } else { 5_000 };
    for i in -r..=r {
        s.insert(i);
    }
    // digit-count boundaries of this base
    let mut p: i128 = 1;
    loop {
        for d in [-1i128, 0, 1] {
            for sign in [1i128, -1] {
                if let Ok(v) = i64::try_from(sign * (p + d)) {
                    s.insert(v);
                }
            }
        }
        p *= i128::from(base);
        if p > i128::from(i64::MAX) + 1 {
            break;
        }
    }
    for k in 0..64u32 {
        let p = 1i128 << k;
        for d in [-1i128, 0, 1] {
            for sign in [1i128, -1] {
                if let Ok(v) = i64::try_from(sign * (p + d)) {
                    s.insert(v);
                }
            }
        }
    }
    for v in [i64::MIN, i64::MIN + 1, i64::MIN + 2, i64::MAX, i64::MAX - 1, i64::MAX - 2, 3_037_000_500, -3_037_000_500, 1_000_000_007] {
        s.insert(v);
    }
    s.into_iter().collect()
}

fn int_case(w: &J) -> CaseResult {
    let Some(x) = w["x"].as_i64() else { return CaseResult::trivial("bad-witness") };
    let base = w["base"].as_u64().map(|b| b as u32);
    let xv = Value::Integer(x);
    let (fp, pf) = match base {
        Some(b) => (format!("parse_int!(format_int!(.x, {b}), {b})"), format!("format_int!(parse_int!(.s, {b}), {b})")),
        None => ("parse_int!(format_int!(.x))".to_string(), "format_int!(parse_int!(.s))".to_string()),
    };
    let s = Value::from(ref_radix(x, base.unwrap_or(10)));
    let mut r = CaseResult::ok(if x < 0 { "negative" } else { "non-negative" });
    let a = expect(&mut r, "C25.int-format-parse", w, &fp, &xv, &law::call(&fp, ev("x", xv.clone())));
    let b = expect(&mut r, "C25.int-parse-format", w, &pf, &s, &law::call(&pf, ev("s", s.clone())));
    if !(a && b) {
        r.class = "int-not-restored".into();
    }
    r
}

// ---------------------------------------------------------------------------------------------
// unix timestamps

const UNITS: &[(Option<&str>, i128)] = &[
    (None, 1_000_000_000),
    (Some("seconds"), 1_000_000_000),
    (Some("milliseconds"), 1_000_000),
    (Some("microseconds"), 1_000),
    (Some("nanoseconds"), 1),
];

fn unit_ns(unit: Option<&str>) -> Option<i128> {
    UNITS.iter().find(|(u, _)| *u == unit).map(|(_, n)| *n)
}

fn total_ns(t: &DateTime<Utc>) -> i128 {
    i128::from(t.timestamp()) * 1_000_000_000 + i128::from(t.timestamp_subsec_nanos())
}

fn unit_arg(unit: Option<&str>) -> String {
    unit.map(|u| format!(", unit: {}", vv::str_lit(u))).unwrap_or_default()
}

fn mk_ts(secs: i64, nanos: u32) -> Option<DateTime<Utc>> {
    if nanos >= 1_000_000_000 {
        return None;
    }
    Utc.timestamp_opt(secs, nanos).single()
}

fn unix_case(w: &J) -> CaseResult {
    let Some(n) = w["n"].as_i64() else { return CaseResult::trivial("bad-witness") };
    let unit = w["unit"].as_str();
    let Some(per) = unit_ns(unit) else { return CaseResult::trivial("bad-witness") };
    let ns = i128::from(n) * per;
    let in_range = ns >= total_ns(&DateTime::<Utc>::MIN_UTC) && ns <= total_ns(&DateTime::<Utc>::MAX_UTC);
    if !in_range {
        let o = law::call(&format!("from_unix_timestamp!(.n{})", unit_arg(unit)), ev("n", Value::Integer(n)));
        return CaseResult::trivial("out-of-range").count(
            if o.success() { "unix.out-of-range-accepted" } else { "unix.out-of-range-rejected" },
            1,
        );
    }
    let src = format!("to_unix_timestamp!(from_unix_timestamp!(.n{u}){u})", u = unit_arg(unit));
    let mut r = CaseResult::ok("in-range").count("unix.in-range", 1);
    if !expect(&mut r, "C25.unix-from-to", w, &src, &Value::Integer(n), &law::call(&src, ev("n", Value::Integer(n)))) {
        r.class = "unix-not-restored".into();
    }
    r
}

fn unix_ts_case(w: &J) -> CaseResult {
    let (Some(secs), Some(nanos)) = (w["t"][0].as_i64(), w["t"][1].as_u64()) else { return CaseResult::trivial("bad-witness") };
    let Some(t) = mk_ts(secs, nanos as u32) else { return CaseResult::trivial("bad-witness") };
    let unit = w["unit"].as_str();
    let Some(per) = unit_ns(unit) else { return CaseResult::trivial("bad-witness") };
    let ns = total_ns(&t);
    if ns % per != 0 {
        return CaseResult::trivial("not-a-whole-number-of-units").count("unix.lossy-not-judged", 1);
    }
    if i64::try_from(ns / per).is_err() {
        let o = law::call(&format!("to_unix_timestamp!(.t{})", unit_arg(unit)), ev("t", Value::Timestamp(t)));
        return CaseResult::trivial("count-exceeds-i64").count(
            if o.success() { "unix.count-exceeds-i64-accepted" } else { "unix.count-exceeds-i64-rejected" },
            1,
        );
    }
    let src = format!("from_unix_timestamp!(to_unix_timestamp!(.t{u}){u})", u = unit_arg(unit));
    let mut r = CaseResult::ok("exact").count("unix.exact-instants", 1);
    if !expect(&mut r, "C25.unix-to-from", w, &src, &Value::Timestamp(t), &law::call(&src, ev("t", Value::Timestamp(t)))) {
        r.class = "unix-not-restored".into();
    }
    r
}

/// The hand-picked boundary instants, plus (`sweep`) a regular walk over four centuries.
fn secs_alphabet(tier: Tier, sweep: bool) -> Vec<i64> {
    let min = DateTime::<Utc>::MIN_UTC.timestamp();
    let max = DateTime::<Utc>::MAX_UTC.timestamp();
    let mut s: BTreeSet<i64> = [
        min,
        min + 1,
        min + 86_400,
        -62_198_755_200, // -0001-01-01
        -62_167_219_201, // -0001-12-31T23:59:59
        -62_167_219_200, // 0000-01-01
        -62_135_596_801, // 0000-12-31T23:59:59
        -62_135_596_800, // 0001-01-01
        -30_610_224_000, // 1000-01-01
        -30_610_224_001,
        -9_223_372_037,
        -9_223_372_036,
        -2_208_988_800, // 1900-01-01
        -(1 << 31) - 1,
        -(1 << 31),
        -86_401,
        -86_400,
        -3_600,
        -61,
        -60,
        -1,
        0,
        1,
        59,
        60,
        3_599,
        3_600,
        43_199,
        43_200,
        86_399,
        86_400,
        68_255_999,    // 1972-02-29T23:59:59
        951_782_400,   // 2000-02-29
        951_868_799,   // 2000-02-29T23:59:59
        951_868_800,   // 2000-03-01
        1_546_214_400, // 2018-12-31 (ISO week 1 of 2019)
        1_600_000_000,
        1_609_459_199, // 2020-12-31T23:59:59 (leap year day 366, ISO week 53)
        1_609_631_999, // 2021-01-03T23:59:59 (ISO week 53 of 2020)
        1_616_893_199, // Europe/Berlin DST start - 1s
        1_616_893_200,
        1_635_641_999, // Europe/Berlin DST end - 1s
        1_635_642_000,
        1_635_645_599,
        (1 << 31) - 1,
        1 << 31,
        1 << 32,
        4_102_444_799, // 2099-12-31T23:59:59
        9_223_372_036,
        9_223_372_037,
        253_402_300_799, // 9999-12-31T23:59:59
        253_402_300_800, // +10000-01-01
        max - 86_400,
        max - 1,
        max,
    ]
    .into_iter()
    .collect();
    if sweep {
        // noon of every 499th (thorough: 97th) day 1600..2400
        let step = if tier.thorough() { 97 } else { 499 };
        let mut t = -11_676_096_000 + 43_200;
        while t < 13_569_465_600 {
            s.insert(t);
            t += step * 86_400;
        }
    }
    if sweep && tier.thorough() {
        // every hour of 2021
        let mut t = 1_609_459_200;
        while t < 1_640_995_200 {
            s.insert(t);
            t += 3_600;
        }
    }
    s.into_iter().collect()
}

const NANOS: &[u32] = &[0, 1, 999, 1_000, 1_000_000, 100_000_000, 123_456_789, 500_000_000, 999_000_000, 999_999_000, 999_999_999];

fn unix_ints(per: i128) -> Vec<i64> {
    let mut s: BTreeSet<i64> = BTreeSet::new();
    for k in 0..19u32 {
        let p = 10i64.pow(k);
        for d in [-1, 0, 1] {
            s.insert(p + d);
            s.insert(-(p + d));
        }
    }
    for k in [31u32, 32, 53, 62] {
        let p = 1i64 << k;
        for d in [-1, 0, 1] {
            s.insert(p + d);
            s.insert(-(p + d));
        }
    }
    for v in [i64::MIN, i64::MIN + 1, i64::MAX - 1, i64::MAX, 1_600_000_000, 1_600_000_000_123, -1_600_000_000_123_456] {
        s.insert(v);
    }
    for v in -1_100..=1_100 {
        s.insert(v);
        s.insert(v * 1_000);
        s.insert(v * 1_000_000_007);
    }
    // the ends of chrono's representable range, counted in this unit
    let lo = total_ns(&DateTime::<Utc>::MIN_UTC).div_euclid(per);
    let hi = total_ns(&DateTime::<Utc>::MAX_UTC).div_euclid(per);
    for edge in [lo, hi] {
        for d in [-2i128, -1, 0, 1, 2] {
            if let Ok(v) = i64::try_from(edge + d) {
                s.insert(v);
            }
        }
    }
    s.into_iter().collect()
}

// ---------------------------------------------------------------------------------------------
// format_timestamp / parse_timestamp

/// (format, required divisor of the sub-second nanoseconds, carries a UTC offset)
const FORMATS: &[(&str, u32, bool)] = &[
    ("%+", 1, true),
    ("%Y-%m-%dT%H:%M:%S%.f%:z", 1, true),
    ("%Y-%m-%dT%H:%M:%S%.9f%z", 1, true),
    ("%Y-%m-%d %H:%M:%S.%f %z", 1, true),
    ("%FT%T%.6f%:z", 1_000, true),
    ("%FT%T%.3f%z", 1_000_000, true),
    ("%a, %d %b %Y %H:%M:%S%.f %z", 1, true),
    ("%A %e %B %Y %T%.f %:z", 1, true),
    ("%Y-%j %H:%M:%S%.f %:z", 1, true),
    ("%G-W%V-%u %T%.f %z", 1, true),
    ("%d/%m/%Y %I:%M:%S%.f %p %z", 1, true),
    ("%Y-%m-%d %H:%M:%S%.f", 1, false),
    ("%s%.9f", 1, false),
    ("%s", 1_000_000_000, false),
];

const ZONES_ZONED: &[Option<&str>] = &[None, Some("UTC"), Some("Asia/Kolkata"), Some("Europe/Berlin"), Some("America/St_Johns")];
const ZONES_NAIVE: &[Option<&str>] = &[None, Some("UTC"), Some("Asia/Kolkata")];

fn tsfmt_case(w: &J) -> CaseResult {
    let (Some(secs), Some(nanos)) = (w["t"][0].as_i64(), w["t"][1].as_u64()) else { return CaseResult::trivial("bad-witness") };
    let Some(t) = mk_ts(secs, nanos as u32) else { return CaseResult::trivial("bad-witness") };
    let Some(fmt) = w["fmt"].as_str() else { return CaseResult::trivial("bad-witness") };
    let tz = w["tz"].as_str();
    let tzarg = tz.map(|z| format!(", timezone: {}", vv::str_lit(z))).unwrap_or_default();
    let f = format!("format_timestamp!(.t, format: {}{tzarg})", vv::str_lit(fmt));
    let p = format!("parse_timestamp!(.s, format: {}{tzarg})", vv::str_lit(fmt));
    let text = law::call(&f, ev("t", Value::Timestamp(t)));
    let Outcome::Ok(text_v) = &text else {
        return CaseResult::ok("format-failed").violation(Violation::new(
            "C25.timestamp-format-parse",
            w.clone(),
            format!("{p} of {f} restores the timestamp"),
            format!("format_timestamp: {}", text.show()),
        ));
    };
    let back = law::call(&p, ev("s", text_v.clone()));
    // formats that print the instant as a count of seconds since the epoch get their own clause
    let clause = if fmt.contains("%s") { "C25.timestamp-format-parse-epoch" } else { "C25.timestamp-format-parse" };
    let mut r = CaseResult::ok("restored");
    if !matches!(&back, Outcome::Ok(Value::Timestamp(b)) if *b == t) {
        r.class = "timestamp-not-restored".into();
        r.violations.push(Violation::new(
            clause,
            w.clone(),
            format!("{p} of {f} restores {}", t.to_rfc3339_opts(chrono::SecondsFormat::Nanos, true)),
            format!("formatted {} parsed as {}", vv::show(text_v), back.show()),
        ));
    }
    r
}

// ---------------------------------------------------------------------------------------------

fn case(w: &J) -> CaseResult {
    match w["law"].as_str() {
        Some("flatten") => flatten_case(w),
        Some("entries") => entries_case(w),
        Some("ipv4") => ipv4_case(w),
        Some("ipv4-block") => ipv4_block_case(w),
        Some("ipv6") => ipv6_case(w),
        Some("int") => int_case(w),
        Some("unix") => unix_case(w),
        Some("unix-ts") => unix_ts_case(w),
        Some("tsfmt") => tsfmt_case(w),
        _ => CaseResult::trivial("bad-witness"),
    }
}

pub fn run(tier: Tier) -> Report {
    let mut rep = Report::new("C25", tier, "exploration");
    rep.set(
        "rule",
        "flatten: objects of depth 1..3 (1-2 entries per level, keys [a b '' 'a b' é 0], 11 leaf kinds incl. arrays holding \
         objects) + depth-4 chains x separator {default . _ ::} x recursive {default true false}; keys never share a character \
         with the separator, no empty containers. entries: objects over keys [key value Key Value name Name '' a 'é x' 0] x 10 \
         value kinds (incl. null/false/empty containers), both directions. ipv4: octets^4 over [0 1 9 10 11 99 100 101 127 128 199 200 \
         249 250 254 255] and 8 complete /16 blocks (thorough: additionally all 2^32 addresses through ip_aton(ip_ntoa(n)) and 2^28 of them through the 4 text/byte compositions, in blocks of 65536) x 6 compositions; ipv6: segments^8 over \
         [0 1 ff ffff] + 16 named addresses. int: per base 2..36 and the default base: -5000..5000 (thorough +-50000), \
         base^k-1/base^k/base^k+1 and 2^k-1/2^k/2^k+1 of both signs, i64 extremes; both directions. unix: integer counts x \
         {default,s,ms,us,ns} and instants (55 boundary second values + noon of every 499th/97th day 1600..2400, x 11 nanosecond values) x units. tsfmt: the same instants x 14 \
         full-precision formats x timezone argument. Non-trivial = the composed snippet was executed on an input inside the \
         pair's domain; distinct = distinct witness.",
    );
    rep.assume("canonical text of an IP address / integer = Rust std Display / an i128 radix printer in the harness");
    rep.assume("representable timestamp range = chrono DateTime::<Utc>::MIN_UTC ..= MAX_UTC; runtime timezone UTC");
    rep.assume(
        "tsfmt: named time zones only for instants in 1970..2100 (whole-minute offsets); formats without offset only with \
         zones without DST; formats with reduced sub-second precision only on instants they can represent",
    );

    // flatten / unflatten
    let objs: Vec<J> = flatten_objects(tier).iter().map(vv::enc).collect();
    rep.set("flatten_objects", objs.len() as u64);
    let nv = (SEPS.len() * RECS.len()) as u64;
    law::drive_indexed(
        &mut rep,
        "flatten",
        objs.len() as u64 * nv,
        |i| {
            let v = (i % nv) as usize;
            json!({"law": "flatten", "obj": objs[(i / nv) as usize], "sep": SEPS[v % SEPS.len()], "rec": RECS[v / SEPS.len()]})
        },
        case,
    );
    drop(objs);

    // entries
    let ent: Vec<J> = entries_objects(tier).iter().map(|o| json!({"law": "entries", "obj": vv::enc(o)})).collect();
    law::drive(&mut rep, "entries", &ent, case);

    // ipv4
    const OCT: [u32; 16] = [0, 1, 9, 10, 11, 99, 100, 101, 127, 128, 199, 200, 249, 250, 254, 255];
    law::drive_indexed(
        &mut rep,
        "ipv4",
        16u64.pow(4),
        |i| {
            let d = crate::util::unrank(i, &[16, 16, 16, 16]);
            let n = (OCT[d[3]] << 24) | (OCT[d[2]] << 16) | (OCT[d[1]] << 8) | OCT[d[0]];
            json!({"law": "ipv4", "n": n})
        },
        case,
    );
    // ipv6
    const SEG: [u16; 4] = [0, 1, 0xff, 0xffff];
    law::drive_indexed(
        &mut rep,
        "ipv6",
        4u64.pow(8),
        |i| {
            let d = crate::util::unrank(i, &[4; 8]);
            let segs: Vec<u16> = d.iter().rev().map(|x| SEG[*x]).collect();
            json!({"law": "ipv6", "segs": segs})
        },
        case,
    );
    let named: Vec<J> = [
        "2001:db8::1",
        "fe80::1ff:fe23:4567:890a",
        "::ffff:192.0.2.128",
        "::192.0.2.128",
        "64:ff9b::c000:280",
        "2001:db8:0:0:1:0:0:1",
        "2001:0:0:1::1",
        "1:0:0:2:0:0:0:3",
        "1:2:3:4:5:6:7:8",
        "ff02::1:ff00:0",
        "::ffff:0:1",
        "::1:0:0:0",
        "abcd:ef01:2345:6789:abcd:ef01:2345:6789",
        "0:1::",
        "::ffff:255.255.255.255",
        "::fffe:1.2.3.4",
    ]
    .iter()
    .map(|s| {
        let a: Ipv6Addr = s.parse().expect("named ipv6");
        json!({"law": "ipv6", "segs": a.segments()})
    })
    .collect();
    law::drive(&mut rep, "ipv6-named", &named, case);
    // eight complete /16 blocks (all four text/byte compositions on 65536 consecutive addresses each)
    let blocks: Vec<J> = [0u32, 0x0a00, 0x7f00, 0x7fff, 0x8000, 0xc0a8, 0xe000, 0xffff]
        .iter()
        .map(|hi| json!({"law": "ipv4-block", "hi": hi, "all": true}))
        .collect();
    law::drive(&mut rep, "ipv4-blocks", &blocks, case);
    if tier.thorough() {
        // every 2^32 address through ip_aton(ip_ntoa(n)); every 16th /16 block through all four compositions
        let t0 = std::time::Instant::now();
        law::drive_indexed(
            &mut rep,
            "ipv4-all",
            65536,
            |i| if i % 16 == 0 { json!({"law": "ipv4-block", "hi": i, "all": true}) } else { json!({"law": "ipv4-block", "hi": i}) },
            case,
        );
        rep.set("ipv4_all_2^32_addresses_through_aton_ntoa", true);
        rep.notes.push(format!("ipv4-all group took {:.0} s", t0.elapsed().as_secs_f64()));
    }

    // format_int / parse_int
    let mut ints: Vec<J> = Vec::new();
    for base in 2..=36u32 {
        for x in int_set(base, tier) {
            ints.push(json!({"law": "int", "x": x, "base": base}));
        }
    }
    for x in int_set(10, tier) {
        ints.push(json!({"law": "int", "x": x, "base": J::Null}));
    }
    law::drive(&mut rep, "int", &ints, case);
    drop(ints);

    // unix timestamps
    let mut unix: Vec<J> = Vec::new();
    for (unit, per) in UNITS {
        for n in unix_ints(*per) {
            unix.push(json!({"law": "unix", "n": n, "unit": unit}));
        }
    }
    let secs = secs_alphabet(tier, true);
    for (unit, _) in UNITS {
        for s in &secs {
            for n in NANOS {
                if mk_ts(*s, *n).is_some() {
                    unix.push(json!({"law": "unix-ts", "t": [s, n], "unit": unit}));
                }
            }
        }
    }
    law::drive(&mut rep, "unix", &unix, case);

    // format_timestamp / parse_timestamp
    let mut tsf: Vec<J> = Vec::new();
    let secs_core = secs_alphabet(tier, false);
    for (fmt, div, zoned) in FORMATS {
        // epoch-count formats do not depend on the calendar: the day/hour sweep adds nothing there
        for s in if fmt.contains("%s") { &secs_core } else { &secs } {
            for n in NANOS {
                if n % div != 0 || mk_ts(*s, *n).is_none() {
                    continue;
                }
                for tz in if *zoned { ZONES_ZONED } else { ZONES_NAIVE } {
                    let named = tz.is_some_and(|z| z != "UTC");
                    if named && !(0..4_102_444_800).contains(s) {
                        continue;
                    }
                    tsf.push(json!({"law": "tsfmt", "t": [s, n], "fmt": fmt, "tz": tz}));
                }
            }
        }
    }
    law::drive(&mut rep, "tsfmt", &tsf, case);
    rep
}

pub fn replay(_property: &str, w: &J) -> Vec<Violation> {
    case(w).violations
}
