//! C20 — paths round-trip through text, and a path written in VRL source denotes the location
//! that the path-string parser assigns to the same text.
//!
//! Two case families (both re-executed from the witness alone):
//!
//! * `render-parse`: an owned path given by its segments (+ prefix `event` / `metadata`, or
//!   `value` for a prefix-less value path). Rendered through every public renderer
//!   (`String::from`, `Display`, serde) and parsed back through every public string parser
//!   (`parse_value_path` / `parse_target_path`, `FromStr`, `TryFrom<String>`, serde). The rendered
//!   target-path text is also read as VRL source: when the VRL grammar takes it as one query on
//!   the external target, that query must be the original path.
//! * `text`: an arbitrary short text. Both readers are run on it: the path-string parser
//!   (`parse_target_path`) and the VRL lexer+grammar (`vrl::parser::parse`, accepted when the
//!   program is exactly one root expression that is a query on `.`/`%`). Judged only when BOTH
//!   accept: same prefix and same segments; then the compiled program must report that path in
//!   `ProgramInfo::target_queries` / `target_assignments`, reading it must return what
//!   `target_get` of the string-parsed path returns, and assigning through it must change the
//!   target exactly like `target_insert` of the string-parsed path. Texts only one side accepts
//!   are counted per class, never judged. Every accepted string-parser result is additionally
//!   re-rendered and re-parsed (round trip of the parsed path).

use crate::law::{self, CaseResult};
use crate::report::{Report, Tier, Violation};
use crate::util::guarded;
use crate::vrlx;
use crate::vv;
use serde_json::{Value as J, json};
use vrl::compiler::state::ExternalEnv;
use vrl::compiler::{Target, TargetValue};
use vrl::parser::ast::{Expr, QueryTarget, RootExpr};
use vrl::path::{
    OwnedSegment, OwnedTargetPath, OwnedValuePath, PathPrefix, parse_target_path, parse_value_path,
};
use vrl::value::{Secrets, Value};

/// `VERIF_C20_DEBUG=1` prints every text only one reader accepts and every compiler rejection to
/// stderr (triage aid; never influences a verdict).
static DEBUG: std::sync::LazyLock<bool> = std::sync::LazyLock::new(|| std::env::var_os("VERIF_C20_DEBUG").is_some());

// ------------------------------------------------------------------------------------ alphabets

/// Field strings: one per branch of `serialize_field` (quote / no quote, the two escaped
/// characters alone, doubled and adjacent to each other) and per character class of the JIT
/// state machine (identifier characters, `-`, digits first, structural characters that must be
/// protected by the quotes) and of the VRL string lexer (`{{`, newline, `\n` spelled out).
fn field_alphabet(tier: Tier) -> Vec<&'static str> {
    let mut v = vec![
        "a", "", "a b", "a.b", "a\"b", "a\\b", "\\", "\"", "\\\"", "\\\\", "é", "🤖", "0", "0a", "-", "a-b", "@t",
        "_", "[0]", "%", ".", "\n", "{", "A9", "if",
    ];
    if tier.thorough() {
        v.extend(["\"\"", "a\\", "\\n", "}", "'", "\t", " ", "a]", "#", "null", "\u{0}"]);
    }
    v
}

/// Field strings that the VRL string lexer treats as template syntax (`{{`, `}}`, `\}}`). They are
/// enumerated in paths of ≤ 2 segments only (group `owned-paths-braces`): every path through
/// them is a witness of one and the same defect of the unchanged tree (quoted path segments go
/// through the template-string machinery), and longer paths add nothing but volume.
fn brace_fields() -> Vec<&'static str> {
    vec!["{{", "{{x}}", "}}", "\\}}", "{{ x }}"]
}

fn index_alphabet(tier: Tier) -> Vec<i64> {
    let mut v = vec![0, 1, -1, 10, -10, 42, i64::MAX, i64::MIN];
    if tier.thorough() {
        v.extend([9, 99, 100, -9, i64::MAX - 1, i64::MIN + 1, 1 << 32]);
    }
    v
}

/// Character alphabet of the structural text family: one character of every class the two
/// readers branch on (identifier start / digit / `_` / `@` / `-`, dot, brackets, quote,
/// backslash, blank, the metadata prefix, a multi-byte character).
const SIGMA_STRUCT: &[&str] = &["a", "0", "1", ".", "[", "]", "-", "\"", "\\", " ", "%", "@", "é", "_"];
/// Core of the structural alphabet, enumerated one character longer.
const SIGMA_CORE: &[&str] = &["a", "0", ".", "[", "]", "-", "\"", "\\", "%"];
/// Characters placed between quotes (escapes of both readers, multi-byte, structure characters).
const SIGMA_QUOTED: &[&str] = &["\\", "\"", "a", "n", "0", " ", "é", ".", "["];
/// Template braces between quotes (kept apart and shorter: see `brace_fields`).
const SIGMA_BRACES: &[&str] = &["{", "}", "\\", "\"", "a", " "];
/// Characters placed between brackets.
const SIGMA_INDEX: &[&str] = &["0", "1", "9", "-", "_", "+", " ", "a", "."];

/// Hand-picked texts at branch points the character families cannot reach within their length
/// bound: keywords and reserved identifiers as fields, literal-introducing identifiers
/// (`r'`, `s'`, `t'`), integer extremes and overflowing digit strings, long chains.
fn corpus() -> Vec<String> {
    let mut v: Vec<String> = [
        ".", "%", "", ".if", ".else", ".null", ".true", ".false", ".abort", ".return", ".for", ".string", ".loop",
        ".a.if.b", ".a.null[0]", "%if", ".foo_bar9", ".@timestamp", ".a@b", ".A.B", ".s", ".r", ".t", ".a.s", ".r.t",
        ".s'a'", ".r'a'", ".t'a'", ".a.s'a'", ".foo.bar.baz", ".foo[0].bar[1].baz", ".foo.\"bar baz\"[-1]",
        "%foo.\"bar baz\"[-1]", ".a.\"b c\"[-1]", "%x", ".a[9223372036854775807]", ".a[-9223372036854775808]",
        ".a[9223372036854775808]", ".a[-9223372036854775809]", ".a[18446744073709551615]",
        ".a[18446744073709551616]", ".a[99999999999999999999]", ".a[00000000000000000000001]",
        ".a[-00000000000000000000001]", ".a[1_0]", ".a[0x1]", ".a[1.0]", ".a[1e1]", "a", "a.b", "a[0]", "[0]", "[0].a",
        "\"a\"", ".a\n", "\n.a", ".a\n.b", ".a # c", ".a;", ".a,.b", "(.a)", ".(a|b)", ".a.(b|c)", ".a?", ".a!",
        ".a.b!", ".a{}", "{}.a", "[1][0]", "x.a", "x", ".\"a\\nb\"", ".\"a\\tb\"", ".\"a\\'b\"", ".\"\\0\"",
        ".\"\\u{e9}\"", ".\"\\u{1F916}\"", ".\"a\\\nb\"", ".\"a\nb\"", ".\"{{ a }}\"", ".\"\\{{ a \\}}\"", ".\"{{\"",
        ".\"}}\"", ".\"{{}}\"", ".\"a{{b}}c\"", ".\"\\{\"", ".\"\\}\"", ".🤖", ".\"🤖\"", ".a.\"🤖\"[0]", ".a\u{a0}",
        ".ａ", ".a\t", "\t.a", ". a", ".a .b", ".a. b", ".a [0]", ".a[ 0 ]", ".a[0] ", ".a[0 ]", ".a[- 1]",
    ]
    .iter()
    .map(|s| (*s).to_string())
    .collect();
    // deep chains
    v.push(format!(".{}", vec!["a"; 40].join(".")));
    v.push(format!(".a{}", "[0]".repeat(40)));
    v.push(format!(".\"{}\"", "x".repeat(300)));
    v
}

// -------------------------------------------------------------------------------- path ⇄ JSON

fn segs_json(p: &OwnedValuePath) -> J {
    J::Array(
        p.segments
            .iter()
            .map(|s| match s {
                OwnedSegment::Field(f) => json!(f.as_str()),
                OwnedSegment::Index(i) => json!(*i as i64),
            })
            .collect(),
    )
}

fn segs_from_json(j: &J) -> OwnedValuePath {
    OwnedValuePath {
        segments: j
            .as_array()
            .map(|a| {
                a.iter()
                    .map(|s| match s.as_i64() {
                        Some(i) => OwnedSegment::Index(i as isize),
                        None => OwnedSegment::Field(s.as_str().unwrap_or("").into()),
                    })
                    .collect()
            })
            .unwrap_or_default(),
    }
}

fn show_tp(p: &OwnedTargetPath) -> String {
    format!("{}{}", if p.prefix == PathPrefix::Event { "event" } else { "metadata" }, segs_json(&p.path))
}

fn show_res<T>(r: &Result<T, String>, f: impl Fn(&T) -> String) -> String {
    match r {
        Ok(p) => f(p),
        Err(e) => format!("rejected ({e})"),
    }
}

// ------------------------------------------------------------------------------- the readers

/// Path-string parser, with a panic (e.g. the index accumulator overflowing under
/// overflow-checks) reported as `Err("panic…")`.
fn string_target(text: &str) -> Result<OwnedTargetPath, String> {
    match guarded(|| parse_target_path(text)) {
        Ok(Ok(p)) => Ok(p),
        Ok(Err(_)) => Err("invalid".into()),
        Err(p) => Err(format!("panic: {p}")),
    }
}

fn string_value(text: &str) -> Result<OwnedValuePath, String> {
    match guarded(|| parse_value_path(text)) {
        Ok(Ok(p)) => Ok(p),
        Ok(Err(_)) => Err("invalid".into()),
        Err(p) => Err(format!("panic: {p}")),
    }
}

/// The VRL reader: `Ok` when the text is a program of exactly one root expression that is a
/// query on the external target.
fn vrl_read(text: &str) -> Result<OwnedTargetPath, &'static str> {
    let prog = match guarded(|| vrl::parser::parse(text)) {
        Err(_) => return Err("vrl-parser-panic"),
        Ok(Err(_)) => return Err("syntax-error"),
        Ok(Ok(p)) => p,
    };
    if prog.0.len() != 1 {
        return Err("not-one-expression");
    }
    match prog.0[0].inner() {
        RootExpr::Error(_) => Err("error-expression"),
        RootExpr::Expr(e) => match e.inner() {
            Expr::Query(q) => {
                let q = q.inner();
                match q.target.inner() {
                    QueryTarget::External(prefix) => {
                        Ok(OwnedTargetPath { prefix: *prefix, path: q.path.inner().clone() })
                    }
                    _ => Err("query-on-non-external-target"),
                }
            }
            _ => Err("other-expression"),
        },
    }
}

fn small_indices(p: &OwnedValuePath) -> bool {
    p.segments.iter().all(|s| match s {
        OwnedSegment::Index(i) => i.unsigned_abs() <= 16,
        OwnedSegment::Field(_) => true,
    })
}

fn fresh() -> TargetValue {
    TargetValue { value: vrlx::empty_object(), metadata: vrlx::empty_object(), secrets: Secrets::default() }
}

/// Both readers accepted `text` and agree on `sp`: the compiled program must carry that path and
/// the runtime must read / write the very location `sp` denotes for the `Target` API.
fn compiled_and_runtime(text: &str, sp: &OwnedTargetPath, w: &J, out: &mut CaseResult) {
    // --- read direction
    match law::compile_uncached(text, &ExternalEnv::default()) {
        Err(e) => {
            if *DEBUG {
                eprintln!("DEBUG query rejected: {text:?}: {e}");
            }
            // (a compiler panic — e.g. the type checker negating isize::MIN under overflow-checks —
            // is outside this property: counted apart, not judged)
            out.counters.push((if e.starts_with("panic") { "query_program_compiler_panics" } else { "query_program_rejected_by_compiler" }, 1));
        }
        Ok(prog) => {
            out.counters.push(("compiled_queries_checked", 1));
            let tq = &prog.info().target_queries;
            if !(tq.len() == 1 && &tq[0] == sp) {
                out.violations.push(Violation::new(
                    "C20.compiled-query-path",
                    w.clone(),
                    format!("ProgramInfo::target_queries == [{}]", show_tp(sp)),
                    format!("[{}]", tq.iter().map(show_tp).collect::<Vec<_>>().join(", ")),
                ));
            }
            if small_indices(&sp.path) {
                let r = guarded(|| {
                    let mut t = fresh();
                    t.target_insert(sp, vv::s("SENTINEL")).expect("TargetValue insert is infallible");
                    let expected = t.target_get(sp).expect("get").cloned().unwrap_or(Value::Null);
                    let got = vrlx::run_runtime(&prog, &mut t, &vrlx::utc());
                    (expected, got)
                });
                match r {
                    Ok((expected, got)) => {
                        out.counters.push(("runtime_reads_checked", 1));
                        if got.value() != Some(&expected) {
                            out.violations.push(Violation::new(
                                "C20.runtime-read-location",
                                w.clone(),
                                format!("ok {} (target_get of the string-parsed path)", vv::show(&expected)),
                                got.show(),
                            ));
                        }
                    }
                    Err(p) => out.violations.push(Violation::new("C20.runtime-read-location", w.clone(), "no panic", p)),
                }
            }
        }
    }
    // --- write direction (roots excluded: the event root only accepts objects)
    if sp.path.is_root() || !small_indices(&sp.path) {
        return;
    }
    let src = format!("{text} = 7");
    match law::compile_uncached(&src, &ExternalEnv::default()) {
        Err(e) => {
            if *DEBUG {
                eprintln!("DEBUG assignment rejected: {src:?}: {e}");
            }
            out.counters.push((if e.starts_with("panic") { "assignment_program_compiler_panics" } else { "assignment_program_rejected_by_compiler" }, 1));
        }
        Ok(prog) => {
            let ta = &prog.info().target_assignments;
            if !ta.contains(sp) {
                out.violations.push(Violation::new(
                    "C20.compiled-assignment-path",
                    w.clone(),
                    format!("ProgramInfo::target_assignments contains {}", show_tp(sp)),
                    format!("[{}]", ta.iter().map(show_tp).collect::<Vec<_>>().join(", ")),
                ));
            }
            let r = guarded(|| {
                let mut want = fresh();
                want.target_insert(sp, Value::Integer(7)).expect("TargetValue insert is infallible");
                let mut t = fresh();
                let o = vrlx::run_runtime(&prog, &mut t, &vrlx::utc());
                (want, t, o)
            });
            match r {
                Ok((want, t, o)) => {
                    out.counters.push(("runtime_writes_checked", 1));
                    if !o.success() || t.value != want.value || t.metadata != want.metadata {
                        out.violations.push(Violation::new(
                            "C20.runtime-write-location",
                            w.clone(),
                            format!("event {} metadata {}", vv::show(&want.value), vv::show(&want.metadata)),
                            format!("{} event {} metadata {}", o.class(), vv::show(&t.value), vv::show(&t.metadata)),
                        ));
                    }
                }
                Err(p) => out.violations.push(Violation::new("C20.runtime-write-location", w.clone(), "no panic", p)),
            }
        }
    }
}

/// parse(render(p)) == p through every public renderer / parser pair of target paths.
fn target_roundtrip(tp: &OwnedTargetPath, w: &J, clause: &str, out: &mut CaseResult) -> String {
    let text = String::from(tp);
    let shown = tp.to_string();
    if shown != text {
        out.violations.push(Violation::new("C20.renderers-agree", w.clone(), format!("Display == String::from == {text:?}"), format!("{shown:?}")));
    }
    let want = show_tp(tp);
    let mut check = |how: &str, got: Result<OwnedTargetPath, String>| {
        if got.as_ref().ok() != Some(tp) {
            out.violations.push(Violation::new(
                clause,
                w.clone(),
                format!("{how}({text:?}) == {want}"),
                show_res(&got, show_tp),
            ));
        }
    };
    check("parse_target_path", string_target(&text));
    check("FromStr", guarded(|| text.parse::<OwnedTargetPath>()).map_err(|p| format!("panic: {p}")).and_then(|r| r.map_err(|_| "invalid".to_string())));
    check(
        "TryFrom<String>",
        guarded(|| OwnedTargetPath::try_from(text.clone())).map_err(|p| format!("panic: {p}")).and_then(|r| r.map_err(|_| "invalid".to_string())),
    );
    let ser = serde_json::to_string(tp).unwrap_or_default();
    if ser != J::String(text.clone()).to_string() {
        check("serde::Serialize gives the same text; parse_target_path", Err(format!("serialised as {ser}")));
    }
    check("serde round trip", serde_json::from_str::<OwnedTargetPath>(&ser).map_err(|e| e.to_string()));
    text
}

fn value_roundtrip(p: &OwnedValuePath, w: &J, clause: &str, out: &mut CaseResult) -> String {
    let text = String::from(p);
    let shown = p.to_string();
    if shown != text {
        out.violations.push(Violation::new("C20.renderers-agree", w.clone(), format!("Display == String::from == {text:?}"), format!("{shown:?}")));
    }
    let want = segs_json(p).to_string();
    let mut check = |how: &str, got: Result<OwnedValuePath, String>| {
        if got.as_ref().ok() != Some(p) {
            out.violations.push(Violation::new(
                clause,
                w.clone(),
                format!("{how}({text:?}) == {want}"),
                show_res(&got, |p| segs_json(p).to_string()),
            ));
        }
    };
    check("parse_value_path", string_value(&text));
    check("FromStr", guarded(|| text.parse::<OwnedValuePath>()).map_err(|p| format!("panic: {p}")).and_then(|r| r.map_err(|_| "invalid".to_string())));
    check(
        "TryFrom<String>",
        guarded(|| OwnedValuePath::try_from(text.clone())).map_err(|p| format!("panic: {p}")).and_then(|r| r.map_err(|_| "invalid".to_string())),
    );
    let ser = serde_json::to_string(p).unwrap_or_default();
    check("serde round trip", serde_json::from_str::<OwnedValuePath>(&ser).map_err(|e| e.to_string()));
    text
}

// ----------------------------------------------------------------------------------- the cases

fn case(w: &J) -> CaseResult {
    match w["law"].as_str() {
        Some("render-parse") => case_render(w),
        Some("text") => case_text(w),
        _ => CaseResult::trivial("unknown-law"),
    }
}

fn case_render(w: &J) -> CaseResult {
    let path = segs_from_json(&w["segs"]);
    let mut out = CaseResult::ok("");
    let n = path.segments.len().min(4);
    match w["prefix"].as_str() {
        Some("value") => {
            if path.is_root() {
                // documented: a value path needs at least one segment; "" is not parseable.
                return CaseResult::trivial("value:root-excluded");
            }
            value_roundtrip(&path, w, "C20.value-render-parse", &mut out);
            out.class = format!("value:len{n}");
        }
        p => {
            let prefix = if p == Some("metadata") { PathPrefix::Metadata } else { PathPrefix::Event };
            let tp = OwnedTargetPath { prefix, path };
            let text = target_roundtrip(&tp, w, "C20.target-render-parse", &mut out);
            // the rendered text read as VRL source
            match vrl_read(&text) {
                Ok(vp) => {
                    out.counters.push(("rendered_read_as_vrl_query", 1));
                    if vp == tp {
                        out.class = format!("target:len{n}:vrl-agrees");
                        // only when the string parser agrees as well (else already reported)
                        if string_target(&text).as_ref() == Ok(&tp) {
                            compiled_and_runtime(&text, &tp, w, &mut out);
                        }
                    } else {
                        out.class = format!("target:len{n}:vrl-DIFFERS");
                        out.violations.push(Violation::new(
                            "C20.vrl-query-path-differs",
                            w.clone(),
                            format!("VRL source {text:?} denotes {}", show_tp(&tp)),
                            show_tp(&vp),
                        ));
                    }
                }
                Err(why) => {
                    out.counters.push(("rendered_not_a_vrl_query", 1));
                    out.class = format!("target:len{n}:vrl-{why}");
                }
            }
        }
    }
    out
}

fn case_text(w: &J) -> CaseResult {
    let text = w["text"].as_str().unwrap_or("");
    let mut out = CaseResult::ok("");
    let st = string_target(text);
    let sv = string_value(text);
    if matches!(&st, Err(e) if e.starts_with("panic")) || matches!(&sv, Err(e) if e.starts_with("panic")) {
        // not judged: no clause of the property speaks about texts the parser cannot represent
        out.counters.push(("string_parser_panics", 1));
    }
    // the two string parsers agree on what a text denotes whenever both accept it (`%x` as a
    // target path against `x` as a value path); acceptance differences are only counted
    {
        let via_value: Result<OwnedTargetPath, String> = if let Some(rest) = text.strip_prefix('%') {
            string_value(rest).map(|p| OwnedTargetPath { prefix: PathPrefix::Metadata, path: p })
        } else {
            sv.clone().map(|p| OwnedTargetPath { prefix: PathPrefix::Event, path: p })
        };
        match (&via_value, &st) {
            (Ok(a), Ok(b)) if a != b => out.violations.push(Violation::new(
                "C20.value-vs-target-parser",
                w.clone(),
                format!("parse_target_path gives prefix + parse_value_path: {}", show_tp(a)),
                show_tp(b),
            )),
            (Ok(_), Err(_)) | (Err(_), Ok(_)) => out.counters.push(("value_and_target_parser_accept_differently", 1)),
            _ => {}
        }
    }
    // whatever the string parser produced is an owned path: it must survive render → parse
    if let Ok(tp) = &st {
        target_roundtrip(tp, w, "C20.reparse-of-parsed-target-path", &mut out);
    }
    if let Ok(p) = &sv {
        if !p.is_root() {
            value_roundtrip(p, w, "C20.reparse-of-parsed-value-path", &mut out);
        }
    }
    let vr = vrl_read(text);
    if vr == Err("vrl-parser-panic") {
        out.counters.push(("vrl_parser_panics", 1));
    }
    match (&st, &vr) {
        (Ok(sp), Ok(vp)) => {
            out.counters.push(("texts_both_accept", 1));
            let n = sp.path.segments.len().min(4);
            if sp == vp {
                out.class = format!("both-agree:len{n}");
                compiled_and_runtime(text, sp, w, &mut out);
            } else {
                out.class = format!("both-DIFFER:len{n}");
                out.violations.push(Violation::new(
                    "C20.vrl-query-path-differs",
                    w.clone(),
                    format!("VRL query path == string-parsed path {}", show_tp(sp)),
                    show_tp(vp),
                ));
            }
        }
        (Ok(_), Err(why)) => {
            if *DEBUG {
                eprintln!("DEBUG string-only ({why}): {text:?}");
            }
            out.counters.push(("texts_string_parser_only", 1));
            out.class = format!("string-only:vrl-{why}");
        }
        (Err(_), Ok(_)) => {
            if *DEBUG {
                eprintln!("DEBUG vrl-only: {text:?}");
            }
            out.counters.push(("texts_vrl_only", 1));
            out.class = "vrl-only".into();
        }
        (Err(_), Err(why)) => {
            out.counters.push(("texts_neither", 1));
            out.class = format!("neither:vrl-{why}");
            out.nontrivial = false;
        }
    }
    out
}

// --------------------------------------------------------------------------------- enumeration

/// index → the i-th string (length-then-lexicographic) over `sigma` with length ≤ `max_len`.
struct Words {
    sigma: &'static [&'static str],
    offsets: Vec<u64>, // offsets[k] = number of words shorter than k
}

impl Words {
    fn new(sigma: &'static [&'static str], max_len: usize) -> Self {
        let mut offsets = vec![0u64];
        let mut pow = 1u64;
        for _ in 0..=max_len {
            offsets.push(offsets.last().unwrap() + pow);
            pow *= sigma.len() as u64;
        }
        Self { sigma, offsets }
    }
    fn count(&self) -> u64 {
        *self.offsets.last().unwrap()
    }
    fn word(&self, i: u64) -> String {
        let len = self.offsets.iter().rposition(|o| *o <= i).unwrap();
        let mut r = i - self.offsets[len];
        let mut parts = vec![""; len];
        for slot in parts.iter_mut().rev() {
            *slot = self.sigma[(r % self.sigma.len() as u64) as usize];
            r /= self.sigma.len() as u64;
        }
        parts.concat()
    }
}

fn segment_alphabet(tier: Tier) -> Vec<J> {
    let mut v: Vec<J> = field_alphabet(tier).into_iter().map(|f| json!(f)).collect();
    v.extend(index_alphabet(tier).into_iter().map(|i| json!(i)));
    v
}

pub fn run(tier: Tier) -> Report {
    let mut rep = Report::new("C20", tier, "exploration");
    // ---- owned paths
    let segs = segment_alphabet(tier);
    let max_len: u32 = if tier.thorough() { 4 } else { 3 };
    let k = segs.len() as u64;
    let mut offsets = vec![0u64];
    for l in 0..=max_len {
        offsets.push(offsets.last().unwrap() + k.pow(l));
    }
    let n_paths = *offsets.last().unwrap();
    let prefixes = ["event", "metadata", "value"];
    law::drive_indexed(
        &mut rep,
        "owned-paths",
        n_paths * 3,
        |i| {
            let (pi, prefix) = (i / 3, prefixes[(i % 3) as usize]);
            let len = offsets.iter().rposition(|o| *o <= pi).unwrap();
            let mut r = pi - offsets[len];
            let mut s = vec![J::Null; len];
            for slot in s.iter_mut().rev() {
                *slot = segs[(r % k) as usize].clone();
                r /= k;
            }
            json!({"law": "render-parse", "prefix": prefix, "segs": s})
        },
        case,
    );
    // ---- owned paths through template-brace fields (≤ 2 segments, see `brace_fields`)
    {
        let braces: Vec<J> = brace_fields().into_iter().map(|f| json!(f)).collect();
        let mut cases = Vec::new();
        for prefix in prefixes {
            for b in &braces {
                cases.push(json!({"law": "render-parse", "prefix": prefix, "segs": [b]}));
                for s in segs.iter().chain(braces.iter()) {
                    cases.push(json!({"law": "render-parse", "prefix": prefix, "segs": [b, s]}));
                    if s != b {
                        cases.push(json!({"law": "render-parse", "prefix": prefix, "segs": [s, b]}));
                    }
                }
            }
        }
        law::drive(&mut rep, "owned-paths-braces", &cases, case);
    }
    // ---- texts
    let (l_struct, l_core, l_quoted, l_braces, l_index) = if tier.thorough() { (7, 8, 7, 5, 6) } else { (5, 7, 6, 4, 5) };
    let ws = Words::new(SIGMA_STRUCT, l_struct);
    law::drive_indexed(&mut rep, "texts-structural", ws.count(), |i| json!({"law": "text", "text": ws.word(i)}), case);
    // longer words over the core alphabet (words of ≤ l_struct characters were covered above)
    let wc = Words::new(SIGMA_CORE, l_core);
    let skip = Words::new(SIGMA_CORE, l_struct).count();
    law::drive_indexed(&mut rep, "texts-structural-core", wc.count() - skip, |i| json!({"law": "text", "text": wc.word(i + skip)}), case);
    let wq = Words::new(SIGMA_QUOTED, l_quoted);
    let frames: [(&str, &str); 4] = [(".\"", "\""), ("%a.\"", "\""), (".\"", "\".b"), (".a[0]\"", "\"[1]")];
    law::drive_indexed(
        &mut rep,
        "texts-quoted",
        wq.count() * 4,
        |i| {
            let (pre, post) = frames[(i % 4) as usize];
            json!({"law": "text", "text": format!("{pre}{}{post}", wq.word(i / 4))})
        },
        case,
    );
    let wb = Words::new(SIGMA_BRACES, l_braces);
    let bframes: [(&str, &str); 2] = [(".\"", "\""), ("%a.\"", "\".b")];
    law::drive_indexed(
        &mut rep,
        "texts-braces",
        wb.count() * 2,
        |i| {
            let (pre, post) = bframes[(i % 2) as usize];
            json!({"law": "text", "text": format!("{pre}{}{post}", wb.word(i / 2))})
        },
        case,
    );
    let wi = Words::new(SIGMA_INDEX, l_index);
    let iframes: [(&str, &str); 3] = [(".a[", "]"), ("%[", "].b"), (".[", "][0]")];
    law::drive_indexed(
        &mut rep,
        "texts-index",
        wi.count() * 3,
        |i| {
            let (pre, post) = iframes[(i % 3) as usize];
            json!({"law": "text", "text": format!("{pre}{}{post}", wi.word(i / 3))})
        },
        case,
    );
    let corpus: Vec<J> = corpus().into_iter().map(|t| json!({"law": "text", "text": t})).collect();
    law::drive(&mut rep, "texts-corpus", &corpus, case);

    rep.set(
        "rule",
        format!(
            "(a) every owned path of ≤ {max_len} segments over {} segments ({} field strings: plain, empty, blank, dot, quote, backslash, their pairs, multi-byte, digit-first, '-', '@', '_', bracketed, '%', newline, '{{', keyword; {} indices incl. isize::MIN/MAX) × {{event, metadata, prefix-less value path}}; \
             (a') every path of ≤ 2 segments with at least one template-brace field of {:?}; \
             (b) every text of ≤ {l_struct} characters over {SIGMA_STRUCT:?} and every text of {}…{l_core} characters over {SIGMA_CORE:?}; every text of ≤ {l_quoted} characters over {SIGMA_QUOTED:?} between quotes in 4 frames; every text of ≤ {l_braces} characters over {SIGMA_BRACES:?} between quotes in 2 frames; every text of ≤ {l_index} characters over {SIGMA_INDEX:?} between brackets in 3 frames; {} hand-picked texts (keywords, literal prefixes, integer extremes/overflow, blanks, unicode escapes, templates, long chains). \
             A case is non-trivial when at least one reader accepted the text (owned paths: always, except the excluded empty value path); distinct = distinct witnesses; outcome classes = reader verdict combination × path length",
            segs.len(),
            field_alphabet(tier).len(),
            index_alphabet(tier).len(),
            brace_fields(),
            l_struct + 1,
            corpus.len(),
        ),
    );
    rep.assume("the VRL reader is vrl::parser::parse: a text counts as 'a path written in VRL source' only when the whole program is exactly one root expression that is a query on the external target (`.`/`%`)");
    rep.assume("texts that only one of the two readers accepts are counted (coverage.texts_string_parser_only / texts_vrl_only), not judged: the property speaks about paths both notations can write");
    rep.assume("a panic of the path-string parser (index accumulator overflow under the harness' overflow-checks) is counted in coverage.string_parser_panics, not judged");
    rep.assume("runtime read/write agreement is judged against Target::target_get/target_insert of the string-parsed path on a fresh target, for paths whose indices are within ±16");
    rep.assume("the empty value path is excluded from render→parse (documented: value paths need ≥ 1 segment); the event and metadata ROOT target paths are included");
    rep
}

pub fn replay(_property: &str, w: &J) -> Vec<Violation> {
    case(w).violations
}
