//! C15 — read-only paths are never modified (DESIGN §3.1 C15).
//! Flat exhaustive enumeration: every read-only configuration (sets of <= 2 entries over event and
//! metadata paths, recursive or not) x every mutator program of 1 (thorough: 2) statements x every
//! event of the alphabet. A program the compiler accepts under the configuration must leave the value
//! at every read-only path unchanged (deeply for recursive entries).

use crate::law::{self, CaseResult};
use crate::report::{Report, Tier, Violation};
use crate::util::guarded;
use crate::vrlx::{self, Outcome};
use crate::vv;
use serde_json::{Value as J, json};
use vrl::compiler::state::ExternalEnv;
use vrl::compiler::{CompileConfig, Target};
use vrl::path::{OwnedTargetPath, parse_target_path};
use vrl::value::Value;

thread_local! {
    static FNS: Vec<Box<dyn vrl::compiler::Function>> = vrlx::fns();
}

const RO_PATHS: [&str; 9] = [".", ".a", ".a.b", ".a[0]", ".\"a b\"", ".a.b.c", "%", "%m", "%m.x"];

fn ro_entries() -> Vec<(String, bool)> {
    let mut v = Vec::new();
    for p in RO_PATHS {
        for r in [true, false] {
            v.push((p.to_string(), r));
        }
    }
    v
}

/// All configurations: every single entry, and every unordered pair of entries on different paths.
fn configs(pairs: bool) -> Vec<Vec<(String, bool)>> {
    let e = ro_entries();
    let mut out: Vec<Vec<(String, bool)>> = e.iter().map(|x| vec![x.clone()]).collect();
    if pairs {
        for i in 0..e.len() {
            for j in i + 1..e.len() {
                if e[i].0 != e[j].0 {
                    out.push(vec![e[i].clone(), e[j].clone()]);
                }
            }
        }
    }
    out
}

fn mutators() -> Vec<String> {
    let targets = [
        ".", ".a", ".a.b", ".a.b.c", ".a.b.c.d", ".a[0]", ".a[1]", ".a[-1]", ".a[-2]", ".a[0].k", ".a.c", ".\"a b\"", ".\"a b\".z", ".\"a\"", ".\"a\".\"b\"", ".b", "%", "%m",
        "%m.x", "%m.x.y", "%m.z", "%n", "%m[0]",
    ];
    let values = ["1", "{\"b\": {\"c\": 9}}", "[7]", "null", "\"s\""];
    let mut v = Vec::new();
    for t in targets {
        for val in values {
            if (t == "." || t == "%") && !val.starts_with('{') {
                continue;
            }
            v.push(format!("{t} = {val}"));
        }
        v.push(format!("{t} |= {{\"q\": 1}}"));
        v.push(format!("{t}, err = to_int(\"7\")"));
        v.push(format!("ok, {t} = to_int(\"x\")"));
        v.push(format!("{t}, err = object({{\"b\": 1}})"));
        if t != "." && t != "%" {
            v.push(format!("del({t})"));
            v.push(format!("del({t}, compact: true)"));
            v.push(format!("x = del({t})"));
        }
        v.push(format!("for_each([1]) -> |_i, _v| {{ {t} = {{\"w\": 1}} }}"));
        v.push(format!("if true {{ {t} = {{\"w\": 1}} }}"));
        v.push(format!("{{ {t} = {{\"w\": 2}} }} ?? null"));
    }
    for s in [
        "del(.)", "del(%)", ". = {}", "% = {}", ". = set!(., [\"a\", \"b\"], 1)", ".a = set!(.a, [\"b\"], 1)", ". |= {\"a\": 1}", ". |= {\"a\": {\"b\": 1}}", "% |= {\"m\": 1}",
        ". = merge(., {\"a\": 0})", ". = compact(.)", ".a = push(array!(.a), 1)", ".a = map_values(object!(.a)) -> |_v| { 0 }", ". = map_keys(.) -> |k| { k + \"_\" }",
        ". = unnest!(.a)", ".a = unnest!(.a.b)", ". = remove!(., [\"a\", \"b\"])", ".a = remove!(.a, [\"b\"])", ". = flatten(.)", "x = .; x.a = 1; . = x", "x = .a; x.b = 1; .a = x",
        ".c = .a; .c.b = 1", ".a.b = .a", ".a = .a.b",
    ] {
        v.push(s.to_string());
    }
    v
}

fn events() -> Vec<(Value, Value)> {
    use vv::{arr, i, obj, s};
    let m0 = obj(&[]);
    let m1 = obj(&[("m", obj(&[("x", i(1))]))]);
    let m2 = obj(&[("m", i(5)), ("n", s("n"))]);
    vec![
        (obj(&[]), m0.clone()),
        (obj(&[("a", i(5))]), m1.clone()),
        (obj(&[("a", obj(&[("b", i(2)), ("c", i(3))]))]), m1.clone()),
        (obj(&[("a", obj(&[("b", obj(&[("c", obj(&[("d", i(1))]))]))]))]), m2.clone()),
        (obj(&[("a", arr(&[i(1), i(2)]))]), m0.clone()),
        (obj(&[("a", arr(&[obj(&[("k", i(1))])])), ("a b", obj(&[("z", i(1))]))]), m1),
        (obj(&[("a b", i(1)), ("a", obj(&[("b", arr(&[i(1)]))])), ("b", s("x"))]), m2),
    ]
}

fn get(t: &vrl::compiler::TargetValue, p: &OwnedTargetPath) -> Option<Value> {
    t.target_get(p).ok().flatten().cloned()
}

fn shape(v: &Option<Value>) -> &'static str {
    match v {
        None => "absent",
        Some(Value::Object(_)) => "object",
        Some(Value::Array(_)) => "array",
        Some(_) => "scalar",
    }
}

pub fn case(w: &J) -> CaseResult {
    let cfg: Vec<(String, bool)> =
        w["read_only"].as_array().map(|a| a.iter().map(|e| (e[0].as_str().unwrap_or("").to_string(), e[1].as_bool().unwrap_or(false))).collect()).unwrap_or_default();
    let src = w["program"].as_str().unwrap_or("");
    let event = vv::dec(&w["event"]);
    let metadata = vv::dec(&w["metadata"]);
    let mut cc = CompileConfig::default();
    cc.disable_unused_expression_check();
    let mut paths = Vec::new();
    for (p, r) in &cfg {
        let tp = parse_target_path(p).expect("read-only path of the alphabet parses");
        cc.set_read_only_path(tp.clone(), *r);
        paths.push((tp, *r, p.clone()));
    }
    let compiled = FNS.with(|fns| guarded(|| vrlx::compile_ext(src, fns, &ExternalEnv::default(), cc)));
    let program = match compiled {
        Err(p) => return CaseResult::ok("compile-panic").violation(Violation::new("C15.compile-panic", w.clone(), "no panic", p)),
        Ok(Err(_)) => return CaseResult::trivial("rejected"),
        Ok(Ok(r)) => r.program,
    };
    let mut t = vrlx::target(event, metadata);
    let before: Vec<Option<Value>> = paths.iter().map(|(p, _, _)| get(&t, p)).collect();
    let tz = vrlx::utc();
    let outcome = match guarded(|| vrlx::run_runtime(&program, &mut t, &tz)) {
        Ok(o) => o,
        Err(p) => return CaseResult::ok("run-panic").violation(Violation::new("C15.run-panic", w.clone(), "no panic", p)),
    };
    let mut res = CaseResult::ok(&format!("accepted:{}", outcome.class()));
    let mut changed_anything = false;
    for ((p, recursive, text), b) in paths.iter().zip(&before) {
        let a = get(&t, p);
        changed_anything |= a != *b;
        if *recursive {
            if a != *b {
                res.violations.push(Violation::new(
                    "C15.recursive-read-only-path-changed",
                    w.clone(),
                    format!("{text} (recursive) stays {}", b.as_ref().map_or("absent".into(), vv::show)),
                    a.as_ref().map_or("absent".into(), vv::show),
                ));
            }
        } else {
            // non-recursive: writes BELOW the path are permitted by the configuration; the value at the path
            // itself keeps its identity: a scalar / absent value is unchanged, a container stays a container
            // of the same type
            let same = match (b, &a) {
                (Some(Value::Object(_)), Some(Value::Object(_))) | (Some(Value::Array(_)), Some(Value::Array(_))) => true,
                (x, y) => x == y,
            };
            if !same {
                res.violations.push(Violation::new(
                    "C15.read-only-path-changed",
                    w.clone(),
                    format!("{text} (non-recursive) keeps its value ({} {})", shape(b), b.as_ref().map_or(String::new(), vv::show)),
                    format!("{} {}", shape(&a), a.as_ref().map_or(String::new(), vv::show)),
                ));
            }
        }
    }
    let _ = matches!(outcome, Outcome::Ok(_));
    // A two-statement program that violates only because one of its statements already violates on its own
    // (same configuration, same event) is the same finding as that one-statement case: counted, not re-reported.
    if !res.violations.is_empty() && src.contains('\n') {
        for line in src.split('\n') {
            let mut w1 = w.clone();
            w1["program"] = json!(line);
            if !case(&w1).violations.is_empty() {
                res.violations.clear();
                res.counters.push(("two_statement_violations_explained_by_one_statement", 1));
                break;
            }
        }
    }
    // A violation under a two-entry configuration that the violated entry ALONE already produces is the
    // same finding as the single-entry case (the second entry only restricts acceptance further).
    if !res.violations.is_empty() && cfg.len() == 2 {
        let mut explained = true;
        for (p, r) in &cfg {
            let mut w1 = w.clone();
            w1["read_only"] = json!([[p, r]]);
            let single = case(&w1);
            let _ = single.class;
            // the violated entries of `res` must all be violated in their own single-entry configuration
            for v in &res.violations {
                let about_this = v.expected.starts_with(&format!("{p} ("));
                if about_this && single.violations.is_empty() {
                    explained = false;
                }
            }
        }
        if explained {
            res.violations.clear();
            res.counters.push(("pair_configuration_violations_explained_by_a_single_entry", 1));
        }
    }
    res.counters.push(("accepted_programs_run", 1));
    if changed_anything {
        res.counters.push(("runs_that_changed_a_protected_subtree(below a non-recursive entry)", 1));
    }
    res
}

pub fn run(tier: Tier) -> Report {
    let mut rep = Report::new("C15", tier, "exploration");
    let muts = mutators();
    let evs = events();
    let mut programs: Vec<String> = muts.clone();
    let singles = configs(false);
    let all = configs(true);
    // depth 1: every configuration (singles and pairs) x every mutator x every event
    let n1 = all.len() * programs.len() * evs.len();
    let gen1 = |i: u64| {
        let i = i as usize;
        let (c, rest) = (i / (programs.len() * evs.len()), i % (programs.len() * evs.len()));
        let (p, e) = (rest / evs.len(), rest % evs.len());
        json!({"read_only": all[c].iter().map(|(p, r)| json!([p, r])).collect::<Vec<_>>(), "program": programs[p], "event": vv::enc(&evs[e].0), "metadata": vv::enc(&evs[e].1)})
    };
    law::drive_indexed(&mut rep, "one-mutator x all configurations", n1 as u64, gen1, case);
    // depth 2: mutator pairs under single-entry configurations (thorough: all pairs; quick: first statement
    // from the programs that write at or above/below `.a`, the most entangled region)
    let first: Vec<String> = if tier.thorough() { muts.clone() } else { muts.iter().filter(|m| m.starts_with(".a") || m.starts_with("%m") || m.starts_with(". ") || m.starts_with("del(.a")).cloned().collect() };
    programs = Vec::new();
    for a in &first {
        for b in &muts {
            programs.push(format!("{a}\n{b}"));
        }
    }
    let evs2: Vec<(Value, Value)> = if tier.thorough() { evs.clone() } else { evs[1..4].to_vec() };
    let n2 = singles.len() * programs.len() * evs2.len();
    let gen2 = |i: u64| {
        let i = i as usize;
        let (c, rest) = (i / (programs.len() * evs2.len()), i % (programs.len() * evs2.len()));
        let (p, e) = (rest / evs2.len(), rest % evs2.len());
        json!({"read_only": singles[c].iter().map(|(p, r)| json!([p, r])).collect::<Vec<_>>(), "program": programs[p], "event": vv::enc(&evs2[e].0), "metadata": vv::enc(&evs2[e].1)})
    };
    law::drive_indexed(&mut rep, "two-mutators x single-entry configurations", n2 as u64, gen2, case);
    rep.set("configurations", all.len() as u64);
    rep.set("mutator_alphabet", muts.len() as u64);
    rep.set(
        "rule",
        "read-only configurations = every single entry and every pair over 9 event/metadata paths x {recursive, non-recursive}; programs = every mutator statement (assignment, |=, `ok, err =` in both positions, del with/without compact, writes inside closures / if / handled blocks over 23 target paths incl. parents, children, quoted aliases and negative indices, plus whole-event rewrites through stdlib calls and variable aliases) and, under single-entry configurations, every ordered pair of mutators; each on every event of the alphabet; a case is non-trivial when the compiler ACCEPTS the program under the configuration and it is run; distinct by construction",
    );
    rep.assume("non-recursive entries: the configuration explicitly permits writes below the path, so only the identity of the value at the path is judged (scalar/absent unchanged, container stays a container of the same type); recursive entries: deep equality");
    rep
}

pub fn replay(_property: &str, w: &J) -> Vec<Violation> {
    case(w).violations
}
