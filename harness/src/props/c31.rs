//! C31 — `match_datadog_query` follows the search semantics.
//!
//! Everything is observed through compiled VRL programs `match_datadog_query(., "<query>")` run on
//! an event. Three laws:
//!
//!  * `leaf`    — every leaf query (exists / missing / term / phrase / prefix / wildcard /
//!                comparison / range on attributes `@a`, `@b.c`, tag `t`, reserved `host` / `tags`,
//!                default field) × every event is compared with an independent evaluator written
//!                over plain `Value`s (string equality, prefix, glob, exact numeric comparison when
//!                both sides are numbers, string comparison when both are strings, tag `key:value`
//!                handling). Where the property leaves behaviour open the evaluator answers
//!                "unjudged" and the case is only counted.
//!  * `compose` — templates over 1–3 leaves (`NOT $1`, `-$1`, `$1 AND $2`, `$1 $2`, `$1 OR $2 AND $3`,
//!                `NOT ($1 OR $2)`, field-scoped groups `f:(x OR y)` …): the result on the composed text
//!                must equal the boolean formula applied to the results of the leaf texts alone.
//!  * `range`   — `f:[l TO u]` (all bracket forms, `*` bounds) must equal `f:>=l` ∧ `f:<=u`
//!                (resp. strict), `[* TO *]` must equal `_exists_:f`.

use crate::law::{self, CaseResult};
use crate::report::{Report, Tier, Violation};
use crate::util::{product, unrank};
use crate::vrlx::Outcome;
use crate::vv;
use serde_json::{Value as J, json};
use std::cell::RefCell;
use std::collections::HashMap;
use vrl::value::Value;

// ---------------------------------------------------------------------------------------------
// running the subject

#[derive(Clone, Debug, PartialEq)]
enum M {
    T(bool),
    Rejected,
    Panic(String),
    Other(String),
}

thread_local! {
    static WHY: RefCell<HashMap<String, String>> = RefCell::new(HashMap::new());
}

fn program(q: &str) -> String {
    format!("match_datadog_query(., {})", vv::str_lit(q))
}

fn m(q: &str, ev: &Value) -> M {
    let src = program(q);
    match law::call(&src, ev.clone()) {
        Outcome::Ok(Value::Boolean(b)) => M::T(b),
        Outcome::Other(s) if s == "rejected" => {
            let why = WHY.with(|c| {
                if let Some(w) = c.borrow().get(&src) {
                    return w.clone();
                }
                let w = law::why_rejected(&src);
                c.borrow_mut().insert(src.clone(), w.clone());
                w
            });
            if why.starts_with("panic") { M::Panic(why) } else { M::Rejected }
        }
        Outcome::Other(s) if s.starts_with("panic") => M::Panic(s),
        o => M::Other(o.show()),
    }
}

// ---------------------------------------------------------------------------------------------
// events

fn attr_values() -> Vec<Value> {
    use vv::{arr, f, i, obj, s};
    vec![
        s(""),
        s("a"),
        s("ab"),
        s("b"),
        s("A"),
        s("a b"),
        s("10"),
        s("9"),
        s("1.5"),
        s("é"),
        s("a*"),
        s("a?b"),
        s("axb"),
        s("-1"),
        s("true"),
        i(0),
        i(1),
        i(9),
        i(10),
        i(-1),
        i(9_007_199_254_740_993),
        i(i64::MAX),
        i(i64::MIN),
        f(1.5),
        f(1.0),
        f(-0.5),
        f(9_007_199_254_740_992.0),
        f(10.0),
        Value::Boolean(true),
        Value::Boolean(false),
        Value::Null,
        arr(&[s("a"), s("b")]),
        arr(&[i(1), i(10)]),
        obj(&[("c", s("a"))]),
    ]
}

fn events() -> Vec<Value> {
    use vv::{arr, i, f, obj, s};
    let mut out = vec![obj(&[])];
    for v in attr_values() {
        out.push(obj(&[("a", v)]));
    }
    for v in [s("a"), s("ab"), i(10), f(1.5), Value::Null, arr(&[s("a")])] {
        out.push(obj(&[("b", obj(&[("c", v)]))]));
    }
    out.push(obj(&[("b", s("a"))]));
    let tag_sets: Vec<Value> = vec![
        arr(&[]),
        arr(&[s("t")]),
        arr(&[s("t:a")]),
        arr(&[s("t:ab"), s("u:b")]),
        arr(&[s("u:a")]),
        arr(&[s("t:10")]),
        arr(&[s("t:9"), s("t:a b")]),
        arr(&[s("t:a:b")]),
        arr(&[s("tt:a")]),
        arr(&[s("t:")]),
        arr(&[s("t:é"), s("u:9")]),
        arr(&[s("t:a*"), s("u")]),
        arr(&[s("u:5"), s("t:1.5")]),
        arr(&[s("a"), s("b")]),
        s("t:a"),
    ];
    for t in tag_sets {
        out.push(obj(&[("tags", t)]));
    }
    for h in [s("a"), s("ab"), s(""), i(10), s("b")] {
        out.push(obj(&[("host", h)]));
    }
    for msg in [s("a"), s("a b"), s("ab"), s("b a c"), s("a-b"), s("A"), s("é a"), s(""), s("c ab"), s("10"), i(10)] {
        out.push(obj(&[("message", msg)]));
    }
    out.push(obj(&[("custom", obj(&[("title", s("a"))]))]));
    out.push(obj(&[("custom", obj(&[("error", obj(&[("message", s("b")), ("stack", s("a c"))]))]))]));
    out.push(obj(&[("a", s("a")), ("tags", arr(&[s("t:a")])), ("host", s("a")), ("message", s("a b"))]));
    out.push(obj(&[
        ("a", i(10)),
        ("b", obj(&[("c", s("ab"))])),
        ("tags", arr(&[s("t:10"), s("u:b")])),
        ("host", s("ab")),
        ("message", s("b")),
    ]));
    out.push(obj(&[("a", f(1.5)), ("tags", arr(&[s("u:a"), s("t:b")])), ("message", s("ab a"))]));
    out
}

// ---------------------------------------------------------------------------------------------
// leaf specs → query text

fn plain_char(c: char) -> bool {
    c.is_ascii_alphanumeric() || (!c.is_ascii() && c.is_alphabetic()) || c == '.' || c == '_'
}

/// Term text: every character that is not a letter, digit, `.` or `_` is backslash-escaped.
fn esc_term(v: &str) -> String {
    let mut o = String::new();
    for c in v.chars() {
        if !plain_char(c) {
            o.push('\\');
        }
        o.push(c);
    }
    o
}

fn esc_phrase(v: &str) -> String {
    let mut o = String::new();
    for c in v.chars() {
        if c == '"' || c == '\\' {
            o.push('\\');
        }
        o.push(c);
    }
    o
}

fn with_field(f: &str, rest: &str) -> String {
    if f.is_empty() { rest.to_string() } else { format!("{f}:{rest}") }
}

#[derive(Clone, Debug)]
enum Bound {
    Unbounded,
    Int(i64),
    Float(f64, String),
    Str(String),
}

fn bound_of(j: &J) -> Bound {
    if j["u"].as_bool() == Some(true) {
        return Bound::Unbounded;
    }
    if let Some(s) = j["s"].as_str() {
        return Bound::Str(s.to_string());
    }
    let t = j["t"].as_str().unwrap_or("0");
    if let Ok(i) = t.parse::<i64>() { Bound::Int(i) } else { Bound::Float(t.parse::<f64>().expect("numeric bound"), t.to_string()) }
}

fn bound_text(j: &J) -> String {
    if j["u"].as_bool() == Some(true) {
        return "*".into();
    }
    if let Some(s) = j["s"].as_str() {
        // a string bound that starts like a number / sign is forced to be a TERM by escaping
        let mut o = String::new();
        for (k, c) in s.chars().enumerate() {
            if !plain_char(c) || (k == 0 && c.is_ascii_digit()) {
                o.push('\\');
            }
            o.push(c);
        }
        return o;
    }
    j["t"].as_str().unwrap_or("0").to_string()
}

fn leaf_text(l: &J) -> String {
    let f = l["f"].as_str().unwrap_or("");
    let v = l["v"].as_str().unwrap_or("");
    match l["k"].as_str().unwrap_or("") {
        "all" => v.to_string(),
        "exists" => format!("_exists_:{f}"),
        "missing" => format!("_missing_:{f}"),
        "term" => with_field(f, &esc_term(v)),
        "phrase" => with_field(f, &format!("\"{}\"", esc_phrase(v))),
        "prefix" => with_field(f, &format!("{}*", esc_term(v))),
        "glob" => with_field(f, v),
        "cmp" => with_field(f, &format!("{}{}", l["op"].as_str().unwrap_or(">"), bound_text(&l["b"]))),
        "range" => with_field(
            f,
            &format!(
                "{}{} TO {}{}",
                if l["li"].as_bool().unwrap_or(true) { "[" } else { "{" },
                bound_text(&l["lo"]),
                bound_text(&l["hi"]),
                if l["ui"].as_bool().unwrap_or(true) { "]" } else { "}" }
            ),
        ),
        k => panic!("unknown leaf kind {k}"),
    }
}

// ---------------------------------------------------------------------------------------------
// reference evaluator

fn get<'a>(ev: &'a Value, path: &[&str]) -> Option<&'a Value> {
    let mut cur = ev;
    for seg in path {
        match cur {
            Value::Object(o) => cur = o.get(*seg)?,
            _ => return None,
        }
    }
    Some(cur)
}

/// The text a scalar is compared as; None = the property does not fix a text form.
fn string_form(v: &Value) -> Option<String> {
    match v {
        Value::Bytes(b) => std::str::from_utf8(b).ok().map(str::to_string),
        Value::Integer(i) => Some(i.to_string()),
        Value::Float(f) => {
            let x = f.into_inner();
            if x.is_finite() && x.fract() != 0.0 && x.abs() < 1e6 { Some(format!("{x}")) } else { None }
        }
        Value::Boolean(b) => Some(b.to_string()),
        _ => None,
    }
}

fn glob_match(g: &[char], s: &[char], qmark_any: bool) -> bool {
    match g.split_first() {
        None => s.is_empty(),
        Some(('*', rest)) => (0..=s.len()).any(|k| glob_match(rest, &s[k..], qmark_any)),
        Some(('?', rest)) if qmark_any => !s.is_empty() && glob_match(rest, &s[1..], qmark_any),
        Some((c, rest)) => s.first() == Some(c) && glob_match(rest, &s[1..], qmark_any),
    }
}

/// `*` = any run of characters; `?` is judged only where "any single character" and "a literal
/// question mark" agree.
fn glob_ref(g: &str, s: &str) -> Option<bool> {
    let gc: Vec<char> = g.chars().collect();
    let sc: Vec<char> = s.chars().collect();
    let a = glob_match(&gc, &sc, true);
    let b = glob_match(&gc, &sc, false);
    if a == b { Some(a) } else { None }
}

fn ord_ok(op: &str, o: std::cmp::Ordering) -> bool {
    use std::cmp::Ordering::*;
    match op {
        ">" => o == Greater,
        ">=" => o != Less,
        "<" => o == Less,
        "<=" => o != Greater,
        _ => panic!("op"),
    }
}

/// Exact comparison of an integer with a finite float.
fn cmp_i_f(i: i64, x: f64) -> std::cmp::Ordering {
    use std::cmp::Ordering::*;
    if x >= 9_223_372_036_854_775_808.0 {
        return Less;
    }
    if x < -9_223_372_036_854_775_808.0 {
        return Greater;
    }
    let t = x.trunc();
    let ti = t as i64; // exact: |t| < 2^63
    match i.cmp(&ti) {
        Equal => {
            let fr = x - t;
            if fr > 0.0 {
                Less
            } else if fr < 0.0 {
                Greater
            } else {
                Equal
            }
        }
        o => o,
    }
}

#[derive(Clone, Copy, PartialEq, Debug)]
enum FieldClass {
    Attr,
    Tag,
    Reserved,
    ReservedTags,
    Default,
}

fn classify(f: &str) -> (FieldClass, Vec<&str>) {
    if let Some(p) = f.strip_prefix('@') {
        (FieldClass::Attr, p.split('.').collect())
    } else if f == "tags" {
        (FieldClass::ReservedTags, vec!["tags"])
    } else if f == "host" || f == "service" || f == "status" || f == "source" {
        (FieldClass::Reserved, vec![f])
    } else if f.is_empty() || f == "message" {
        (FieldClass::Default, vec!["message"])
    } else {
        (FieldClass::Tag, vec![f])
    }
}

/// The tag strings of the event, or None when `tags` holds something that is not a list of strings.
fn tag_list(ev: &Value) -> Option<Vec<String>> {
    match get(ev, &["tags"]) {
        None => Some(vec![]),
        Some(Value::Array(a)) => a
            .iter()
            .map(|v| match v {
                Value::Bytes(b) => std::str::from_utf8(b).ok().map(str::to_string),
                _ => None,
            })
            .collect(),
        Some(_) => Some(vec![]),
    }
}

fn is_word(s: &str) -> bool {
    !s.is_empty() && s.chars().all(char::is_alphanumeric)
}

/// Words of a judged full-text value (words of letters/digits separated by single blanks).
fn words(s: &str) -> Option<Vec<&str>> {
    if s.is_empty() {
        return Some(vec![]);
    }
    let w: Vec<&str> = s.split(' ').collect();
    if w.iter().all(|x| is_word(x)) { Some(w) } else { None }
}

fn cmp_scalar(class: FieldClass, x: &Value, op: &str, b: &Bound) -> Option<bool> {
    match (class, x, b) {
        (FieldClass::Attr, Value::Integer(i), Bound::Int(r)) => Some(ord_ok(op, i.cmp(r))),
        (FieldClass::Attr, Value::Integer(i), Bound::Float(r, _)) => Some(ord_ok(op, cmp_i_f(*i, *r))),
        (FieldClass::Attr, Value::Float(l), Bound::Int(r)) => Some(ord_ok(op, cmp_i_f(*r, l.into_inner()).reverse())),
        (FieldClass::Attr, Value::Float(l), Bound::Float(r, _)) => l.into_inner().partial_cmp(r).map(|o| ord_ok(op, o)),
        (FieldClass::Attr | FieldClass::Reserved, Value::Bytes(l), Bound::Str(r)) => {
            let l = std::str::from_utf8(l).ok()?;
            Some(ord_ok(op, l.cmp(r.as_str())))
        }
        _ => None,
    }
}

/// Text a tag value is compared with: strings as they are, numbers only in canonical spelling.
fn bound_as_tag_text(b: &Bound) -> Option<String> {
    match b {
        Bound::Str(s) => Some(s.clone()),
        Bound::Int(i) => Some(i.to_string()),
        Bound::Float(x, t) => {
            if format!("{x}") == *t { Some(t.clone()) } else { None }
        }
        Bound::Unbounded => None,
    }
}

fn cmp_ref(class: FieldClass, path: &[&str], f: &str, ev: &Value, op: &str, b: &Bound) -> Option<bool> {
    match class {
        FieldClass::Attr | FieldClass::Reserved => match get(ev, path) {
            None => Some(false),
            Some(x) => cmp_scalar(class, x, op, b),
        },
        FieldClass::Tag => {
            let tags = tag_list(ev)?;
            let r = bound_as_tag_text(b)?;
            Some(tags.iter().any(|t| match t.split_once(':') {
                Some((k, v)) if k == f => ord_ok(op, v.cmp(r.as_str())),
                _ => false,
            }))
        }
        _ => None,
    }
}

fn exists_ref(class: FieldClass, path: &[&str], f: &str, ev: &Value) -> Option<bool> {
    match class {
        FieldClass::Attr | FieldClass::Reserved => match get(ev, path) {
            None => Some(false),
            Some(Value::Null) => None,
            Some(_) => Some(true),
        },
        FieldClass::Default => {
            if f.is_empty() {
                return None;
            }
            match get(ev, path) {
                None => Some(false),
                Some(Value::Null) => None,
                Some(_) => Some(true),
            }
        }
        FieldClass::ReservedTags => match get(ev, path) {
            None => Some(false),
            Some(Value::Array(a)) if !a.is_empty() => Some(true),
            Some(_) => None,
        },
        FieldClass::Tag => {
            let tags = tag_list(ev)?;
            let pre = format!("{f}:");
            Some(tags.iter().any(|t| t == f || t.starts_with(&pre)))
        }
    }
}

/// Some(verdict) where the search semantics fix it, None where they leave it open.
fn leaf_ref(l: &J, ev: &Value) -> Option<bool> {
    let f = l["f"].as_str().unwrap_or("");
    let v = l["v"].as_str().unwrap_or("");
    let k = l["k"].as_str().unwrap_or("");
    let (class, path) = classify(f);
    match k {
        "all" => return Some(v != "-*:*"),
        "exists" => return exists_ref(class, &path, f, ev),
        "missing" => return exists_ref(class, &path, f, ev).map(|b| !b),
        "cmp" => return cmp_ref(class, &path, f, ev, l["op"].as_str().unwrap_or(">"), &bound_of(&l["b"])),
        "range" => {
            let lo = bound_of(&l["lo"]);
            let hi = bound_of(&l["hi"]);
            let lop = if l["li"].as_bool().unwrap_or(true) { ">=" } else { ">" };
            let hop = if l["ui"].as_bool().unwrap_or(true) { "<=" } else { "<" };
            return match (&lo, &hi) {
                (Bound::Unbounded, Bound::Unbounded) => exists_ref(class, &path, f, ev),
                (Bound::Unbounded, _) => cmp_ref(class, &path, f, ev, hop, &hi),
                (_, Bound::Unbounded) => cmp_ref(class, &path, f, ev, lop, &lo),
                _ => {
                    if class == FieldClass::Tag {
                        // "both bounds hold" can be read per tag value or per bound when the key has
                        // several values: judged only where the two readings agree
                        let tags = tag_list(ev)?;
                        let (lt, ht) = (bound_as_tag_text(&lo)?, bound_as_tag_text(&hi)?);
                        let vals: Vec<&str> = tags.iter().filter_map(|t| t.split_once(':')).filter(|(k, _)| *k == f).map(|(_, v)| v).collect();
                        let same = vals.iter().any(|v| ord_ok(lop, v.cmp(&lt.as_str())) && ord_ok(hop, v.cmp(&ht.as_str())));
                        let each = vals.iter().any(|v| ord_ok(lop, v.cmp(&lt.as_str()))) && vals.iter().any(|v| ord_ok(hop, v.cmp(&ht.as_str())));
                        return if same == each { Some(same) } else { None };
                    }
                    match (cmp_ref(class, &path, f, ev, lop, &lo), cmp_ref(class, &path, f, ev, hop, &hi)) {
                        (Some(false), _) | (_, Some(false)) => Some(false),
                        (Some(true), Some(true)) => Some(true),
                        _ => None,
                    }
                }
            };
        }
        _ => {}
    }
    // term / phrase / prefix / glob
    match class {
        FieldClass::Attr | FieldClass::Reserved => {
            let Some(x) = get(ev, &path) else { return Some(false) };
            let s = string_form(x)?;
            match k {
                "term" | "phrase" => Some(s == v),
                "prefix" => Some(s.starts_with(v)),
                "glob" => glob_ref(v, &s),
                _ => None,
            }
        }
        FieldClass::ReservedTags => {
            let tags = tag_list(ev)?;
            match k {
                "term" | "phrase" => Some(tags.iter().any(|t| t == v)),
                _ => None,
            }
        }
        FieldClass::Tag => {
            let tags = tag_list(ev)?;
            match k {
                "term" | "phrase" => Some(tags.iter().any(|t| *t == format!("{f}:{v}"))),
                "prefix" => Some(tags.iter().any(|t| t.starts_with(&format!("{f}:{v}")))),
                "glob" => {
                    let mut any = Some(false);
                    for t in &tags {
                        match glob_ref(&format!("{f}:{v}"), t) {
                            Some(true) => return Some(true),
                            Some(false) => {}
                            None => any = None,
                        }
                    }
                    any
                }
                _ => None,
            }
        }
        FieldClass::Default => {
            // full text: judged only on word-structured texts and word-structured needles. The bare
            // default field searches `message`, `custom.error.message`, `custom.error.stack` and
            // `custom.title` (documented search path); `message:` only the message.
            let paths: Vec<Vec<&str>> = if f.is_empty() {
                if get(ev, &["_default_"]).is_some() {
                    return None;
                }
                vec![vec!["message"], vec!["custom", "error", "message"], vec!["custom", "error", "stack"], vec!["custom", "title"]]
            } else {
                vec![path.clone()]
            };
            let mut verdict = Some(false);
            for p in &paths {
                let Some(x) = get(ev, p) else { continue };
                match full_text_ref(k, v, x) {
                    Some(true) => return Some(true),
                    Some(false) => {}
                    None => verdict = None,
                }
            }
            verdict
        }
    }
}

fn full_text_ref(k: &str, v: &str, x: &Value) -> Option<bool> {
    let Value::Bytes(b) = x else { return None };
    let msg = std::str::from_utf8(b).ok()?;
    let mw = words(msg)?;
    match k {
        "term" | "phrase" => {
            let nw = words(v)?;
            if nw.is_empty() {
                return None;
            }
            Some(mw.windows(nw.len()).any(|w| w == nw.as_slice()))
        }
        "prefix" => {
            if !is_word(v) {
                return None;
            }
            Some(mw.iter().any(|w| w.starts_with(v)))
        }
        "glob" => {
            if mw.len() != 1 || v.contains('?') || !v.chars().all(|c| c == '*' || c.is_alphanumeric()) {
                return None;
            }
            glob_ref(v, mw[0])
        }
        _ => None,
    }
}

// ---------------------------------------------------------------------------------------------
// leaf enumeration

fn num(t: &str) -> J {
    json!({"t": t})
}
fn st(s: &str) -> J {
    json!({"s": s})
}
fn unb() -> J {
    json!({"u": true})
}

fn leaf_specs(tier: Tier) -> Vec<J> {
    let mut out = vec![
        json!({"k":"all","f":"","v":"*:*"}),
        json!({"k":"all","f":"","v":"*"}),
        json!({"k":"all","f":"","v":"-*:*"}),
        json!({"k":"all","f":"","v":"_default_:*"}),
    ];
    let fields = ["@a", "@b.c", "t", "host", "", "message", "tags", "u"];
    let mut values = vec!["a", "ab", "b", "A", "a b", "10", "9", "1.5", "1.0", "é", "true", "-1", "axb", "a?b", "a*", "null", "a:b", "c", "t"];
    let mut prefixes = vec!["a", "ab", "1", "é", "A", "a ", "-", "b"];
    let mut globs = vec!["a*b", "*b", "*", "a**", "a?b", "?", "*a*", "a*b*", "1*0", "a?", "*?"];
    let mut bounds = vec![
        num("0"), num("1"), num("9"), num("10"), num("-1"), num("5"), num("1.5"), num("1.0"), num("-0.5"),
        num("9007199254740992.0"), num("9007199254740993"), num("9223372036854775807"), num("1E1"),
        st("a"), st("ab"), st("b"), st("10"), st("9"), st("A"), st("é"),
    ];
    if tier.thorough() {
        values.extend(["aa", "ba", "B", "0", "1", "-0.5", "a-b", "a.b", "\"", "\\", "(a)", "false", "9007199254740993"]);
        prefixes.extend(["", "t", "10", "a?", "tr"]);
        globs.extend(["a*?", "??", "*1*", "t*e", "a*a", "**", "*é"]);
        bounds.extend([num("2"), num("100"), num("0.5"), num("-9223372036854775808"), num("9223372036854775808"), st("aa"), st("1.5"), st("true")]);
    }
    for f in fields {
        out.push(json!({"k":"exists","f":f}));
        out.push(json!({"k":"missing","f":f}));
        for v in &values {
            out.push(json!({"k":"term","f":f,"v":v}));
            out.push(json!({"k":"phrase","f":f,"v":v}));
        }
        out.push(json!({"k":"phrase","f":f,"v":""}));
        for p in &prefixes {
            if f.is_empty() && p.is_empty() {
                continue; // `*` alone is the match-all leaf
            }
            out.push(json!({"k":"prefix","f":f,"v":p}));
        }
        for g in &globs {
            if f.is_empty() && *g == "*" {
                continue; // that is the match-all leaf
            }
            out.push(json!({"k":"glob","f":f,"v":g}));
        }
        for op in [">", ">=", "<", "<="] {
            for b in &bounds {
                out.push(json!({"k":"cmp","f":f,"op":op,"b":b}));
            }
        }
        let rb = [unb(), num("1"), num("10"), num("1.5"), num("-1"), num("9007199254740992.0"), st("a"), st("b"), st("ab")];
        for lo in &rb {
            for hi in &rb {
                for (li, ui) in [(true, true), (false, false)] {
                    out.push(json!({"k":"range","f":f,"lo":lo,"hi":hi,"li":li,"ui":ui}));
                }
            }
        }
    }
    out
}

fn leaf_clause(l: &J) -> String {
    let f = l["f"].as_str().unwrap_or("");
    let class = match classify(f).0 {
        FieldClass::Attr => "attribute",
        FieldClass::Tag => "tag",
        FieldClass::Reserved => "reserved",
        FieldClass::ReservedTags => "tags-field",
        FieldClass::Default => "default",
    };
    format!("C31.leaf.{}.{}", l["k"].as_str().unwrap_or("?"), class)
}

/// Events a case runs on: the one named by the witness, else the whole vocabulary.
fn events_of(w: &J) -> Vec<(Value, J)> {
    if w["event"].is_null() { EVENTS.with(|e| e.as_ref().clone()) } else { vec![(vv::dec(&w["event"]), w["event"].clone())] }
}

fn with_event(w: &J, evj: &J) -> J {
    let mut x = w.clone();
    x["event"] = evj.clone();
    x
}

/// One leaf query; run on the event of the witness or, when it names none, on every event.
fn case_leaf(w: &J) -> CaseResult {
    let l = &w["leaf"];
    let q = leaf_text(l);
    let kind = l["k"].as_str().unwrap_or("?").to_string();
    let prog = match compile_query(&q) {
        Compiled::Prog(p) => p,
        Compiled::Rejected => return CaseResult::trivial(&format!("{kind}/rejected")).count("leaf_rejected", 1),
        Compiled::Panic(p) => {
            return CaseResult::trivial(&format!("{kind}/panic")).violation(Violation::new(
                "C31.query-compile-panic",
                w.clone(),
                format!("{q:?} is decided or rejected"),
                p,
            ));
        }
    };
    let mut res = CaseResult::trivial("");
    let (mut judged, mut unjudged, mut trues) = (0u64, 0u64, 0u64);
    for (ev, evj) in events_of(w) {
        match run_compiled(&prog, &ev) {
            M::T(got) => match leaf_ref(l, &ev) {
                Some(want) => {
                    judged += 1;
                    trues += u64::from(got);
                    if got != want {
                        res.violations.push(Violation::new(
                            &leaf_clause(l),
                            with_event(w, &evj),
                            format!("match_datadog_query(event, {q:?}) == {want} (reference evaluator)"),
                            format!("{got}"),
                        ));
                    }
                }
                None => {
                    unjudged += 1;
                    if kind == "glob" && l["v"].as_str().is_some_and(|g| g.contains('?')) {
                        res.counters.push(("glob_qmark_interpretations_disagree", 1));
                    }
                }
            },
            M::Panic(p) => res.violations.push(Violation::new("C31.panic", with_event(w, &evj), format!("{q:?} yields a boolean"), p)),
            o => res.violations.push(Violation::new("C31.not-a-decision", with_event(w, &evj), format!("{q:?} yields a boolean"), format!("{o:?}"))),
        }
    }
    res.nontrivial = judged > 0;
    res.class = format!(
        "{kind}/{}",
        if judged == 0 { "unjudged" } else if trues == 0 { "never-true" } else if trues == judged { "always-true" } else { "both" }
    );
    res.count("leaf_judged", judged).count("leaf_unjudged", unjudged)
}

// ---------------------------------------------------------------------------------------------
// compositions

struct Template {
    text: &'static str,
    arity: usize,
    f: fn(&[bool]) -> bool,
}

const TEMPLATES: &[Template] = &[
    Template { text: "NOT $1", arity: 1, f: |x| !x[0] },
    Template { text: "-$1", arity: 1, f: |x| !x[0] },
    Template { text: "NOT ($1)", arity: 1, f: |x| !x[0] },
    Template { text: "-($1)", arity: 1, f: |x| !x[0] },
    Template { text: "+$1", arity: 1, f: |x| x[0] },
    Template { text: "($1)", arity: 1, f: |x| x[0] },
    Template { text: "(($1))", arity: 1, f: |x| x[0] },
    Template { text: "NOT (NOT $1)", arity: 1, f: |x| x[0] },
    Template { text: "-(-$1)", arity: 1, f: |x| x[0] },
    Template { text: "NOT (-(NOT $1))", arity: 1, f: |x| !x[0] },
    Template { text: " $1 ", arity: 1, f: |x| x[0] },
    Template { text: "$1 AND $2", arity: 2, f: |x| x[0] && x[1] },
    Template { text: "$1 && $2", arity: 2, f: |x| x[0] && x[1] },
    Template { text: "$1 $2", arity: 2, f: |x| x[0] && x[1] },
    Template { text: "$1 OR $2", arity: 2, f: |x| x[0] || x[1] },
    Template { text: "$1 || $2", arity: 2, f: |x| x[0] || x[1] },
    Template { text: "($1) AND ($2)", arity: 2, f: |x| x[0] && x[1] },
    Template { text: "($1 OR $2)", arity: 2, f: |x| x[0] || x[1] },
    Template { text: "($1 $2)", arity: 2, f: |x| x[0] && x[1] },
    Template { text: "NOT $1 AND $2", arity: 2, f: |x| !x[0] && x[1] },
    Template { text: "NOT $1 OR $2", arity: 2, f: |x| !x[0] || x[1] },
    Template { text: "$1 AND NOT $2", arity: 2, f: |x| x[0] && !x[1] },
    Template { text: "$1 OR NOT $2", arity: 2, f: |x| x[0] || !x[1] },
    Template { text: "$1 OR -$2", arity: 2, f: |x| x[0] || !x[1] },
    Template { text: "$1 -$2", arity: 2, f: |x| x[0] && !x[1] },
    Template { text: "-$1 -$2", arity: 2, f: |x| !x[0] && !x[1] },
    Template { text: "-$1 $2", arity: 2, f: |x| !x[0] && x[1] },
    Template { text: "+$1 +$2", arity: 2, f: |x| x[0] && x[1] },
    Template { text: "NOT ($1 AND $2)", arity: 2, f: |x| !(x[0] && x[1]) },
    Template { text: "NOT ($1 OR $2)", arity: 2, f: |x| !(x[0] || x[1]) },
    Template { text: "-($1 $2)", arity: 2, f: |x| !(x[0] && x[1]) },
    Template { text: "-($1 OR -$2)", arity: 2, f: |x| !(x[0] || !x[1]) },
    Template { text: "$1 OR $2 AND $3", arity: 3, f: |x| x[0] || (x[1] && x[2]) },
    Template { text: "$1 AND $2 OR $3", arity: 3, f: |x| (x[0] && x[1]) || x[2] },
    Template { text: "$1 || $2 && $3", arity: 3, f: |x| x[0] || (x[1] && x[2]) },
    Template { text: "$1 OR $2 $3", arity: 3, f: |x| x[0] || (x[1] && x[2]) },
    Template { text: "$1 $2 OR $3", arity: 3, f: |x| (x[0] && x[1]) || x[2] },
    Template { text: "($1 OR $2) AND $3", arity: 3, f: |x| (x[0] || x[1]) && x[2] },
    Template { text: "$1 AND ($2 OR $3)", arity: 3, f: |x| x[0] && (x[1] || x[2]) },
    Template { text: "($1 OR $2) $3", arity: 3, f: |x| (x[0] || x[1]) && x[2] },
    Template { text: "$1 AND $2 AND $3", arity: 3, f: |x| x[0] && x[1] && x[2] },
    Template { text: "$1 OR $2 OR $3", arity: 3, f: |x| x[0] || x[1] || x[2] },
    Template { text: "NOT ($1 OR $2) AND $3", arity: 3, f: |x| !(x[0] || x[1]) && x[2] },
    Template { text: "NOT $1 OR $2 AND NOT $3", arity: 3, f: |x| !x[0] || (x[1] && !x[2]) },
    Template { text: "-$1 OR -($2 AND $3)", arity: 3, f: |x| !x[0] || !(x[1] && x[2]) },
    Template { text: "(($1 OR $2) AND $3) OR NOT $1", arity: 3, f: |x| ((x[0] || x[1]) && x[2]) || !x[0] },
    Template { text: "$1 AND NOT ($2 AND NOT $3)", arity: 3, f: |x| x[0] && !(x[1] && !x[2]) },
    Template { text: "$1 -$2 $3", arity: 3, f: |x| x[0] && !x[1] && x[2] },
];

/// Field-scoped group templates: `$f` is the field text, `$1`, `$2` value texts (without field);
/// the leaves the formula is applied to are `$f:$1`, `$f:$2`.
const SCOPED: &[Template] = &[
    Template { text: "$f:($1)", arity: 1, f: |x| x[0] },
    Template { text: "-$f:($1)", arity: 1, f: |x| !x[0] },
    Template { text: "$f:($1 OR $2)", arity: 2, f: |x| x[0] || x[1] },
    Template { text: "$f:($1 AND $2)", arity: 2, f: |x| x[0] && x[1] },
    Template { text: "$f:($1 || $2)", arity: 2, f: |x| x[0] || x[1] },
    Template { text: "NOT $f:($1 OR $2)", arity: 2, f: |x| !(x[0] || x[1]) },
    Template { text: "$f:($1 AND NOT $2)", arity: 2, f: |x| x[0] && !x[1] },
    Template { text: "$f:($1 -$2)", arity: 2, f: |x| x[0] && !x[1] },
    Template { text: "$f:(NOT $1 OR $2)", arity: 2, f: |x| !x[0] || x[1] },
    Template { text: "$f:(($1) OR ($2))", arity: 2, f: |x| x[0] || x[1] },
];

const COMPOSE_LEAVES: &[&str] = &[
    "*:*", "-*:*", "*", "_exists_:@a", "_missing_:@a", "_exists_:t", "_missing_:u", "@a:a", "@a:\"a b\"", "@a:a*", "@a:a*b",
    "@a:>5", "@a:<=1.5", "@a:[1 TO 10]", "@a:{a TO b}", "@a:10", "@b.c:ab", "t:a", "t:a*", "t:>5", "t:[a TO b]", "u:b",
    "host:a", "host:a*", "a", "b", "\"a b\"", "a*", "message:a", "tags:t", "custom.title:a", ">5", "_exists_:message", "ab",
];

/// Values usable inside a field-scoped group.
const SCOPED_VALUES: &[&str] = &["a", "ab", "\"a b\"", "a*", "a*b", ">5", "<=a", "[1 TO 10]", "{a TO b}", "10", "*"];
const SCOPED_FIELDS: &[&str] = &["@a", "t", "host", "message", "@b.c"];

/// A text that the grammar reads as a bare default-field TERM (these merge into a multi-word term
/// when juxtaposed, which is not a conjunction).
fn may_be_bare_term(t: &str) -> bool {
    let mut esc = false;
    for c in t.chars() {
        if esc {
            esc = false;
            continue;
        }
        match c {
            '\\' => esc = true,
            ':' | '"' | '*' | '?' | '(' | ')' | '[' | ']' | '{' | '}' | '<' | '>' | ' ' => return false,
            _ => {}
        }
    }
    !t.starts_with('-') && !t.starts_with('+')
}

/// Positions `$i $j` juxtaposed without an operator in the template where both fillers may be bare terms.
fn has_bare_juxtaposition(tpl: &str, leaves: &[&str]) -> bool {
    let toks: Vec<&str> = tpl.split(' ').filter(|s| !s.is_empty()).collect();
    let bare = |tok: &str| -> Option<bool> {
        let k: usize = tok.strip_prefix('$')?.parse().ok()?;
        Some(may_be_bare_term(leaves.get(k - 1)?))
    };
    // left neighbour: `$k` possibly after opening parentheses / a field-group opener; right
    // neighbour: `$k` possibly before closing parentheses. A modifier or a parenthesis in between
    // separates the two terms.
    let left = |tok: &str| bare(tok.rsplit('(').next().unwrap_or(tok));
    let right = |tok: &str| bare(tok.trim_end_matches(')'));
    toks.windows(2).any(|w| left(w[0]) == Some(true) && right(w[1]) == Some(true))
}

fn fill(tpl: &str, field: Option<&str>, parts: &[&str]) -> String {
    let mut s = tpl.to_string();
    if let Some(f) = field {
        s = s.replace("$f", f);
    }
    for (k, p) in parts.iter().enumerate().rev() {
        s = s.replace(&format!("${}", k + 1), p);
    }
    s
}

fn find_template(set: &'static [Template], text: &str) -> Option<&'static Template> {
    set.iter().find(|t| t.text == text)
}

thread_local! {
    static EVENTS: std::rc::Rc<Vec<(Value, J)>> = std::rc::Rc::new(events().into_iter().map(|e| { let j = vv::enc(&e); (e, j) }).collect());
}

enum Compiled {
    Prog(std::rc::Rc<vrl::compiler::Program>),
    Rejected,
    Panic(String),
}

fn compile_query(q: &str) -> Compiled {
    let src = program(q);
    match law::prog(&src) {
        Some(p) => Compiled::Prog(p),
        None => {
            let why = law::why_rejected(&src);
            if why.starts_with("panic") { Compiled::Panic(why) } else { Compiled::Rejected }
        }
    }
}

fn run_compiled(p: &vrl::compiler::Program, ev: &Value) -> M {
    let mut t = crate::vrlx::target(ev.clone(), crate::vrlx::empty_object());
    let tz = crate::vrlx::utc();
    match crate::util::guarded(|| crate::vrlx::run_runtime(p, &mut t, &tz)) {
        Ok(Outcome::Ok(Value::Boolean(b))) => M::T(b),
        Ok(o) => M::Other(o.show()),
        Err(p) => M::Panic(format!("panic: {p}")),
    }
}

/// One composition = one (template, leaves) tuple; it is run on the event of the witness, or —
/// when the witness names none — on every event of the vocabulary (violations then carry the event).
fn case_compose(w: &J) -> CaseResult {
    let scoped = w["law"] == "scoped";
    let tpl_text = w["template"].as_str().unwrap_or("");
    let Some(tpl) = find_template(if scoped { SCOPED } else { TEMPLATES }, tpl_text) else {
        panic!("unknown template {tpl_text}")
    };
    let parts: Vec<&str> = w["parts"].as_array().map(|a| a.iter().filter_map(J::as_str).collect()).unwrap_or_default();
    let field = w["field"].as_str();
    if parts.len() != tpl.arity {
        panic!("arity mismatch");
    }
    if has_bare_juxtaposition(tpl.text, &parts) {
        return CaseResult::trivial("skipped/multiterm").count("compose_skipped_multiterm", 1);
    }
    let leaves: Vec<String> = match field {
        Some(f) if scoped => parts.iter().map(|p| format!("{f}:{p}")).collect(),
        _ => parts.iter().map(|p| (*p).to_string()).collect(),
    };
    let mut leaf_progs = Vec::new();
    for l in &leaves {
        match compile_query(l) {
            Compiled::Prog(p) => leaf_progs.push(p),
            _ => return CaseResult::trivial("skipped/leaf-rejected").count("compose_leaf_rejected", 1),
        }
    }
    let q = fill(tpl.text, field, &parts);
    let prog = match compile_query(&q) {
        Compiled::Prog(p) => p,
        Compiled::Rejected => return CaseResult::trivial("skipped/composite-rejected").count("compose_composite_rejected", 1),
        Compiled::Panic(p) => {
            return CaseResult::trivial("panic").violation(Violation::new(
                "C31.query-compile-panic",
                w.clone(),
                format!("{q:?} is decided or rejected"),
                p,
            ));
        }
    };
    let single: Option<(Value, J)> = if w["event"].is_null() { None } else { Some((vv::dec(&w["event"]), w["event"].clone())) };
    let all = EVENTS.with(std::rc::Rc::clone);
    let evs: &[(Value, J)] = match &single {
        Some(e) => std::slice::from_ref(e),
        None => all.as_slice(),
    };
    let mut res = CaseResult::ok("");
    let mut vectors: std::collections::BTreeSet<String> = std::collections::BTreeSet::new();
    let mut judged = 0;
    for (ev, evj) in evs {
        let mut vals = Vec::new();
        for p in &leaf_progs {
            match run_compiled(p, ev) {
                M::T(b) => vals.push(b),
                _ => break,
            }
        }
        if vals.len() != leaf_progs.len() {
            continue;
        }
        let witness = || {
            let mut x = w.clone();
            x["event"] = evj.clone();
            x
        };
        match run_compiled(&prog, ev) {
            M::T(got) => {
                judged += 1;
                let want = (tpl.f)(&vals);
                vectors.insert(vals.iter().map(|b| if *b { '1' } else { '0' }).collect());
                if got != want {
                    res.violations.push(Violation::new(
                        if scoped { "C31.compose.field-group" } else { "C31.compose.boolean" },
                        witness(),
                        format!("m({q:?}) == {want}: formula over the leaf results {leaves:?} = {vals:?}"),
                        format!("{got}"),
                    ));
                }
            }
            M::Panic(p) => res.violations.push(Violation::new("C31.panic", witness(), format!("{q:?} yields a boolean"), p)),
            o => res.violations.push(Violation::new("C31.not-a-decision", witness(), format!("{q:?} yields a boolean"), format!("{o:?}"))),
        }
    }
    res.class = format!("{}/{}", tpl.text, vectors.into_iter().collect::<Vec<_>>().join(","));
    res.count("compose_judged", judged)
}

// ---------------------------------------------------------------------------------------------
// range = conjunction of its bounds

const RANGE_FIELDS: &[&str] = &["@a", "@b.c", "t", "host", "message", ""];
const RANGE_BOUNDS: &[&str] = &["*", "1", "10", "1.5", "-1", "9", "a", "b", "ab", "9007199254740993"];
const BRACKETS: &[(&str, &str)] = &[("[", "]"), ("{", "}"), ("[", "}"), ("{", "]")];

/// One range query; run on the event of the witness or, when it names none, on every event.
fn case_range(w: &J) -> CaseResult {
    let f = w["f"].as_str().unwrap_or("");
    let lo = w["lo"].as_str().unwrap_or("*");
    let hi = w["hi"].as_str().unwrap_or("*");
    let lb = w["lb"].as_str().unwrap_or("[");
    let rb = w["rb"].as_str().unwrap_or("]");
    let q = with_field(f, &format!("{lb}{lo} TO {hi}{rb}"));
    let prog = match compile_query(&q) {
        Compiled::Prog(p) => p,
        Compiled::Rejected => return CaseResult::trivial("range/rejected").count("range_rejected", 1),
        Compiled::Panic(p) => {
            return CaseResult::trivial("range/panic").violation(Violation::new(
                "C31.query-compile-panic",
                w.clone(),
                format!(
                    "{q:?} is decided (lower bound {} and upper bound {}) or rejected",
                    if lb == "[" { "inclusive" } else { "exclusive" },
                    if rb == "]" { "inclusive" } else { "exclusive" }
                ),
                p,
            ));
        }
    };
    let mut parts: Vec<String> = Vec::new();
    if lo != "*" {
        parts.push(with_field(f, &format!("{}{lo}", if lb == "[" { ">=" } else { ">" })));
    }
    if hi != "*" {
        parts.push(with_field(f, &format!("{}{hi}", if rb == "]" { "<=" } else { "<" })));
    }
    let unbounded = parts.is_empty();
    if unbounded {
        if f.is_empty() {
            return CaseResult::trivial("range/unjudged").count("range_unjudged", 1);
        }
        parts.push(format!("_exists_:{f}"));
    }
    let mut part_progs = Vec::new();
    for p in &parts {
        match compile_query(p) {
            Compiled::Prog(p) => part_progs.push(p),
            _ => return CaseResult::trivial("range/bound-rejected").count("range_bound_rejected", 1),
        }
    }
    let mut res = CaseResult::trivial("");
    let (mut judged, mut unjudged, mut trues) = (0u64, 0u64, 0u64);
    for (ev, evj) in events_of(w) {
        // The bare default field stands for several event fields: a range holds when ONE of them
        // satisfies both bounds, which two independent comparisons do not express.
        if f.is_empty() && !unbounded && (get(&ev, &["custom"]).is_some() || get(&ev, &["_default_"]).is_some()) {
            unjudged += 1;
            continue;
        }
        // Tags: likewise when the event has several `key:value` tags.
        if classify(f).0 == FieldClass::Tag && !unbounded && parts.len() == 2 {
            let n = tag_list(&ev).map(|t| t.iter().filter(|t| t.contains(':')).count()).unwrap_or(2);
            if n > 1 {
                unjudged += 1;
                continue;
            }
        }
        let M::T(got) = run_compiled(&prog, &ev) else {
            res.violations.push(Violation::new("C31.not-a-decision", with_event(w, &evj), format!("{q:?} yields a boolean"), "no boolean"));
            continue;
        };
        let vals: Vec<bool> = part_progs.iter().filter_map(|p| if let M::T(b) = run_compiled(p, &ev) { Some(b) } else { None }).collect();
        if vals.len() != part_progs.len() {
            unjudged += 1;
            continue;
        }
        judged += 1;
        trues += u64::from(got);
        let want = vals.iter().all(|b| *b);
        if got != want {
            res.violations.push(Violation::new(
                if unbounded { "C31.range.unbounded-is-exists" } else { "C31.range.both-bounds" },
                with_event(w, &evj),
                format!("m({q:?}) == {want}: conjunction of {parts:?} = {vals:?}"),
                format!("{got}"),
            ));
        }
    }
    res.nontrivial = judged > 0;
    res.class = format!("range/{}/{}", parts.len(), if trues == 0 { "never-true" } else if trues == judged { "always-true" } else { "both" });
    res.count("range_judged", judged).count("range_unjudged", unjudged)
}

// ---------------------------------------------------------------------------------------------

fn case(w: &J) -> CaseResult {
    match w["law"].as_str().unwrap_or("") {
        "leaf" => case_leaf(w),
        "compose" | "scoped" => case_compose(w),
        "range" => case_range(w),
        l => panic!("unknown law {l}"),
    }
}

pub fn run(tier: Tier) -> Report {
    let mut rep = Report::new("C31", tier, "exploration");
    let ne = events().len() as u64;

    // (ii) leaves × events against the reference evaluator
    let leaves = leaf_specs(tier);
    let nl = leaves.len() as u64;
    law::drive_indexed(&mut rep, "leaf", nl, |i| json!({"law":"leaf","leaf":leaves[i as usize]}), case);

    // (i) compositions
    for arity in 1..=3usize {
        let tpls: Vec<&Template> = TEMPLATES.iter().filter(|t| t.arity == arity).collect();
        let pool: Vec<&str> = if arity == 3 && !tier.thorough() {
            // a sub-vocabulary with all kinds of truth vectors
            vec![
                "*:*", "_exists_:@a", "@a:a", "@a:>5", "t:a", "t:>5", "host:a*", "a", "b", "\"a b\"", "_missing_:u", "a*", "@a:[1 TO 10]",
            ]
        } else {
            COMPOSE_LEAVES.to_vec()
        };
        let np = pool.len() as u64;
        let mut dims: Vec<u64> = std::iter::repeat_n(np, arity).collect();
        dims.push(tpls.len() as u64);
        let n = product(&dims);
        law::drive_indexed(
            &mut rep,
            &format!("compose{arity}"),
            n,
            |i| {
                let c = unrank(i, &dims);
                let parts: Vec<&str> = c[..arity].iter().map(|&k| pool[k]).collect();
                json!({"law":"compose","template":tpls[c[arity]].text,"parts":parts})
            },
            case,
        );
    }
    for arity in 1..=2usize {
        let tpls: Vec<&Template> = SCOPED.iter().filter(|t| t.arity == arity).collect();
        let nv = SCOPED_VALUES.len() as u64;
        let mut dims: Vec<u64> = std::iter::repeat_n(nv, arity).collect();
        dims.push(SCOPED_FIELDS.len() as u64);
        dims.push(tpls.len() as u64);
        let n = product(&dims);
        law::drive_indexed(
            &mut rep,
            &format!("scoped{arity}"),
            n,
            |i| {
                let c = unrank(i, &dims);
                let parts: Vec<&str> = c[..arity].iter().map(|&k| SCOPED_VALUES[k]).collect();
                json!({"law":"scoped","template":tpls[c[arity + 1]].text,"field":SCOPED_FIELDS[c[arity]],"parts":parts})
            },
            case,
        );
    }

    // (iii) ranges
    {
        let dims = [RANGE_BOUNDS.len() as u64, RANGE_BOUNDS.len() as u64, BRACKETS.len() as u64, RANGE_FIELDS.len() as u64];
        let n = product(&dims);
        law::drive_indexed(
            &mut rep,
            "range",
            n,
            |i| {
                let c = unrank(i, &dims);
                let (lb, rb) = BRACKETS[c[2]];
                // mixed brackets are known to panic while the query is compiled: a few bound pairs are enough
                if (lb == "[") != (rb == "]") && (c[0] > 2 || c[1] > 2) {
                    return J::Null;
                }
                json!({"law":"range","f":RANGE_FIELDS[c[3]],"lo":RANGE_BOUNDS[c[0]],"hi":RANGE_BOUNDS[c[1]],"lb":lb,"rb":rb})
            },
            case,
        );
    }

    rep.set(
        "rule",
        format!(
            "Every query is one evaluation and is run on all {ne} events ((query, event) pairs are counted in leaf_judged / compose_judged / range_judged). \
             leaf: {nl} leaf queries (8 fields x exists/missing/term/phrase/prefix/wildcard/comparison/range value vocabularies), \
             judged against the reference evaluator (non-trivial = the reference fixes a verdict for some event); compose: every template ({} boolean, {} field-group) \
             x all leaf tuples from a {}-leaf pool (13 for ternary templates in the quick tier) (one evaluation = one tuple, run on all {ne} events; the (query, event) pairs are counted in compose_judged; non-trivial = all leaves and the composite compiled and were run); \
             range: {} fields x {}^2 bounds x 4 bracket forms",
            TEMPLATES.len(),
            SCOPED.len(),
            COMPOSE_LEAVES.len(),
            RANGE_FIELDS.len(),
            RANGE_BOUNDS.len()
        ),
    );
    rep.set("events", ne);
    rep.set("leaf_queries", nl);
    rep.assume("composition laws trust match_datadog_query on the leaf texts themselves; the leaf law judges those against the reference");
    rep.assume("unjudged by the reference (counted only): null / array / object attribute values, integral floats as text, numbers against string bounds and strings against numeric bounds, comparisons on reserved fields with numbers, the default (full-text) fields outside word-structured texts and needles, `?` in wildcards where 'any single character' and 'literal ?' disagree");
    rep.assume("adjacent bare default-field terms form one multi-word term, not a conjunction: such compositions are skipped (counted)");
    rep
}

pub fn replay(_property: &str, w: &J) -> Vec<Violation> {
    case(w).violations
}
