//! C18 — get/insert/remove laws of `Value` paths, explored as an explicit-state machine:
//! state = value tree, actions = insert(p, x) / remove(p, prune) through `TargetValue`
//! (event and metadata prefix), invariant = the four laws evaluated on every transition.

use crate::explore::{self, BfsStats};
use crate::model::tree::{self, Path, Seg};
use crate::report::{Report, Tier, Violation};
use crate::util::guarded;
use crate::vv;
use serde_json::{Value as J, json};
use std::collections::BTreeSet;
use vrl::compiler::{Target, TargetValue};
use vrl::path::{OwnedTargetPath, PathPrefix};
use vrl::value::{Secrets, Value};

#[derive(Clone, Debug)]
pub enum Action {
    Insert(Path, Value),
    Remove(Path, bool),
}

fn segs() -> Vec<Seg> {
    vec![
        Seg::F("a".into()),
        Seg::F("b".into()),
        Seg::F("a.b".into()),
        Seg::I(0),
        Seg::I(1),
        Seg::I(3),
        Seg::I(-1),
        Seg::I(-2),
        // far enough before the start of the seed arrays that null padding is needed in between
        Seg::I(-3),
        Seg::I(-5),
    ]
}

pub fn paths(max_len: usize) -> Vec<Path> {
    let s = segs();
    let mut out: Vec<Path> = vec![vec![]];
    let mut level: Vec<Path> = vec![vec![]];
    for _ in 0..max_len {
        let mut next = Vec::new();
        for p in &level {
            for seg in &s {
                let mut q = p.clone();
                q.push(seg.clone());
                next.push(q);
            }
        }
        out.extend(next.iter().cloned());
        level = next;
    }
    out
}

fn inserted_values() -> Vec<Value> {
    use vv::{arr, i, obj, s};
    vec![i(7), s("x"), obj(&[("k", i(1))]), arr(&[i(9)]), Value::Null]
}

fn seeds() -> Vec<Value> {
    use vv::{arr, i, obj, s};
    vec![
        Value::Null,
        i(5),
        s("s"),
        obj(&[]),
        arr(&[]),
        obj(&[("a", i(1))]),
        obj(&[("a", obj(&[("b", arr(&[i(1), i(2)]))]))]),
        arr(&[i(1), arr(&[i(2)]), obj(&[("a", i(3))])]),
        obj(&[("a.b", i(1)), ("a", obj(&[("b", i(2))]))]),
        obj(&[("a", arr(&[i(1), i(2), i(3)])), ("b", obj(&[("a", obj(&[]))]))]),
    ]
}

pub fn actions(max_len: usize) -> Vec<Action> {
    let mut out = Vec::new();
    for p in paths(max_len) {
        for x in inserted_values() {
            out.push(Action::Insert(p.clone(), x));
        }
        out.push(Action::Remove(p.clone(), false));
        out.push(Action::Remove(p, true));
    }
    out
}

fn action_json(a: &Action) -> J {
    match a {
        Action::Insert(p, x) => json!({"op": "insert", "path": path_json(p), "value": vv::enc(x)}),
        Action::Remove(p, prune) => json!({"op": "remove", "path": path_json(p), "prune": prune}),
    }
}

fn path_json(p: &[Seg]) -> J {
    J::Array(p.iter().map(|s| match s { Seg::F(f) => json!(f), Seg::I(i) => json!(i) }).collect())
}

fn path_from_json(j: &J) -> Path {
    j.as_array().map(|a| a.iter().map(|s| if let Some(i) = s.as_i64() { Seg::I(i) } else { Seg::F(s.as_str().unwrap_or("").to_string()) }).collect()).unwrap_or_default()
}

fn action_from_json(j: &J) -> Action {
    let p = path_from_json(&j["path"]);
    if j["op"] == "insert" { Action::Insert(p, vv::dec(&j["value"])) } else { Action::Remove(p, j["prune"].as_bool().unwrap_or(false)) }
}

fn is_container_for(v: &Value, seg: &Seg) -> bool {
    matches!((v, seg), (Value::Object(_), Seg::F(_)) | (Value::Array(_), Seg::I(_)))
}

/// The frame of an insertion: (root of the affected region, post-locations that are documented
/// padding and therefore not judged).
fn insert_frame(pre: &Value, p: &[Seg]) -> (Path, Vec<Path>) {
    let (c, n) = tree::resolve(pre, p);
    if n == p.len() {
        return (c, vec![]);
    }
    let node = tree::get(pre, &c).expect("resolved prefix exists");
    let seg = &p[n];
    if !is_container_for(node, seg) {
        // a scalar or a container of the other type in the way is replaced as a whole
        return (c, vec![]);
    }
    match (node, seg) {
        (Value::Object(_), Seg::F(_)) => {
            let mut r = c;
            r.push(seg.clone());
            (r, vec![])
        }
        (Value::Array(a), Seg::I(i)) if *i >= 0 => {
            // positive index beyond the end: null padding between len and i
            let mut pads = Vec::new();
            for j in a.len() as i64..*i {
                let mut q = c.clone();
                q.push(Seg::I(j));
                pads.push(q);
            }
            let mut r = c;
            r.push(Seg::I(*i));
            (r, pads)
        }
        // negative index before the start: the whole array is re-indexed
        _ => (c, vec![]),
    }
}

#[derive(Default)]
pub struct Acc {
    pub violations: Vec<Violation>,
    pub classes: BTreeSet<String>,
    pub law_checks: u64,
}

fn tp(prefix: PathPrefix, p: &[Seg]) -> OwnedTargetPath {
    OwnedTargetPath { prefix, path: tree::to_owned_path(p) }
}

/// Apply one action to `pre` through the real code and evaluate the laws. Returns the successor.
pub fn step(pre: &Value, a: &Action, prefix: PathPrefix, acc: &mut Acc) -> Option<Value> {
    let w = || json!({"value": vv::enc(pre), "action": action_json(a), "prefix": if prefix == PathPrefix::Event { "event" } else { "metadata" }});
    let mk = |v: Value| match prefix {
        PathPrefix::Event => TargetValue { value: v, metadata: Value::Null, secrets: Secrets::default() },
        PathPrefix::Metadata => TargetValue { value: Value::Null, metadata: v, secrets: Secrets::default() },
    };
    let out = |t: TargetValue| match prefix {
        PathPrefix::Event => (t.value, t.metadata),
        PathPrefix::Metadata => (t.metadata, t.value),
    };
    match a {
        Action::Insert(p, x) => {
            let path = tp(prefix, p);
            let r = guarded(|| {
                let mut t = mk(pre.clone());
                t.target_insert(&path, x.clone()).expect("TargetValue insert is infallible");
                let got = t.target_get(&path).expect("get").cloned();
                let got_mut = t.target_get_mut(&path).expect("get_mut").cloned();
                (got, got_mut, out(t))
            });
            let (got, got_mut, (post, other)) = match r {
                Ok(x) => x,
                Err(panic) => {
                    acc.violations.push(Violation::new("C18.panic", w(), "no panic", panic));
                    return None;
                }
            };
            acc.law_checks += 1;
            if got.as_ref() != Some(x) {
                acc.violations.push(Violation::new("C18.L1-get-after-insert", w(), vv::show(x), got.as_ref().map_or("nothing".into(), vv::show)));
            }
            if got_mut != got {
                acc.violations.push(Violation::new("C18.get_mut-agrees-with-get", w(), format!("{:?}", got.as_ref().map(vv::show)), format!("{:?}", got_mut.as_ref().map(vv::show))));
            }
            if other != Value::Null {
                acc.violations.push(Violation::new("C18.L2-other-prefix-untouched", w(), "null", vv::show(&other)));
            }
            // L2 frame
            let (root, pads) = insert_frame(pre, p);
            let mut locs: BTreeSet<Path> = tree::locations(pre).into_iter().collect();
            locs.extend(tree::locations(&post));
            let mut compared = 0u32;
            for q in locs {
                if tree::is_prefix(&q, &root) || tree::is_prefix(&root, &q) {
                    continue;
                }
                if pads.iter().any(|pad| tree::is_prefix(pad, &q)) {
                    continue;
                }
                compared += 1;
                let (b, af) = (tree::get(pre, &q), tree::get(&post, &q));
                if b != af {
                    acc.violations.push(Violation::new(
                        "C18.L2-frame",
                        w(),
                        format!("{} unchanged: {}", tree::show_path(&q), b.map_or("absent".into(), vv::show)),
                        af.map_or("absent".into(), vv::show),
                    ));
                    break;
                }
            }
            // L2 for an insertion at a negative index before the start of an existing array: the array is
            // extended at the FRONT, so every old element keeps its place counted from the end — the
            // locations `[-1] … [-len]` neither contain nor are contained in the path and stay unchanged.
            {
                let (c, n) = tree::resolve(pre, p);
                if n < p.len() {
                    if let (Some(Value::Array(old)), Seg::I(i)) = (tree::get(pre, &c), &p[n]) {
                        if *i < 0 && (i.unsigned_abs() as usize) > old.len() {
                            for k in 1..=old.len() as i64 {
                                let mut q = c.clone();
                                q.push(Seg::I(-k));
                                let (b, af) = (tree::get(pre, &q), tree::get(&post, &q));
                                if b != af {
                                    acc.violations.push(Violation::new(
                                        "C18.L2-frame-from-the-end",
                                        w(),
                                        format!("{} unchanged: {}", tree::show_path(&q), b.map_or("absent".into(), vv::show)),
                                        af.map_or("absent".into(), vv::show),
                                    ));
                                    break;
                                }
                            }
                            acc.classes.insert("insert:front-extension".into());
                        }
                    }
                }
            }
            acc.classes.insert(format!("insert:len{}:frame{}:{}", p.len(), compared.min(3), if tree::resolve(pre, p).1 == p.len() { "existing" } else { "creating" }));
            Some(post)
        }
        Action::Remove(p, prune) => {
            let path = tp(prefix, p);
            let r = guarded(|| {
                let t0 = mk(pre.clone());
                let before = t0.target_get(&path).expect("get").cloned();
                let mut t = mk(pre.clone());
                let removed = t.target_remove(&path, *prune).expect("TargetValue remove is infallible");
                (before, removed, out(t))
            });
            let (before, removed, (post, other)) = match r {
                Ok(x) => x,
                Err(panic) => {
                    acc.violations.push(Violation::new("C18.panic", w(), "no panic", panic));
                    return None;
                }
            };
            acc.law_checks += 1;
            if removed != before {
                acc.violations.push(Violation::new(
                    "C18.L3-remove-returns-get",
                    w(),
                    before.as_ref().map_or("nothing".into(), vv::show),
                    removed.as_ref().map_or("nothing".into(), vv::show),
                ));
            }
            if other != Value::Null {
                acc.violations.push(Violation::new("C18.L2-other-prefix-untouched", w(), "null", vv::show(&other)));
            }
            // reading agrees with the reference model (negative indices count from the end,
            // nothing is found through a missing key / out-of-range index / non-container)
            let model_before = tree::get(pre, p).cloned();
            if before != model_before {
                acc.violations.push(Violation::new(
                    "C18.get-reference",
                    w(),
                    model_before.as_ref().map_or("nothing".into(), vv::show),
                    before.as_ref().map_or("nothing".into(), vv::show),
                ));
            }
            // L4: through a non-container
            let (c, n) = tree::resolve(pre, p);
            let through_non_container = n < p.len() && !is_container_for(tree::get(pre, &c).expect("prefix"), &p[n]);
            if through_non_container {
                if before.is_some() || removed.is_some() {
                    acc.violations.push(Violation::new("C18.L4-through-non-container-finds-nothing", w(), "nothing", format!("get {:?} remove {:?}", before.as_ref().map(vv::show), removed.as_ref().map(vv::show))));
                }
                if &post != pre {
                    acc.violations.push(Violation::new("C18.L4-remove-through-non-container-leaves-value", w(), vv::show(pre), vv::show(&post)));
                }
            }
            if removed.is_none() && &post != pre {
                acc.violations.push(Violation::new("C18.L3-nothing-removed-but-changed", w(), vv::show(pre), vv::show(&post)));
            }
            if removed.is_some() && !p.is_empty() {
                // the removed location no longer holds the removed element, unless the array
                // shifted a sibling into place
                // (pruning may shift array siblings, so the path may denote another element then)
                let last_is_index = matches!(p.last(), Some(Seg::I(_)));
                let any_index = p.iter().any(|s| matches!(s, Seg::I(_)));
                if !last_is_index && (!*prune || !any_index) && tree::get(&post, p).is_some() {
                    acc.violations.push(Violation::new("C18.L3-field-still-present-after-remove", w(), "absent", "present"));
                }
            }
            acc.classes.insert(format!("remove:len{}:{}:{}", p.len(), if removed.is_some() { "hit" } else if through_non_container { "non-container" } else { "miss" }, prune));
            Some(post)
        }
    }
}

pub fn run(tier: Tier) -> Report {
    let mut rep = Report::new("C18", tier, "model_checking");
    // two passes: (path length, depth)
    let passes: Vec<(usize, u32)> = if tier.thorough() { vec![(2, 3), (3, 2)] } else { vec![(2, 2), (3, 1)] };
    let mut total = BfsStats::default();
    let mut classes = BTreeSet::new();
    let mut law_checks = 0u64;
    let mut violations: Vec<Violation> = Vec::new();
    for (plen, depth) in passes {
        let acts = actions(plen);
        let n_act = acts.len() as u64 * 2; // × {event, metadata}
        let stats = explore::bfs(
            seeds(),
            |v: &Value| vv::show(v),
            n_act,
            depth,
            3_000_000,
            Acc::default,
            |s, ai, _d, acc| {
                let a = &acts[(ai / 2) as usize];
                let prefix = if ai % 2 == 0 { PathPrefix::Event } else { PathPrefix::Metadata };
                step(s, a, prefix, acc)
            },
            |acc| {
                classes.extend(acc.classes);
                law_checks += acc.law_checks;
                violations.extend(acc.violations);
            },
        );
        rep.notes.push(format!("pass path_len≤{plen} depth {depth}: {stats:?}"));
        total.states += stats.states;
        total.transitions += stats.transitions;
        total.max_depth = total.max_depth.max(stats.max_depth);
        total.capped |= stats.capped;
        total.frontier_at_bound += stats.frontier_at_bound;
    }
    for v in violations {
        rep.violation(v);
    }
    rep.set("states", total.states);
    rep.set("transitions", total.transitions);
    rep.set("traces_validated_against_impl", total.transitions);
    rep.set("max_depth", u64::from(total.max_depth));
    rep.set("frontier_at_bound", total.frontier_at_bound);
    rep.set("law_evaluations", law_checks);
    rep.set("distinct_observation_classes", classes.len() as u64);
    rep.set("explanation", "explicit-state BFS directly on the implementation (no separate model to conform): every transition calls TargetValue::target_insert/target_remove/target_get/target_get_mut on the real value; traces_validated_against_impl = transitions executed on the real code; the reference tree model is only used to resolve negative indices and enumerate locations for the frame law");
    rep.exhaustive = !total.capped;
    let a0 = actions(2);
    rep.sample(json!({"state": vv::enc(&seeds()[6]), "action": action_json(&a0[100])}));
    rep.sample(json!({"state": vv::enc(&seeds()[7]), "action": action_json(&a0[a0.len() - 3])}));
    rep
}

pub fn replay(_property: &str, w: &J) -> Vec<Violation> {
    let pre = vv::dec(&w["value"]);
    let a = action_from_json(&w["action"]);
    let prefix = if w["prefix"] == "metadata" { PathPrefix::Metadata } else { PathPrefix::Event };
    let mut acc = Acc::default();
    step(&pre, &a, prefix, &mut acc);
    acc.violations
}
