//! C24 — `encode_key_value`/`parse_key_value`, `encode_logfmt`/`parse_logfmt` and
//! `encode_csv`/`parse_csv` compose to the identity.
//!
//! Every case is one witness `{law, obj|list, options}`; the encoder and the parser are run as
//! compiled VRL snippets (delimiters and enum options as literals, exactly as a user writes them,
//! the data through the event) and the parser's result is compared with the original value.

use crate::law::{self, CaseResult};
use crate::report::{Report, Tier, Violation};
use crate::vrlx::Outcome;
use crate::vv;
use serde_json::{Value as J, json};
use std::collections::BTreeMap;
use vrl::value::{KeyString, Value};

// ---------------------------------------------------------------------------------------------
// Alphabets

/// Characters at every branch of `encode_string` (whitespace / `"` / `=` trigger quoting; `\`, `"`,
/// newline are escaped) and of the parser (`'` and `"` open a delimited field, `\` escapes inside
/// one, `n` after `\` becomes a newline, space/tab are skipped by `space0`, the delimiters split).
const KV_CHARS: &[&str] = &["a", "n", " ", "\"", "'", "\\", "=", ",", ":", "|", "\n", "\t", "é"];
/// thorough only (quick has NBSP in the word list): a non-ASCII `char::is_whitespace` character.
const KV_CHARS_THOROUGH: &[&str] = &["a", "n", " ", "\"", "'", "\\", "=", ",", ":", "|", "\n", "\t", "é", "\u{a0}"];

/// Longer strings (used whole, as key and as value, in one-entry objects).
const KV_WORDS: &[&str] = &[
    "true",
    "false",
    "null",
    "a b c",
    "\"a\"",
    "'a'",
    "'a b'",
    "a\\\"b",
    "a\\nb",
    "a\nb",
    "a\\\\b",
    " a ",
    "a=b=c",
    "k:v,k2:v2",
    "a|b",
    "é é",
    "日本",
    "😀 x",
    "a\\",
    "\\\\",
    "\\\"",
    "\"\"",
    "''",
    "a\"",
    "a'",
    "x\"y\"z w",
    "\r",
    "a\r\nb",
    "\u{2028}",
    "\u{a0}",
    "a\u{a0}b",
    "a\u{0}b",
    "=>",
    ";;",
    "a=>b;;c",
];

/// (key_value_delimiter, field_delimiter); None = leave both arguments out (defaults `=` / space).
const DELIMS: &[Option<(&str, &str)>] = &[None, Some((":", ",")), Some(("=", "|")), Some(("=>", ";;"))];

/// Parser options that are not delimiters: (whitespace, accept_standalone_key); None = default.
const OPTS: &[(Option<&str>, Option<bool>)] =
    &[(None, None), (Some("strict"), None), (None, Some(false)), (Some("strict"), Some(false))];

const CSV_CHARS: &[&[u8]] =
    &[b"a", b" ", b"\"", b",", b";", b"\n", b"\r", b"\\", "é".as_bytes(), b"\t", b"#", b"'", b"|", b"\xff"];
const CSV_DELIMS: &[Option<&str>] = &[None, Some(";"), Some("\t"), Some("|"), Some(" ")];

fn kv_strings(tier: Tier, max_len: usize) -> Vec<String> {
    law::strings_over(if tier.thorough() { KV_CHARS_THOROUGH } else { KV_CHARS }, max_len).into_iter().filter(|s| !s.is_empty()).collect()
}

fn csv_strings(max_len: usize) -> Vec<Vec<u8>> {
    let mut out: Vec<Vec<u8>> = vec![vec![]];
    let mut level: Vec<Vec<u8>> = vec![vec![]];
    for _ in 0..max_len {
        let mut next = Vec::new();
        for s in &level {
            for c in CSV_CHARS {
                let mut t = s.clone();
                t.extend_from_slice(c);
                next.push(t);
            }
        }
        out.extend(next.iter().cloned());
        level = next;
    }
    out
}

// ---------------------------------------------------------------------------------------------
// Programs

fn enc_kv_src(delims: Option<(&str, &str)>, ordered: bool) -> String {
    let mut s = String::from("encode_key_value!(.o");
    if ordered {
        s.push_str(", fields_ordering: .ord");
    }
    if let Some((kd, fd)) = delims {
        s.push_str(&format!(", key_value_delimiter: {}, field_delimiter: {}", vv::str_lit(kd), vv::str_lit(fd)));
    }
    s.push(')');
    s
}

fn parse_kv_src(delims: Option<(&str, &str)>, ws: Option<&str>, sk: Option<bool>) -> String {
    let mut s = String::from("parse_key_value!(.s");
    if let Some((kd, fd)) = delims {
        s.push_str(&format!(", key_value_delimiter: {}, field_delimiter: {}", vv::str_lit(kd), vv::str_lit(fd)));
    }
    if let Some(ws) = ws {
        s.push_str(&format!(", whitespace: {}", vv::str_lit(ws)));
    }
    if let Some(sk) = sk {
        s.push_str(&format!(", accept_standalone_key: {sk}"));
    }
    s.push(')');
    s
}

fn jstr(j: &J) -> Option<&str> {
    j.as_str()
}

/// encode then parse; Err(stage, outcome) when a stage did not produce a value.
fn roundtrip(enc_src: &str, parse_src: &str, event: Value) -> Result<(Value, Value), (&'static str, String)> {
    let text = match law::call(enc_src, event) {
        Outcome::Ok(v @ Value::Bytes(_)) => v,
        o => return Err(("encode", format!("encoder: {}", o.show()))),
    };
    match law::call(parse_src, vv::obj(&[("s", text.clone())])) {
        Outcome::Ok(v) => Ok((text, v)),
        o => Err(("parse", format!("encoded {} then parser: {}", vv::show(&text), o.show()))),
    }
}

/// Which input features (each one the trigger of an analysed encoder/parser mismatch) occur in a
/// failing object — used for counters only, never for the verdict.
fn features(obj: &BTreeMap<KeyString, Value>, kd: &str, fd: &str) -> Vec<&'static str> {
    let mut f = Vec::new();
    let mut texts: Vec<(bool, String)> = Vec::new();
    for (k, v) in obj {
        texts.push((true, k.to_string()));
        texts.push((false, v.as_str().map(|s| s.to_string()).unwrap_or_default()));
    }
    if texts.iter().any(|(_, t)| t.contains('\\')) {
        f.push("fail.has-backslash");
    }
    if texts.iter().any(|(_, t)| t.contains('\n')) {
        f.push("fail.has-newline");
    }
    if texts.iter().any(|(_, t)| t.starts_with('\'')) {
        f.push("fail.leading-single-quote");
    }
    if fd != " " && texts.iter().any(|(_, t)| t.contains(fd)) {
        f.push("fail.has-field-delimiter");
    }
    if kd != "=" && texts.iter().any(|(is_key, t)| *is_key && t.contains(kd)) {
        f.push("fail.key-has-kv-delimiter");
    }
    if f.is_empty() {
        f.push("fail.unexplained");
    }
    f
}

fn kv_case(w: &J) -> CaseResult {
    let logfmt = w["law"] == "logfmt";
    let obj = vv::dec(&w["obj"]);
    let Value::Object(map) = &obj else { return CaseResult::trivial("bad-witness") };
    let delims: Option<(&str, &str)> = match (jstr(&w["kd"]), jstr(&w["fd"])) {
        (Some(k), Some(f)) => Some((k, f)),
        _ => None,
    };
    let ws = jstr(&w["ws"]);
    let sk = w["sk"].as_bool();
    let ordered = w["rev"].as_bool().unwrap_or(false);
    let default_opts = ws.is_none() && sk.is_none();
    let mut event = vv::obj(&[("o", obj.clone())]);
    if ordered {
        let ord: Vec<Value> = map.keys().rev().map(|k| Value::from(k.as_str())).collect();
        event = vv::obj(&[("o", obj.clone()), ("ord", Value::Array(ord))]);
    }
    let (enc_src, parse_src, clause) = if logfmt {
        (
            if ordered { "encode_logfmt!(.o, fields_ordering: .ord)".to_string() } else { "encode_logfmt!(.o)".to_string() },
            "parse_logfmt!(.s)".to_string(),
            "C24.logfmt-roundtrip",
        )
    } else {
        (
            enc_kv_src(delims, ordered),
            parse_kv_src(delims, ws, sk),
            if default_opts { "C24.kv-roundtrip" } else { "C24.kv-roundtrip-parser-options" },
        )
    };
    let (kd, fd) = delims.unwrap_or(("=", " "));
    let res = roundtrip(&enc_src, &parse_src, event.clone());
    let restored = matches!(&res, Ok((_, v)) if *v == obj);
    if restored {
        let (text, _) = res.unwrap();
        let quoted = text.as_str().is_some_and(|t| t.contains('"'));
        return CaseResult::ok(if quoted { "restored:quoted" } else { "restored:plain" }).count("restored", 1);
    }
    if !default_opts {
        // Non-default whitespace / standalone-key options are judged differentially: the property
        // speaks about the parser with matching delimiters; a failure that the default parser shows
        // too is the default clause's finding, not this option's.
        let base = roundtrip(&enc_src, &parse_kv_src(delims, None, None), event);
        if !matches!(&base, Ok((_, v)) if *v == obj) {
            return CaseResult::ok("fails-with-default-options-too").count("not-judged.default-options-fail-too", 1);
        }
    }
    let (class, observed) = match &res {
        Ok((text, v)) => ("mismatch", format!("encoded {} parsed back as {}", vv::show(text), vv::show(v))),
        Err(("encode", m)) => ("encode-failed", m.clone()),
        Err((_, m)) => ("parse-failed", m.clone()),
    };
    let mut r = CaseResult::ok(class).violation(Violation::new(
        clause,
        w.clone(),
        format!("{parse_src} of {enc_src} restores {}", vv::show(&obj)),
        observed,
    ));
    for f in features(map, kd, fd) {
        r = r.count(f, 1);
    }
    r.count("not-restored", 1)
}

fn csv_case(w: &J) -> CaseResult {
    let list = vv::dec(&w["list"]);
    let Value::Array(items) = &list else { return CaseResult::trivial("bad-witness") };
    let (enc_src, parse_src) = match jstr(&w["delim"]) {
        None => ("encode_csv!(.o)".to_string(), "parse_csv!(.s)".to_string()),
        Some(d) => (
            format!("encode_csv!(.o, delimiter: {})", vv::str_lit(d)),
            format!("parse_csv!(.s, delimiter: {})", vv::str_lit(d)),
        ),
    };
    let clause = if w["delim"].is_null() { "C24.csv-roundtrip" } else { "C24.csv-roundtrip-delimiter" };
    let res = roundtrip(&enc_src, &parse_src, vv::obj(&[("o", list.clone())]));
    match res {
        Ok((text, v)) if v == list => {
            let quoted = matches!(&text, Value::Bytes(b) if b.contains(&b'"'));
            CaseResult::ok(if items.is_empty() {
                "restored:empty-list"
            } else if quoted {
                "restored:quoted"
            } else {
                "restored:plain"
            })
            .count("restored", 1)
        }
        Ok((text, v)) => CaseResult::ok("mismatch").count("not-restored", 1).violation(Violation::new(
            clause,
            w.clone(),
            format!("{parse_src} of {enc_src} restores {}", vv::show(&list)),
            format!("encoded {} parsed back as {}", vv::show(&text), vv::show(&v)),
        )),
        Err((stage, o)) => CaseResult::ok("stage-failed").count("not-restored", 1).violation(Violation::new(
            clause,
            w.clone(),
            format!("{parse_src} of {enc_src} restores {}", vv::show(&list)),
            format!("{stage} stage: {o}"),
        )),
    }
}

fn case(w: &J) -> CaseResult {
    match w["law"].as_str() {
        Some("kv" | "logfmt") => kv_case(w),
        Some("csv") => csv_case(w),
        _ => CaseResult::trivial("bad-witness"),
    }
}

// ---------------------------------------------------------------------------------------------
// Enumeration

fn obj1(k: &str, v: &str) -> J {
    json!({ k: v })
}

fn kv_objects(tier: Tier) -> Vec<J> {
    let mut out = Vec::new();
    // one entry: every (key, value) over strings of length 1..=2 plus the word list
    let mut pool = kv_strings(tier, 2);
    pool.extend(KV_WORDS.iter().map(|s| s.to_string()));
    let mut seen = std::collections::BTreeSet::new();
    pool.retain(|s| seen.insert(s.clone()));
    for k in &pool {
        for v in &pool {
            out.push(obj1(k, v));
        }
    }
    // two entries: all unordered pairs of distinct keys x all value pairs, strings of length 1
    // (thorough: keys of length 1, values of length <= 2 on the first entry)
    let short = kv_strings(tier, 1);
    for (i, k1) in short.iter().enumerate() {
        for k2 in &short[i + 1..] {
            for v1 in &short {
                for v2 in &short {
                    out.push(json!({ k1.as_str(): v1, k2.as_str(): v2 }));
                }
            }
        }
    }
    // three entries: the middle entry is neither first nor last in the encoded text
    for k in &short {
        for v in &short {
            if k != "0" && k != "z" {
                out.push(json!({ "0": "x", k.as_str(): v, "z": "y" }));
            }
        }
    }
    if tier.thorough() {
        let two = kv_strings(tier, 2);
        for k in &short {
            for v in &two {
                if v.chars().count() == 2 {
                    out.push(json!({ k.as_str(): v, "z": "y" }));
                    out.push(json!({ "0": v, k.as_str(): "y" }));
                }
            }
        }
    }
    out
}

/// thorough only: one-entry objects pairing every string of length 3 with every string of length 1
/// (as value and as key). Judged under 3 variants only (kv default, kv ':' ',', logfmt).
fn kv_long_objects(tier: Tier) -> Vec<J> {
    let pool = kv_strings(tier, 1);
    let long: Vec<String> = kv_strings(tier, 3).into_iter().filter(|s| s.chars().count() == 3).collect();
    let mut out = Vec::with_capacity(2 * pool.len() * long.len());
    for l in &long {
        for p in &pool {
            out.push(obj1(p, l));
            out.push(obj1(l, p));
        }
    }
    out
}

fn kv_long_variant(o: &J, i: u64) -> J {
    match i {
        0 => json!({"law": "kv", "obj": o, "kd": J::Null, "fd": J::Null}),
        1 => json!({"law": "kv", "obj": o, "kd": ":", "fd": ","}),
        _ => json!({"law": "logfmt", "obj": o}),
    }
}

const KV_VARIANTS: u64 = (4 * 4 * 2 + 2) as u64;

/// Variant `i` of object `o`: (delimiters x parser options x ordering) for kv, then 2 logfmt cases.
/// Null for the reversed-ordering variants of one-entry objects (nothing to reorder).
fn kv_variant(o: &J, i: u64) -> J {
    let entries = o.as_object().map_or(0, |m| m.len());
    let i = i as usize;
    if i >= DELIMS.len() * OPTS.len() * 2 {
        let rev = i - DELIMS.len() * OPTS.len() * 2 == 1;
        if rev && entries < 2 {
            return J::Null;
        }
        return if rev { json!({"law": "logfmt", "obj": o, "rev": true}) } else { json!({"law": "logfmt", "obj": o}) };
    }
    let rev = i % 2 == 1;
    let (ws, sk) = OPTS[(i / 2) % OPTS.len()];
    let d = DELIMS[i / 2 / OPTS.len()];
    if rev && entries < 2 {
        return J::Null;
    }
    let (kd, fd) = match d {
        Some((k, f)) => (json!(k), json!(f)),
        None => (J::Null, J::Null),
    };
    let mut w = json!({"law": "kv", "obj": o, "kd": kd, "fd": fd});
    if let Some(ws) = ws {
        w["ws"] = json!(ws);
    }
    if let Some(sk) = sk {
        w["sk"] = json!(sk);
    }
    if rev {
        w["rev"] = json!(true);
    }
    w
}

fn csv_lists(tier: Tier) -> Vec<J> {
    let enc = |b: &Vec<u8>| vv::enc(&Value::Bytes(b.clone().into()));
    let s2 = csv_strings(2);
    let s1 = csv_strings(1);
    let mut lists: Vec<J> = vec![json!([])];
    for a in &s2 {
        lists.push(json!([enc(a)]));
    }
    for a in &s2 {
        for b in &s2 {
            lists.push(json!([enc(a), enc(b)]));
        }
    }
    for a in &s1 {
        for b in &s1 {
            for c in &s1 {
                lists.push(json!([enc(a), enc(b), enc(c)]));
            }
        }
    }
    if tier.thorough() {
        // the middle field of three ranges over the length-2 strings, both neighbours over length <= 1
        for a in &s1 {
            for b in s2.iter().filter(|b| b.len() >= 2) {
                for c in &s1 {
                    lists.push(json!([enc(a), enc(b), enc(c)]));
                }
            }
        }
        for a in &s1 {
            for b in &s1 {
                for c in &s1 {
                    for d in &s1 {
                        lists.push(json!([enc(a), enc(b), enc(c), enc(d)]));
                    }
                }
            }
        }
    }
    let mut seen = std::collections::BTreeSet::new();
    lists.retain(|l| seen.insert(l.to_string()));
    lists
}

pub fn run(tier: Tier) -> Report {
    let mut rep = Report::new("C24", tier, "exploration");
    rep.set(
        "rule",
        "kv/logfmt: every flat object {k:v} with k,v over all strings of length 1..2 over the 13-symbol alphabet \
         [a n space \" ' \\ = , : | LF TAB é] (thorough: + NBSP) plus 35 longer words; every 2-entry object over the length-1 strings; \
         3-entry objects with every length-1 (k,v) in the middle; x delimiter pairs {default, ':' ',', '=' '|', '=>' ';;'} \
         x parser options {default, strict, no-standalone, both} x fields_ordering {none, reversed}; \
         logfmt on the same objects; thorough adds every one-entry object pairing a length-3 string with a length-1 string \
         (either side) under {kv default, kv ':' ',', logfmt}. csv: every list of 0..2 strings of length 0..2 and of 3 strings of length 0..1 (thorough: middle of three up to length 2, and 4 strings of length 0..1; all triples of strings of length 0..2 under the default delimiter) over \
         [a space \" , ; LF CR \\ é TAB # ' | 0xFF] x delimiter {default ; TAB | space}. A case is non-trivial when the encoder \
         and the parser both ran; distinct = distinct witness.",
    );
    rep.assume("the oracle is the original object/list itself (Value equality, no normalisation)");
    rep.assume(
        "non-default parse_key_value options (whitespace, accept_standalone_key) are judged only when the same object \
         round-trips under the default options (clause kv-roundtrip-parser-options)",
    );
    assert_eq!(KV_VARIANTS as usize, DELIMS.len() * OPTS.len() * 2 + 2);
    let objs = kv_objects(tier);
    rep.set("kv_objects", objs.len() as u64);
    law::drive_indexed(
        &mut rep,
        "kv+logfmt",
        objs.len() as u64 * KV_VARIANTS,
        |i| kv_variant(&objs[(i / KV_VARIANTS) as usize], i % KV_VARIANTS),
        case,
    );
    drop(objs);
    if tier.thorough() {
        let objs = kv_long_objects(tier);
        rep.set("kv_long_objects", objs.len() as u64);
        law::drive_indexed(&mut rep, "kv+logfmt-long", objs.len() as u64 * 3, |i| kv_long_variant(&objs[(i / 3) as usize], i % 3), case);
    }
    let lists = csv_lists(tier);
    rep.set("csv_lists", lists.len() as u64);
    let nd = CSV_DELIMS.len() as u64;
    law::drive_indexed(
        &mut rep,
        "csv",
        lists.len() as u64 * nd,
        |i| json!({"law": "csv", "list": lists[(i / nd) as usize], "delim": CSV_DELIMS[(i % nd) as usize]}),
        case,
    );
    if tier.thorough() {
        // every list of three strings of length 0..2 (default delimiter), generated by index
        let s2 = csv_strings(2);
        let n = s2.len() as u64;
        rep.set("csv_triples_strings", n);
        let enc = |b: &Vec<u8>| vv::enc(&Value::Bytes(b.clone().into()));
        law::drive_indexed(
            &mut rep,
            "csv-triples",
            n * n * n,
            |i| {
                let (a, b, c) = (&s2[(i / n / n) as usize], &s2[(i / n % n) as usize], &s2[(i % n) as usize]);
                json!({"law": "csv", "list": [enc(a), enc(b), enc(c)], "delim": J::Null})
            },
            case,
        );
    }
    rep
}

pub fn replay(_property: &str, w: &J) -> Vec<Violation> {
    case(w).violations
}
