//! C23 — `decrypt(encrypt(p, alg, key, iv), alg, key, iv) == p` for every algorithm the
//! `encrypt` function documents, plaintexts around every block/padding boundary, and keys / IVs
//! of the documented sizes; `decrypt_ip(encrypt_ip(ip, key, mode), key, mode) == ip` for IPv4 /
//! IPv6 addresses and both ipcrypt modes.
//!
//! One case = one (algorithm, way the algorithm name reaches the function, plaintext, key, iv)
//! tuple, executed as two compiled VRL snippets (encrypt, then decrypt on the produced
//! ciphertext) so that "the encoder accepted / the decoder ran" is observable.

use crate::law::{self, CaseResult};
use crate::report::{Report, Tier, Violation};
use crate::vrlx::Outcome;
use crate::vv;
use serde_json::{Value as J, json};
use std::net::IpAddr;
use vrl::compiler::Function;
use vrl::value::Value;

/// (name, key bytes, iv bytes) — transcribed from the documentation of `encrypt` (its `usage()`
/// text is parsed at run time and compared with this table, see `run`).
const ALGS: &[(&str, usize, usize)] = &[
    ("AES-256-CFB", 32, 16),
    ("AES-192-CFB", 24, 16),
    ("AES-128-CFB", 16, 16),
    ("AES-256-OFB", 32, 16),
    ("AES-192-OFB", 24, 16),
    ("AES-128-OFB", 16, 16),
    ("AES-128-SIV", 32, 16),
    ("AES-256-SIV", 64, 16),
    ("AES-256-CTR", 32, 16),
    ("AES-192-CTR", 24, 16),
    ("AES-128-CTR", 16, 16),
    ("AES-256-CTR-LE", 32, 16),
    ("AES-192-CTR-LE", 24, 16),
    ("AES-128-CTR-LE", 16, 16),
    ("AES-256-CTR-BE", 32, 16),
    ("AES-192-CTR-BE", 24, 16),
    ("AES-128-CTR-BE", 16, 16),
    ("AES-256-CBC-PKCS7", 32, 16),
    ("AES-192-CBC-PKCS7", 24, 16),
    ("AES-128-CBC-PKCS7", 16, 16),
    ("AES-256-CBC-ANSIX923", 32, 16),
    ("AES-192-CBC-ANSIX923", 24, 16),
    ("AES-128-CBC-ANSIX923", 16, 16),
    ("AES-256-CBC-ISO7816", 32, 16),
    ("AES-192-CBC-ISO7816", 24, 16),
    ("AES-128-CBC-ISO7816", 16, 16),
    ("AES-256-CBC-ISO10126", 32, 16),
    ("AES-192-CBC-ISO10126", 24, 16),
    ("AES-128-CBC-ISO10126", 16, 16),
    ("CHACHA20-POLY1305", 32, 12),
    ("XCHACHA20-POLY1305", 32, 24),
    ("XSALSA20-POLY1305", 32, 24),
];

fn alg_sizes(name: &str) -> Option<(usize, usize)> {
    let up = name.to_uppercase();
    ALGS.iter().find(|(n, _, _)| *n == up).map(|(_, k, i)| (*k, *i))
}

/// Algorithms listed in the function's own documentation: lines of the form
/// `* [Deprecated - ]NAME (key = N bytes, iv = M bytes)`.
fn documented_algs(usage: &str) -> Vec<(String, usize, usize)> {
    let mut out = Vec::new();
    for line in usage.lines() {
        let line = line.trim();
        let Some(rest) = line.strip_prefix("* ") else { continue };
        let rest = rest.strip_prefix("Deprecated - ").unwrap_or(rest);
        let Some((name, tail)) = rest.split_once('(') else { continue };
        let nums: Vec<usize> = tail
            .split(|c: char| !c.is_ascii_digit())
            .filter(|s| !s.is_empty())
            .filter_map(|s| s.parse().ok())
            .collect();
        if nums.len() == 2 {
            out.push((name.trim().to_string(), nums[0], nums[1]));
        }
    }
    out
}

// ---------------------------------------------------------------------------------------------
// Deterministic byte patterns (the witness names the pattern; the bytes are recomputed).

fn lcg_bytes(seed: u64, len: usize) -> Vec<u8> {
    let mut x = seed.wrapping_mul(0x9E37_79B9_7F4A_7C15).wrapping_add(0x1234_5678_9ABC_DEF1);
    (0..len)
        .map(|_| {
            x = x.wrapping_mul(6364136223846793005).wrapping_add(1442695040888963407);
            (x >> 33) as u8
        })
        .collect()
}

/// Pattern bytes of length `len`. Patterns ending in bytes that look like the padding of the
/// CBC paddings are on purpose: PKCS7 (`k` times byte `k`), ANSI X9.23 (`00 .. 00 k`),
/// ISO 7816 (`80 00 .. 00`), ISO 10126 (`?? .. ?? k`).
fn pattern(name: &str, len: usize) -> Vec<u8> {
    match name {
        "zeros" => vec![0u8; len],
        "ff" => vec![0xFF; len],
        "x80" => vec![0x80; len],
        "x01" => vec![0x01; len],
        "x10" => vec![0x10; len],
        "inc" => (0..len).map(|i| i as u8).collect(),
        "hi" => (0..len).map(|i| 0x80 | (i as u8)).collect(),
        "rnd" => lcg_bytes(1, len),
        "rnd2" => lcg_bytes(2, len),
        // 80 00 00 … tail: ISO 7816 padding look-alike inside the plaintext
        "tail7816" => {
            let mut v = lcg_bytes(3, len);
            let n = len.min(3);
            for (k, b) in v.iter_mut().rev().take(n).enumerate() {
                *b = if k == n - 1 { 0x80 } else { 0 };
            }
            v
        }
        // … 00 00 03 tail: ANSI X9.23 / PKCS7 look-alike
        "tail923" => {
            let mut v = lcg_bytes(4, len);
            let n = len.min(3);
            for (k, b) in v.iter_mut().rev().take(n).enumerate() {
                *b = if k == 0 { 3 } else { 0 };
            }
            v
        }
        "tailpk" => {
            let mut v = lcg_bytes(5, len);
            for b in v.iter_mut().rev().take(2) {
                *b = 2;
            }
            v
        }
        _ => panic!("unknown pattern {name}"),
    }
}

const PT_PATTERNS: &[&str] = &["zeros", "ff", "inc", "rnd", "x80", "x01", "x10", "tail7816", "tail923", "tailpk"];
const KEY_PATTERNS: &[&str] = &["zeros", "ff", "inc", "hi", "rnd", "rnd2"];

fn bytes_val(b: Vec<u8>) -> Value {
    Value::Bytes(b.into())
}

fn str_of(j: &J) -> &str {
    j.as_str().unwrap_or("")
}

// ---------------------------------------------------------------------------------------------
// symmetric algorithms

/// `via`: how the algorithm name reaches the functions — `"lit"` upper-case literal (checked by
/// the compiler), `"lower"` lower-case literal, `"event"` dynamic value read from the event.
fn sym_case(w: &J) -> CaseResult {
    let alg = str_of(&w["alg"]);
    let via = str_of(&w["via"]);
    let len = w["len"].as_u64().unwrap_or(0) as usize;
    let Some((klen, ivlen)) = alg_sizes(alg) else { return CaseResult::trivial("unknown-algorithm") };
    let pt = pattern(str_of(&w["pt"]), len);
    let key = pattern(str_of(&w["key"]), klen);
    let iv = pattern(str_of(&w["iv"]), ivlen);
    let alg_src = match via {
        "lit" => vv::str_lit(alg),
        "lower" => vv::str_lit(&alg.to_lowercase()),
        _ => ".alg".to_string(),
    };
    let enc_src = format!("encrypt!(.p, {alg_src}, key: .k, iv: .i)");
    let dec_src = format!("decrypt!(.c, {alg_src}, key: .k, iv: .i)");
    let ev = |first: (&str, Value)| {
        vv::obj(&[first, ("k", bytes_val(key.clone())), ("i", bytes_val(iv.clone())), ("alg", vv::s(alg))])
    };
    let enc = law::call(&enc_src, ev(("p", bytes_val(pt.clone()))));
    let ct = match &enc {
        Outcome::Ok(Value::Bytes(b)) => b.clone(),
        other => {
            // The property quantifies over keys and IVs "of the sizes the algorithm requires": the
            // documented sizes must be accepted.
            return CaseResult::trivial("encrypt-failed").violation(Violation::new(
                "C23.encrypt-accepts-documented-sizes",
                w.clone(),
                format!("encrypt succeeds with a {klen}-byte key and {ivlen}-byte iv"),
                other.show(),
            ));
        }
    };
    let dec = law::call(&dec_src, ev(("c", Value::Bytes(ct.clone()))));
    let mut r = CaseResult::ok(match ct.len().cmp(&pt.len()) {
        std::cmp::Ordering::Equal => "ct-len=pt-len",
        std::cmp::Ordering::Greater => "ct-len>pt-len",
        std::cmp::Ordering::Less => "ct-len<pt-len",
    });
    r = r.count("roundtrips_run", 1);
    if ct.as_ref() == pt.as_slice() && !pt.is_empty() {
        // (happens for 1-byte plaintexts when the first keystream byte is 0: chance 1/256)
        r = r.count("ciphertext_equals_plaintext", 1);
    }
    match &dec {
        Outcome::Ok(Value::Bytes(b)) if b.as_ref() == pt.as_slice() => r,
        other => r.violation(Violation::new(
            "C23.sym-roundtrip",
            w.clone(),
            format!("decrypt returns the plaintext {}", vv::hex(&pt)),
            other.show(),
        )),
    }
}

fn sym_lengths(tier: Tier) -> Vec<usize> {
    let mut v: Vec<usize> = (0..=50).collect();
    v.extend([63, 64, 65, 79, 80, 81, 127, 128, 129, 255, 256, 257, 1000, 4096]);
    if tier.thorough() {
        v.extend(51..=62);
        v.extend([511, 512, 513, 1023, 1024, 1025, 4095, 4097, 65535, 65536, 65537]);
    }
    v
}

/// The symmetric case space as an index → witness function (dimension 0 varies fastest):
/// iv x key x length x plaintext pattern x spelling x algorithm; combinations that are not part
/// of the tier map to `null` (skipped by the driver).
fn sym_dims(lens: &[usize]) -> [u64; 6] {
    [KEY_PATTERNS.len() as u64, KEY_PATTERNS.len() as u64, lens.len() as u64, PT_PATTERNS.len() as u64, 3, ALGS.len() as u64]
}

fn sym_witness(tier: Tier, lens: &[usize], idx: u64) -> J {
    let ix = crate::util::unrank(idx, &sym_dims(lens));
    let iv = KEY_PATTERNS[ix[0]];
    let key = KEY_PATTERNS[ix[1]];
    let len = lens[ix[2]];
    let pt = PT_PATTERNS[ix[3]];
    let via = ["lit", "lower", "event"][ix[4]];
    let alg = ALGS[ix[5]].0;
    // the full key × iv square for the literal spelling; the diagonal and the ff IV for the other two
    // spellings (same code path once the name has been upper-cased)
    if via != "lit" && !tier.thorough() && !(key == iv || iv == "ff") {
        return J::Null;
    }
    // very long plaintexts: a reduced key/iv set
    if len > 4096 && key != iv {
        return J::Null;
    }
    json!({"law": "sym", "alg": alg, "via": via, "pt": pt, "len": len, "key": key, "iv": iv})
}

// ---------------------------------------------------------------------------------------------
// IP addresses

fn as_u128(ip: IpAddr) -> u128 {
    match ip {
        IpAddr::V4(a) => u128::from(a.to_ipv6_mapped()),
        IpAddr::V6(a) => u128::from(a),
    }
}

fn ip_key(name: &str, len: usize) -> Vec<u8> {
    match name {
        // two different halves built from constant bytes
        "half0-half1" => (0..len).map(|i| u8::from(i >= len / 2)).collect(),
        "text" => b"thirty-two bytes key for pfx use"[..len].to_vec(),
        other => pattern(other, len),
    }
}

fn ip_case(w: &J) -> CaseResult {
    let ip = str_of(&w["ip"]);
    let mode = str_of(&w["mode"]);
    let klen = if mode == "pfx" { 32 } else { 16 };
    let key = ip_key(str_of(&w["key"]), klen);
    let Ok(orig) = ip.parse::<IpAddr>() else { return CaseResult::trivial("harness-ip-not-parsable") };
    let (enc_src, dec_src) = if w["via"] == "event" {
        ("encrypt_ip!(.ip, .k, .mode)".to_string(), "decrypt_ip!(.ip, .k, .mode)".to_string())
    } else {
        (
            format!("encrypt_ip!(.ip, .k, {})", vv::str_lit(mode)),
            format!("decrypt_ip!(.ip, key: .k, mode: {})", vv::str_lit(mode)),
        )
    };
    let ev = |ip: Value| vv::obj(&[("ip", ip), ("k", bytes_val(key.clone())), ("mode", vv::s(mode))]);
    let enc = law::call(&enc_src, ev(vv::s(ip)));
    let halves_equal = klen == 32 && key[..16] == key[16..];
    let enc_ip = match &enc {
        Outcome::Ok(Value::Bytes(b)) => b.clone(),
        other => {
            if halves_equal && matches!(other, Outcome::Error(_)) {
                // ipcrypt-pfx is only defined for keys whose two halves differ: an orderly error for such
                // a key is not a round-trip failure (counted, not judged); a panic still is.
                return CaseResult::trivial("encrypt_ip-rejects-equal-key-halves").count("pfx_equal_key_halves_rejected", 1);
            }
            let clause = if law::is_panic(other) && halves_equal {
                // ipcrypt-pfx refuses keys whose halves are equal by panicking (assert_ne!) instead of
                // returning an error: a 32-byte key is "of the size the mode requires".
                "C23.ip-encrypt-panics-on-equal-key-halves"
            } else {
                "C23.ip-encrypt-accepts-valid-input"
            };
            return CaseResult::trivial("encrypt_ip-failed").violation(Violation::new(
                clause,
                w.clone(),
                format!("encrypt_ip succeeds for a valid address and a {klen}-byte key"),
                other.show(),
            ));
        }
    };
    let enc_text = String::from_utf8_lossy(&enc_ip).to_string();
    let Ok(enc_parsed) = enc_text.parse::<IpAddr>() else {
        return CaseResult::trivial("encrypt_ip-not-an-ip").violation(Violation::new(
            "C23.ip-roundtrip",
            w.clone(),
            "encrypt_ip returns an IP address",
            enc_text,
        ));
    };
    let dec = law::call(&dec_src, ev(Value::Bytes(enc_ip.clone())));
    let class = match (orig, enc_parsed) {
        (IpAddr::V4(_), IpAddr::V4(_)) => "v4->v4",
        (IpAddr::V4(_), IpAddr::V6(_)) => "v4->v6",
        (IpAddr::V6(_), IpAddr::V4(_)) => "v6->v4",
        (IpAddr::V6(_), IpAddr::V6(_)) => "v6->v6",
    };
    let mut r = CaseResult::ok(class).count("ip_roundtrips_run", 1);
    if as_u128(enc_parsed) == as_u128(orig) {
        r = r.count("ip_encrypted_equals_original", 1);
    }
    let back = match &dec {
        Outcome::Ok(Value::Bytes(b)) => String::from_utf8_lossy(b).parse::<IpAddr>().ok(),
        _ => None,
    };
    match back {
        // Equality of addresses as 128-bit values: an IPv4 address and its IPv4-mapped IPv6 form
        // (::ffff:a.b.c.d) are the same ipcrypt input, so which of the two spellings comes back is not
        // judged (counted instead).
        Some(b) if as_u128(b) == as_u128(orig) => {
            if b != orig {
                r = r.count("ip_family_changed_v4_mapped", 1);
            }
            r
        }
        _ => r.violation(Violation::new(
            "C23.ip-roundtrip",
            w.clone(),
            format!("decrypt_ip returns {orig}"),
            dec.show(),
        )),
    }
}

fn ip_list(tier: Tier) -> Vec<String> {
    let mut out: Vec<String> = Vec::new();
    // IPv4: every address with octets from an edge alphabet
    let oct: &[u8] = if tier.thorough() { &[0, 1, 9, 10, 100, 127, 128, 192, 254, 255] } else { &[0, 1, 10, 127, 128, 255] };
    for a in oct {
        for b in oct {
            for c in oct {
                for d in oct {
                    out.push(format!("{a}.{b}.{c}.{d}"));
                }
            }
        }
    }
    out.extend(["192.168.1.1", "8.8.8.8", "169.254.169.254", "224.0.0.251", "100.64.0.1"].map(String::from));
    // IPv6: every address whose 8 groups are drawn from {0, 1, ffff} restricted to ≤ 3 non-zero
    // groups, plus single-bit addresses (bit i set) and their complements, plus named edge cases in
    // several spellings.
    let g: &[u16] = &[0, 1, 0xffff, 0x8000];
    for i in 0..8 {
        for j in i..8 {
            for x in &g[1..] {
                for y in &g[1..] {
                    let mut grp = [0u16; 8];
                    grp[i] = *x;
                    grp[j] = *y;
                    out.push(std::net::Ipv6Addr::from(grp).to_string());
                }
            }
        }
    }
    for bit in 0..128 {
        let v: u128 = 1u128 << bit;
        out.push(std::net::Ipv6Addr::from(v).to_string());
        out.push(std::net::Ipv6Addr::from(!v).to_string());
    }
    out.extend(
        [
            "::",
            "::1",
            "::ffff:1.2.3.4",
            "::FFFF:255.255.255.255",
            "::ffff:0.0.0.0",
            "::fffe:1.2.3.4",
            "0:0:0:0:0:ffff:0102:0304",
            "ffff:ffff:ffff:ffff:ffff:ffff:ffff:ffff",
            "2001:db8::1",
            "2001:0DB8:0000:0000:0000:0000:0000:0001",
            "fe80::1",
            "ff02::1",
            "64:ff9b::1.2.3.4",
            "::1.2.3.4",
            "1::",
            "1:2:3:4:5:6:7:8",
            "0:0:0:0:0:0:0:0",
            "::ffff:0:0",
            "::1:0:0:0",
        ]
        .map(String::from),
    );
    out.sort();
    out.dedup();
    out
}

fn ip_cases(tier: Tier) -> Vec<J> {
    let mut out = Vec::new();
    let keys = ["zeros", "ff", "x01", "inc", "hi", "rnd", "rnd2", "half0-half1", "text"];
    for ip in ip_list(tier) {
        for mode in ["aes128", "pfx"] {
            for key in keys {
                // 32-byte keys whose two halves are equal make ipcrypt-pfx panic (reported): a few
                // addresses are enough to witness that
                let equal_halves = mode == "pfx" && matches!(key, "zeros" | "ff" | "x01");
                if equal_halves && !matches!(ip.as_str(), "0.0.0.0" | "255.255.255.255" | "::" | "2001:db8::1") {
                    continue;
                }
                for via in ["lit", "event"] {
                    if via == "event" && !(key == "rnd" || key == "inc") {
                        continue;
                    }
                    out.push(json!({"law": "ip", "ip": ip, "mode": mode, "key": key, "via": via}));
                }
            }
        }
    }
    out
}

// ---------------------------------------------------------------------------------------------

fn case(w: &J) -> CaseResult {
    match str_of(&w["law"]) {
        "sym" => sym_case(w),
        "ip" => ip_case(w),
        _ => CaseResult::trivial("unknown-law"),
    }
}

pub fn run(tier: Tier) -> Report {
    let mut rep = Report::new("C23", tier, "exploration");
    rep.set(
        "rule",
        "sym: every documented algorithm (32) x spelling of the name {upper literal, lower literal, dynamic} x plaintext pattern (10, incl. padding look-alike tails) x plaintext length (0..50 and block boundaries up to 4096) x key pattern x iv pattern (6 x 6 for the literal spelling; diagonal + ff-iv for the other spellings in the quick tier); ip: edge IPv4/IPv6 addresses x {aes128, pfx} x 8 keys. A case is non-trivial when encrypt succeeded and decrypt was run on its output; distinct = distinct witness.",
    );
    rep.assume("oracle = the inverse function only: decrypt(encrypt(p)) == p byte for byte; ciphertext bytes, lengths and error texts are not judged");
    rep.assume("IP addresses are compared as 128-bit values (IPv4 == its IPv4-mapped IPv6 form), parsed with std::net");
    rep.assume("the algorithm table is transcribed from the documentation of `encrypt`; it is cross-checked against `Encrypt.usage()` and `Decrypt.usage()` at run time");

    // Cross-check the table against the documentation carried by the functions themselves.
    let doc_e = documented_algs(vrl::stdlib::Encrypt.usage());
    let doc_d = documented_algs(vrl::stdlib::Decrypt.usage());
    let mut missing = Vec::new();
    for (n, k, i) in doc_e.iter().chain(doc_d.iter()) {
        if alg_sizes(n) != Some((*k, *i)) {
            missing.push(format!("{n}({k},{i})"));
        }
    }
    for (n, k, i) in ALGS {
        if !doc_e.iter().any(|(dn, dk, di)| dn == n && dk == k && di == i) {
            missing.push(format!("table-only:{n}"));
        }
    }
    rep.set("algorithms_in_table", ALGS.len() as u64);
    rep.set("algorithms_documented_by_encrypt", doc_e.len() as u64);
    rep.set("algorithms_documented_by_decrypt", doc_d.len() as u64);
    if !missing.is_empty() {
        rep.exhaustive = false;
        rep.notes.push(format!("algorithm table and documentation disagree: {}", missing.join(", ")));
    }

    let timing = std::env::var("VERIF_TIMING").is_ok();
    let t0 = std::time::Instant::now();
    let lens = sym_lengths(tier);
    let n = crate::util::product(&sym_dims(&lens));
    law::drive_indexed(&mut rep, "sym", n, |i| sym_witness(tier, &lens, i), case);
    if timing {
        eprintln!("timing sym driven at {:.2}s", t0.elapsed().as_secs_f64());
    }
    let ip = ip_cases(tier);
    law::drive(&mut rep, "ip", &ip, case);
    if timing {
        eprintln!("timing ip driven at {:.2}s", t0.elapsed().as_secs_f64());
    }
    rep
}

pub fn replay(_property: &str, w: &J) -> Vec<Violation> {
    case(w).violations
}
