//! C22 — `decode_X(encode_X(b, opts), matching opts) == b` for the paired binary codecs of the
//! stdlib: base16, base64, percent, punycode, gzip, zlib, zstd, snappy, lz4, charset.
//!
//! One case = one (codec, option combination, input) triple, executed as two compiled VRL
//! snippets: the encoder on `{a: input}` and then the decoder on `{a: <encoder output>}`.
//! Inputs are named in the witness either literally (`{"hex": …}` / `{"text": …}`) or by a
//! deterministic generator (`{"pat": name, "len": n}`), so that large inputs stay replayable.

use crate::law::{self, CaseResult};
use crate::report::{Report, Tier, Violation};
use crate::vrlx::Outcome;
use crate::vv;
use serde_json::{Value as J, json};
use vrl::value::Value;

// ---------------------------------------------------------------------------------------------
// inputs

fn lcg_bytes(seed: u64, len: usize) -> Vec<u8> {
    let mut x = seed.wrapping_mul(0x9E37_79B9_7F4A_7C15).wrapping_add(0x1234_5678_9ABC_DEF1);
    (0..len)
        .map(|_| {
            x = x.wrapping_mul(6364136223846793005).wrapping_add(1442695040888963407);
            (x >> 33) as u8
        })
        .collect()
}

fn pattern(name: &str, len: usize) -> Vec<u8> {
    match name {
        "zeros" => vec![0u8; len],
        "ff" => vec![0xFF; len],
        "inc" => (0..len).map(|i| i as u8).collect(),
        "rnd" => lcg_bytes(1, len),
        "rnd2" => lcg_bytes(2, len),
        "abc" => (0..len).map(|i| b"abc"[i % 3]).collect(),
        "text" => {
            let t = b"The quick brown fox jumps over the lazy dog. {\"k\": [1, 2.5, null]} \xc3\xa9\xe2\x82\xac ";
            (0..len).map(|i| t[i % t.len()]).collect()
        }
        // runs of pseudo-random length and byte: back-references of every small distance
        "runs" => {
            let r = lcg_bytes(7, len.max(1) * 2);
            let mut out = Vec::with_capacity(len);
            let mut k = 0;
            while out.len() < len {
                let b = r[k % r.len()];
                let n = 1 + (r[(k + 1) % r.len()] as usize % 9);
                for _ in 0..n {
                    if out.len() < len {
                        out.push(b);
                    }
                }
                k += 2;
            }
            out
        }
        // a pseudo-random block of 65 535 / 65 536 / 65 537 bytes repeated: matches exactly at, one
        // below and one above the 64 KiB window / block size of lz4, snappy and deflate-stored
        "rep65535" => {
            let r = lcg_bytes(9, 65535);
            (0..len).map(|i| r[i % 65535]).collect()
        }
        "rep65536" => {
            let r = lcg_bytes(9, 65536);
            (0..len).map(|i| r[i % 65536]).collect()
        }
        "rep65537" => {
            let r = lcg_bytes(9, 65537);
            (0..len).map(|i| r[i % 65537]).collect()
        }
        _ => panic!("unknown pattern {name}"),
    }
}

fn input_bytes(spec: &J) -> Vec<u8> {
    if let Some(h) = spec["hex"].as_str() {
        vv::unhex(h)
    } else if let Some(t) = spec["text"].as_str() {
        t.as_bytes().to_vec()
    } else {
        pattern(spec["pat"].as_str().unwrap_or("zeros"), spec["len"].as_u64().unwrap_or(0) as usize)
    }
}

fn show_bytes(b: &[u8]) -> String {
    if b.len() <= 64 { vv::hex(b) } else { format!("{}… ({} bytes)", vv::hex(&b[..32]), b.len()) }
}

/// Every byte string of length 0, 1 and 2 (65 793 strings).
fn all_short() -> Vec<J> {
    let mut out = vec![json!({"hex": ""})];
    for a in 0..=255u8 {
        out.push(json!({"hex": vv::hex(&[a])}));
    }
    for a in 0..=255u8 {
        for b in 0..=255u8 {
            out.push(json!({"hex": vv::hex(&[a, b])}));
        }
    }
    out
}

/// The empty string, every 1-byte string and the 2-byte strings over 16 edge bytes — the short
/// inputs of the (per call much more expensive) compression codecs in the quick tier.
fn some_short() -> Vec<J> {
    let mut out = vec![json!({"hex": ""})];
    for a in 0..=255u8 {
        out.push(json!({"hex": vv::hex(&[a])}));
    }
    let edge: [u8; 16] = [0x00, 0x01, 0x02, 0x0a, 0x1f, 0x20, 0x41, 0x61, 0x7f, 0x80, 0x8b, 0x9c, 0xc3, 0xfd, 0xfe, 0xff];
    for a in edge {
        for b in edge {
            out.push(json!({"hex": vv::hex(&[a, b])}));
        }
    }
    out
}

/// Strings of length 3 and 4 over bytes that produce the two alphabet-dependent base64 digits
/// (62/63), padding-relevant zero bits, and UTF-8 lead/continuation bytes.
fn edge3() -> Vec<J> {
    let alpha: [u8; 9] = [0x00, 0x3e, 0x3f, 0x7f, 0x80, 0xbf, 0xfb, 0xfe, 0xff];
    let mut out = Vec::new();
    for a in alpha {
        for b in alpha {
            for c in alpha {
                out.push(json!({"hex": vv::hex(&[a, b, c])}));
            }
        }
    }
    for a in [0x00u8, 0xfb, 0xff] {
        for b in [0x00u8, 0xef, 0xff] {
            for c in [0x00u8, 0xbe, 0xff] {
                for d in [0x00u8, 0x01, 0xff] {
                    out.push(json!({"hex": vv::hex(&[a, b, c, d])}));
                }
            }
        }
    }
    out
}

fn long_lengths(tier: Tier) -> Vec<usize> {
    let mut v: Vec<usize> = (3..=70).collect();
    v.extend([127, 128, 129, 255, 256, 257, 1023, 1024, 1025, 4095, 4096, 4097]);
    if tier.thorough() {
        v.extend(71..=126);
        v.extend([511, 512, 513, 2047, 2048, 2049, 8191, 8192, 8193, 16383, 16384, 16385, 32767, 32768, 32769]);
    }
    v
}

/// One input per (length, pattern).
fn long_inputs(tier: Tier) -> Vec<J> {
    let mut out = Vec::new();
    for len in long_lengths(tier) {
        for pat in ["zeros", "ff", "inc", "rnd", "abc", "text", "runs"] {
            out.push(json!({"pat": pat, "len": len}));
        }
    }
    out
}

/// Inputs around the 64 KiB boundaries.
fn huge_inputs(tier: Tier) -> Vec<J> {
    let mut out = Vec::new();
    for len in [65534usize, 65535, 65536, 65537, 70000] {
        for pat in ["zeros", "rnd", "text"] {
            out.push(json!({"pat": pat, "len": len}));
        }
    }
    for pat in ["rep65535", "rep65536", "rep65537"] {
        out.push(json!({"pat": pat, "len": 140_000}));
    }
    if tier.thorough() {
        for len in [131071usize, 131072, 131073, 1 << 20] {
            for pat in ["zeros", "rnd", "runs", "rep65536"] {
                out.push(json!({"pat": pat, "len": len}));
            }
        }
    }
    out
}

// ---------------------------------------------------------------------------------------------
// generic two-step execution

struct Step {
    enc: Outcome,
    dec: Option<Outcome>,
}

fn bytes_of(o: &Outcome) -> Option<&[u8]> {
    match o {
        Outcome::Ok(Value::Bytes(b)) => Some(b.as_ref()),
        _ => None,
    }
}

fn two_step(enc_src: &str, dec_src: &str, input: &[u8]) -> Step {
    let enc = law::call(enc_src, law::ev1(Value::Bytes(input.to_vec().into())));
    let dec = bytes_of(&enc).map(|b| law::call(dec_src, law::ev1(Value::Bytes(b.to_vec().into()))));
    Step { enc, dec }
}

/// Judge a byte-exact round trip where the encoder must accept every input.
fn judge(w: &J, clause: &str, input: &[u8], st: &Step) -> CaseResult {
    let Some(dec) = &st.dec else {
        return CaseResult::trivial("encoder-failed").violation(Violation::new(
            clause,
            w.clone(),
            "the encoder accepts the input",
            st.enc.show(),
        ));
    };
    let enc_len = bytes_of(&st.enc).map_or(0, <[u8]>::len);
    let class = match enc_len.cmp(&input.len()) {
        std::cmp::Ordering::Less => "encoded-shorter",
        std::cmp::Ordering::Equal => "encoded-same-length",
        std::cmp::Ordering::Greater => "encoded-longer",
    };
    let r = CaseResult::ok(class).count("roundtrips_run", 1);
    if bytes_of(dec) == Some(input) {
        r
    } else {
        r.violation(Violation::new(
            clause,
            w.clone(),
            format!("decoder returns the input {}", show_bytes(input)),
            match bytes_of(dec) {
                Some(b) => format!("ok {}", show_bytes(b)),
                None => dec.show(),
            },
        ))
    }
}

fn opt_args(pairs: &[(&str, &J)]) -> String {
    let mut s = String::new();
    for (k, v) in pairs {
        if v.is_null() {
            continue;
        }
        let lit = match v {
            J::String(x) => vv::str_lit(x),
            other => other.to_string(),
        };
        s.push_str(&format!(", {k}: {lit}"));
    }
    s
}

// ---------------------------------------------------------------------------------------------
// codecs

fn base16_case(w: &J) -> CaseResult {
    let input = input_bytes(&w["in"]);
    let st = two_step("encode_base16!(.a)", "decode_base16!(.a)", &input);
    judge(w, "C22.base16-roundtrip", &input, &st)
}

fn base64_case(w: &J) -> CaseResult {
    let input = input_bytes(&w["in"]);
    let enc = format!("encode_base64!(.a{})", opt_args(&[("padding", &w["padding"]), ("charset", &w["charset"])]));
    let dec = format!("decode_base64!(.a{})", opt_args(&[("charset", &w["dec_charset"])]));
    let st = two_step(&enc, &dec, &input);
    let mut r = judge(w, "C22.base64-roundtrip", &input, &st);
    if let Some(e) = bytes_of(&st.enc) {
        if e.ends_with(b"=") {
            r = r.count("base64_padded_outputs", 1);
        }
        if e.iter().any(|c| matches!(c, b'-' | b'_')) {
            r = r.count("base64_urlsafe_digits_seen", 1);
        }
        if e.iter().any(|c| matches!(c, b'+' | b'/')) {
            r = r.count("base64_standard_digits_seen", 1);
        }
    }
    r
}

const PERCENT_SETS: &[&str] = &[
    "NON_ALPHANUMERIC",
    "CONTROLS",
    "FRAGMENT",
    "QUERY",
    "SPECIAL",
    "PATH",
    "USERINFO",
    "COMPONENT",
    "WWW_FORM_URLENCODED",
];

/// Does the named set escape the `%` character itself? (WHATWG: only the component set and its
/// supersets, and NON_ALPHANUMERIC.)
fn set_escapes_percent(set: Option<&str>) -> bool {
    matches!(set, None | Some("NON_ALPHANUMERIC" | "COMPONENT" | "WWW_FORM_URLENCODED"))
}

fn has_percent_triplet(s: &[u8]) -> bool {
    s.windows(3).any(|w| w[0] == b'%' && w[1].is_ascii_hexdigit() && w[2].is_ascii_hexdigit())
}

fn percent_case(w: &J) -> CaseResult {
    let input = input_bytes(&w["in"]);
    if std::str::from_utf8(&input).is_err() {
        return CaseResult::trivial("not-utf8-out-of-scope");
    }
    let enc = format!("encode_percent!(.a{})", opt_args(&[("ascii_set", &w["set"])]));
    let st = two_step(&enc, "decode_percent!(.a)", &input);
    // Sub-classify (deterministically, from the witness alone) the one failure mode that follows from
    // the definition of the sets: a literal "%XX" in the input survives encoding under a set that does
    // not escape '%' and is then decoded.
    let clause = if !set_escapes_percent(w["set"].as_str()) && has_percent_triplet(&input) {
        "C22.percent-roundtrip.literal-percent-triplet"
    } else {
        "C22.percent-roundtrip"
    };
    let mut r = judge(w, clause, &input, &st);
    if let Some(e) = bytes_of(&st.enc) {
        if e != input.as_slice() {
            r = r.count("percent_inputs_changed_by_encoder", 1);
        }
    }
    r
}

fn level_case(w: &J, name: &str, clause: &str) -> CaseResult {
    let input = input_bytes(&w["in"]);
    // `.a` has kind `any`, which makes every call fallible for the compiler (argument type): hence `!`
    let enc = if w["level"].is_null() {
        format!("encode_{name}!(.a)")
    } else {
        format!("encode_{name}!(.a, compression_level: {})", w["level"])
    };
    let st = two_step(&enc, &format!("decode_{name}!(.a)"), &input);
    let clause = if w["level"].as_i64() == Some(10) { format!("{clause}.level-10") } else { clause.to_string() };
    judge(w, &clause, &input, &st)
}

fn snappy_case(w: &J) -> CaseResult {
    let input = input_bytes(&w["in"]);
    let st = two_step("encode_snappy!(.a)", "decode_snappy!(.a)", &input);
    judge(w, "C22.snappy-roundtrip", &input, &st)
}

fn lz4_case(w: &J) -> CaseResult {
    let input = input_bytes(&w["in"]);
    let enc = format!("encode_lz4!(.a{})", opt_args(&[("prepend_size", &w["prepend_size"])]));
    // buf_size: null = default, "len" = exactly the input length, "len+1"
    let buf = match w["buf_size"].as_str() {
        Some("len") => json!(input.len()),
        Some("len+1") => json!(input.len() + 1),
        _ => J::Null,
    };
    let dec = format!("decode_lz4!(.a{})", opt_args(&[("buf_size", &buf), ("prepended_size", &w["prepended_size"])]));
    let st = two_step(&enc, &dec, &input);
    let matching = w["prepend_size"].as_bool().unwrap_or(true) == w["prepended_size"].as_bool().unwrap_or(false);
    if !matching {
        // The two functions have opposite defaults (encode: prepend_size = true, decode:
        // prepended_size = false); a mismatched pair is not "the matching decoder": counted only.
        let ok = st.dec.as_ref().and_then(bytes_of) == Some(input.as_slice());
        return CaseResult::trivial(if ok { "mismatched-options-roundtrip-ok" } else { "mismatched-options-roundtrip-fails" })
            .count("lz4_mismatched_option_pairs", 1);
    }
    if !w["prepended_size"].as_bool().unwrap_or(false) && buf.is_null() && input.len() > 1_000_000 {
        // documented: buf_size (default 1 000 000) must be at least the uncompressed size
        return CaseResult::trivial("default-buffer-smaller-than-data-out-of-scope").count("lz4_default_buffer_too_small", 1);
    }
    judge(w, "C22.lz4-roundtrip", &input, &st)
}

// --- punycode -------------------------------------------------------------------------------

fn punycode_case(w: &J) -> CaseResult {
    let label = w["in"]["text"].as_str().unwrap_or("");
    let ev = law::ev1(vv::s(label));
    // "valid domain label" = accepted by the validating encoder (and not itself an ACE label, whose
    // encoding is the identity and whose decoding is therefore a different string by design).
    let reference = law::call("encode_punycode!(.a)", ev.clone());
    if bytes_of(&reference).is_none() {
        return CaseResult::trivial("rejected-by-validating-encoder").count("punycode_rejected", 1);
    }
    if label.split('.').any(|l| l.to_ascii_lowercase().starts_with("xn--")) {
        return CaseResult::trivial("ace-label-out-of-scope").count("punycode_ace_inputs_skipped", 1);
    }
    if label.chars().any(char::is_uppercase) {
        // upper-case input is case-mapped by IDNA: not a label in normal form
        return CaseResult::trivial("case-mapped-label-out-of-scope").count("punycode_uppercase_inputs_skipped", 1);
    }
    let enc = format!("encode_punycode!(.a{})", opt_args(&[("validate", &w["enc_validate"])]));
    let dec = format!("decode_punycode!(.a{})", opt_args(&[("validate", &w["dec_validate"])]));
    let st = two_step(&enc, &dec, label.as_bytes());
    let mut r = judge(w, "C22.punycode-roundtrip", label.as_bytes(), &st);
    if let Some(e) = bytes_of(&st.enc) {
        if e != label.as_bytes() {
            r = r.count("punycode_labels_actually_encoded", 1);
        }
        if !e.is_ascii() {
            r = r.count("punycode_non_ascii_encoder_output", 1);
        }
    }
    r
}

/// Characters that are lower-case, NFC-stable and valid (not mapped, not deviation-mapped) under
/// UTS #46, so that a label made of them is its own normal form.
const PUNY_CHARS: &[&str] = &[
    "a", "b", "x", "n", "z", "0", "9", "-", "é", "ü", "ñ", "ß", "ς", "я", "ж", "中", "日", "ا", "ب", "א", "ก", "한",
    "😀", "ı", "œ", "ŋ",
];

fn punycode_labels(tier: Tier) -> Vec<String> {
    let max = if tier.thorough() { 4 } else { 3 };
    let mut out = law::strings_over(PUNY_CHARS, 2);
    // length 3 (and 4) over a reduced alphabet
    let small = ["a", "n", "x", "-", "9", "é", "ß", "中", "ا", "😀"];
    out.extend(law::strings_over(&small, max).into_iter().filter(|s| s.chars().count() > 2));
    out.extend(
        [
            "www.café.com",
            "café.com.",
            "münchen.de",
            "bücher.example",
            "пример.испытание",
            "例え.テスト",
            "a.b.c",
            "straße.de",
            "faß.de",
            "ab--c",
            "-a",
            "a-",
            "a--b.é",
            "3com.é",
            "é.é.é",
            "ééééééééééééééééééééééééééééééééééééééééééééééééééééééééééééééééééé",
            "aaaaaaaaaaaaaaaaaaaaaaaaaaaaaaaaaaaaaaaaaaaaaaaaaaaaaaaaaaaaaaaé",
            "aaaaaaaaaaaaaaaaaaaaaaaaaaaaaaaaaaaaaaaaaaaaaaaaaaaaaaaaaaaaaaaaaaaaé",
            "a\u{10ffff}",
            "\u{e000}",
            "a b",
            "a_b",
            "A",
            "É",
            "Café",
            "xn--caf-dma",
            "xn--",
            "axn--b.é",
            "é.xn--caf-dma",
            ".",
            "..",
            "é.",
            ".é",
        ]
        .map(String::from),
    );
    let mut seen = std::collections::BTreeSet::new();
    out.retain(|s| seen.insert(s.clone()));
    out
}

// --- charset --------------------------------------------------------------------------------

/// (label passed to both functions, repertoire name)
const CHARSETS: &[(&str, &str)] = &[
    ("utf-8", "unicode"),
    ("UTF8", "unicode"),
    ("unicode-1-1-utf-8", "unicode"),
    ("windows-1252", "w1252"),
    ("latin1", "w1252"),
    ("iso-8859-1", "w1252"),
    ("ascii", "w1252"),
    (" CP1252 ", "w1252"),
    ("iso-8859-15", "l9"),
    ("l9", "l9"),
    ("iso-8859-5", "cyr5"),
    ("windows-1251", "cyr1251"),
    ("koi8-r", "koi8"),
    ("x-user-defined", "xud"),
    ("gb18030", "unicode-nopua"),
    ("gbk", "hanzi"),
    ("gb2312", "hanzi"),
    ("big5", "hanzi-trad"),
    ("shift_jis", "jp"),
    ("sjis", "jp"),
    ("euc-jp", "jp"),
    ("iso-2022-jp", "jp-nohalf"),
    ("euc-kr", "kr"),
    ("korean", "kr"),
    ("utf-16le", "utf16-sample"),
    ("utf-16be", "utf16-sample"),
    ("utf-16", "utf16-sample"),
];

fn chars_of(ranges: &[(u32, u32)]) -> Vec<char> {
    ranges.iter().flat_map(|(a, b)| (*a..=*b).filter_map(char::from_u32)).collect()
}

/// Text repertoires that are representable in the named charsets (WHATWG Encoding indexes). They
/// are written down from the published code charts — independently of encoding_rs.
fn repertoire(name: &str) -> Vec<char> {
    let ascii = (0x00, 0x7f);
    match name {
        "unicode" => {
            let mut v = chars_of(&[ascii, (0x80, 0xff), (0x100, 0x17f), (0x390, 0x3ff), (0x400, 0x45f), (0x5d0, 0x5ea)]);
            v.extend(chars_of(&[(0x2000, 0x206f), (0x20ac, 0x20ac), (0x3041, 0x3093), (0x4e00, 0x4e2f), (0xac00, 0xac1f)]));
            v.extend(chars_of(&[(0xd7fb, 0xd7ff), (0xe000, 0xe002), (0xfeff, 0xfeff), (0xfffd, 0xffff), (0x10000, 0x10003)]));
            v.extend(chars_of(&[(0x1f600, 0x1f60f), (0x10fffe, 0x10ffff)]));
            v
        }
        "unicode-nopua" => {
            let mut v = chars_of(&[ascii, (0x80, 0xff), (0x100, 0x17f), (0x390, 0x3ff), (0x400, 0x45f), (0x5d0, 0x5ea)]);
            v.extend(chars_of(&[(0x2010, 0x2040), (0x20ac, 0x20ac), (0x3041, 0x3093), (0x4e00, 0x4e2f), (0x9fa0, 0x9fa5)]));
            v.extend(chars_of(&[(0xac00, 0xac1f), (0xd7fb, 0xd7ff), (0xfffd, 0xfffd), (0x10000, 0x10003)]));
            v.extend(chars_of(&[(0x1f600, 0x1f60f), (0x10fffe, 0x10ffff)]));
            v
        }
        // windows-1252: ASCII, the C1 holes 81 8D 8F 90 9D, Latin-1 A0–FF and the 27 characters of 80–9F
        "w1252" => {
            let mut v = chars_of(&[ascii, (0xa0, 0xff), (0x81, 0x81), (0x8d, 0x8d), (0x8f, 0x90), (0x9d, 0x9d)]);
            v.extend("€‚ƒ„…†‡ˆ‰Š‹ŒŽ‘’“”•–—˜™š›œžŸ".chars());
            v
        }
        // ISO-8859-15 = Latin-1 with 8 replacements (A4 A6 A8 B4 B8 BC BD BE)
        "l9" => {
            let mut v: Vec<char> = chars_of(&[ascii, (0x80, 0x9f), (0xa0, 0xff)])
                .into_iter()
                .filter(|c| !matches!(*c as u32, 0xa4 | 0xa6 | 0xa8 | 0xb4 | 0xb8 | 0xbc | 0xbd | 0xbe))
                .collect();
            v.extend("€ŠšŽžŒœŸ".chars());
            v
        }
        // ISO-8859-5: A1–AC → U+0401–040C, AD soft hyphen, AE–EF → U+040E–044F, F0 №, F1–FC → U+0451–045C, FD §, FE FF → 045E 045F
        "cyr5" => {
            let mut v = chars_of(&[ascii, (0x80, 0xa0), (0xad, 0xad), (0x401, 0x40c), (0x40e, 0x44f), (0x451, 0x45c), (0x45e, 0x45f)]);
            v.extend("№§".chars());
            v
        }
        "cyr1251" => {
            let mut v = chars_of(&[ascii, (0x410, 0x44f), (0xa0, 0xa0)]);
            v.extend("ЂЃ‚ѓ„…†‡€‰Љ‹ЊЌЋЏђ‘’“”•–—™љ›њќћџЎўЈ¤Ґ¦§Ё©Є«¬®Ї°±Ііґµ¶·ё№є»јЅѕї".chars());
            v
        }
        "koi8" => {
            let mut v = chars_of(&[ascii, (0x410, 0x44f)]);
            v.extend("ёЁ─│┌┐└┘├┤┬┴┼▀▄█▌▐░▒▓⌠■∙√≈≤≥\u{a0}⌡°²·÷═║╒╓╔╕╖╗╘╙╚╛╜╝╞╟╠╡╢╣╤╥╦╧╨╩╪╫╬©".chars());
            v
        }
        "xud" => chars_of(&[ascii, (0xf780, 0xf7ff)]),
        "hanzi" => {
            let mut v = chars_of(&[(0x20, 0x7e)]);
            v.extend("你好世界中文汉字简体一二三四五六七八九十人大小上下左右，。！？、「」αβγАБВ€".chars());
            v
        }
        "hanzi-trad" => {
            let mut v = chars_of(&[(0x20, 0x7e)]);
            v.extend("你好世界中文漢字繁體一二三四五六七八九十人大小上下左右，。！？、「」".chars());
            v
        }
        "jp" => {
            let mut v = chars_of(&[(0x20, 0x7e), (0x3041, 0x3093), (0x30a1, 0x30f6), (0xff61, 0xff9f)]);
            v.extend("日本語漢字東京一二三四五六七八九十、。「」ＡＢＣ１２３αβγАБВ".chars());
            v
        }
        "jp-nohalf" => {
            let mut v = chars_of(&[(0x20, 0x7e), (0x3041, 0x3093), (0x30a1, 0x30f6)]);
            v.extend("日本語漢字東京一二三四五六七八九十、。「」ＡＢＣ１２３αβγАБВ¥‾".chars());
            v
        }
        "kr" => {
            let mut v = chars_of(&[(0x20, 0x7e), (0xac00, 0xac3f), (0xd780, 0xd7a3)]);
            v.extend("안녕하세요한국어똠뷁漢字、。αβγАБВ".chars());
            v
        }
        _ => panic!("unknown repertoire {name}"),
    }
}

/// Texts that look like a byte-order mark once encoded in a single-byte charset, and texts that
/// begin with U+FEFF.
fn bom_texts(rep: &str) -> Vec<String> {
    match rep {
        "w1252" | "l9" => vec!["ï»¿".into(), "ï»¿abc".into(), "ÿþ".into(), "þÿ".into(), "ÿþa\u{0}".into(), "aï»¿".into(), "ï»".into()],
        "unicode" => vec!["\u{feff}".into(), "\u{feff}abc".into(), "a\u{feff}".into(), "\u{feff}\u{feff}".into(), "\u{fffe}".into()],
        "xud" => vec!["\u{f7ef}\u{f7bb}\u{f7bf}".into(), "\u{f7ff}\u{f7fe}".into(), "\u{f7fe}\u{f7ff}ab".into()],
        _ => vec![],
    }
}

fn charset_texts(rep: &str, tier: Tier) -> Vec<String> {
    if rep == "utf16-sample" {
        // every text is representable in UTF-16; a handful suffices to show what happens
        return ["", "a", "ab", "é", "中", "😀", "hello world", "\u{feff}a"].map(String::from).to_vec();
    }
    let chars = repertoire(rep);
    let mut out: Vec<String> = vec![String::new()];
    out.extend(chars.iter().map(|c| c.to_string()));
    // pairs over a strided subset (state changes of stateful encoders, lead/trail interplay)
    let stride = if tier.thorough() { 3 } else { 7 };
    let sub: Vec<char> = chars.iter().copied().step_by(stride).collect();
    let sub2: Vec<char> = sub.iter().copied().step_by(if tier.thorough() { 2 } else { 4 }).collect();
    for a in &sub2 {
        for b in &sub {
            out.push(format!("{a}{b}"));
        }
    }
    // the whole repertoire, forwards and backwards, and ASCII-interleaved
    out.push(chars.iter().collect());
    out.push(chars.iter().rev().collect());
    out.push(chars.iter().flat_map(|c| [*c, 'a']).collect());
    out.extend(bom_texts(rep));
    let mut seen = std::collections::BTreeSet::new();
    out.retain(|s| seen.insert(s.clone()));
    out
}

fn charset_case(w: &J) -> CaseResult {
    let label = w["charset"].as_str().unwrap_or("");
    let text = w["in"]["text"].as_str().unwrap_or("");
    let enc = format!("encode_charset!(.a, {})", vv::str_lit(label));
    let dec = format!("decode_charset!(.a, {})", vv::str_lit(label));
    let st = two_step(&enc, &dec, text.as_bytes());
    // sub-classification of the two by-construction failure families: UTF-16 targets (encoding_rs
    // encodes them as UTF-8), and encoder outputs that begin with the bytes of a byte-order mark
    // (EF BB BF / FF FE / FE FF), which the decoder sniffs and strips whatever charset was named
    let l = label.trim().to_ascii_lowercase();
    let starts_with_bom = bytes_of(&st.enc)
        .is_some_and(|e| e.starts_with(&[0xEF, 0xBB, 0xBF]) || e.starts_with(&[0xFF, 0xFE]) || e.starts_with(&[0xFE, 0xFF]));
    let clause = if l.starts_with("utf-16") {
        "C22.charset-roundtrip.utf16"
    } else if starts_with_bom {
        "C22.charset-roundtrip.bom-lookalike"
    } else {
        "C22.charset-roundtrip"
    };
    let mut r = judge(w, clause, text.as_bytes(), &st);
    if let Some(e) = bytes_of(&st.enc) {
        if e != text.as_bytes() {
            r = r.count("charset_outputs_differing_from_utf8", 1);
        }
    }
    r
}

// ---------------------------------------------------------------------------------------------

fn case(w: &J) -> CaseResult {
    match w["codec"].as_str().unwrap_or("") {
        "base16" => base16_case(w),
        "base64" => base64_case(w),
        "percent" => percent_case(w),
        "punycode" => punycode_case(w),
        "gzip" => level_case(w, "gzip", "C22.gzip-roundtrip"),
        "zlib" => level_case(w, "zlib", "C22.zlib-roundtrip"),
        "zstd" => level_case(w, "zstd", "C22.zstd-roundtrip"),
        "snappy" => snappy_case(w),
        "lz4" => lz4_case(w),
        "charset" => charset_case(w),
        _ => CaseResult::trivial("unknown-codec"),
    }
}

fn with(base: &J, input: &J) -> J {
    let mut w = base.clone();
    w["in"] = input.clone();
    w
}

fn percent_texts(tier: Tier) -> Vec<J> {
    let mut out: Vec<String> = vec![String::new()];
    let ascii: Vec<String> = (0u8..0x80).map(|b| (b as char).to_string()).collect();
    out.extend(ascii.iter().cloned());
    for a in &ascii {
        for b in &ascii {
            out.push(format!("{a}{b}"));
        }
    }
    // every character any set distinguishes, each followed / preceded by a multi-byte character
    for c in (0u8..0x80).map(|b| b as char).chain("é€😀\u{fffd}\u{feff}\u{80}\u{7ff}\u{800}\u{ffff}\u{10000}\u{10ffff}".chars()) {
        out.push(format!("é{c}"));
        out.push(format!("{c}😀"));
        out.push(format!("{c}{c}{c}"));
    }
    // '%' followed by hex digits and near misses (length 3 and 4)
    let a3: Vec<&str> = vec!["%", "2", "5", "4", "1", "A", "f", "G", " ", "+", "é", "/", "~", "\u{0}"];
    out.extend(law::strings_over(&a3, 3).into_iter().filter(|s| s.chars().count() == 3));
    let a4: Vec<&str> = if tier.thorough() { vec!["%", "4", "1", "a", "é"] } else { vec!["%", "4", "a", "é"] };
    out.extend(law::strings_over(&a4, 4).into_iter().filter(|s| s.chars().count() >= 4));
    let mut seen = std::collections::BTreeSet::new();
    out.retain(|s| seen.insert(s.clone()));
    let mut v: Vec<J> = out.into_iter().map(|s| json!({"text": s})).collect();
    for len in [64usize, 255, 1024, 4096] {
        v.push(json!({"pat": "text", "len": len}));
        v.push(json!({"pat": "abc", "len": len}));
    }
    v.push(json!({"pat": "inc", "len": 128}));
    v
}

fn drive_product(rep: &mut Report, group: &str, combos: &[J], inputs: &[&J]) {
    let m = inputs.len() as u64;
    if m == 0 || combos.is_empty() {
        return;
    }
    let t0 = std::time::Instant::now();
    law::drive_indexed(
        rep,
        group,
        combos.len() as u64 * m,
        |i| with(&combos[(i / m) as usize], inputs[(i % m) as usize]),
        case,
    );
    if std::env::var("VERIF_TIMING").is_ok() {
        eprintln!("timing {group}: {} cases in {:.2}s", combos.len() as u64 * m, t0.elapsed().as_secs_f64());
    }
}

pub fn run(tier: Tier) -> Report {
    let mut rep = Report::new("C22", tier, "exploration");
    rep.set(
        "rule",
        "per codec: inputs x every option combination. Inputs: all byte strings of length <= 2 (65 793), 3-4 byte strings over base64/UTF-8 edge bytes, one input per (length 3..70, 127..129, 255..257, 1023..1025, 4095..4097) x 7 patterns, inputs around 64 KiB; percent: all ASCII strings of length <= 2, '%'-triplet look-alikes, multi-byte text; punycode: labels of length <= 3 over 26 normal-form characters + named domains; charset: per charset every character of a hand-written representable repertoire, strided pairs, the whole repertoire, BOM look-alikes. A case is non-trivial when the encoder accepted the input and the decoder was run on its output; distinct = distinct witness.",
    );
    rep.assume("oracle = the inverse function only: decode(encode(b)) == b byte for byte; encoder output, its length and error texts are not judged");
    rep.assume("percent / punycode / charset inputs are valid UTF-8 (property: 'for UTF-8 input', 'valid domain labels', 'text representable in the charset')");
    rep.assume("punycode: a label is 'valid' iff encode_punycode with validation accepts it, it is made of lower-case NFC-stable characters that UTS #46 does not map, and it is not itself an xn-- label");
    rep.assume("charset: the representable repertoires are written down from the WHATWG/ISO code charts, independently of encoding_rs");
    rep.assume("lz4: encode(prepend_size = p) is matched with decode(prepended_size = p); the all-default pair is mismatched by design (opposite defaults) and only counted");

    let short = all_short();
    let edge = edge3();
    let long = long_inputs(tier);
    let huge = huge_inputs(tier);
    let binary: Vec<&J> = short.iter().chain(&edge).chain(&long).chain(&huge).collect();
    // compression codecs: the exhaustive short strings only in the thorough tier
    let short_small = some_short();
    let shorts: Vec<&J> = if tier.thorough() { short.iter().collect() } else { short_small.iter().collect() };
    let not_short: Vec<&J> = edge.iter().chain(&long).chain(&huge).collect();
    rep.set("binary_inputs", binary.len() as u64);

    // base16
    drive_product(&mut rep, "base16", &[json!({"codec": "base16"})], &binary);

    // base64: encoder padding x encoder charset x every decoder charset spelling that matches
    let mut combos = Vec::new();
    for padding in [J::Null, json!(true), json!(false)] {
        for (cs, decs) in [
            (J::Null, vec![J::Null, json!("standard")]),
            (json!("standard"), vec![J::Null, json!("standard")]),
            (json!("url_safe"), vec![json!("url_safe")]),
        ] {
            for d in decs {
                combos.push(json!({"codec": "base64", "padding": padding, "charset": cs, "dec_charset": d}));
            }
        }
    }
    rep.set("base64_option_combinations", combos.len() as u64);
    drive_product(&mut rep, "base64", &combos, &binary);

    // percent
    let texts = percent_texts(tier);
    let text_refs: Vec<&J> = texts.iter().collect();
    let mut combos = vec![json!({"codec": "percent", "set": J::Null})];
    combos.extend(PERCENT_SETS.iter().map(|s| json!({"codec": "percent", "set": s})));
    drive_product(&mut rep, "percent", &combos, &text_refs);

    // punycode: encoder validate x decoder validate (absent / true / false each)
    let labels: Vec<J> = punycode_labels(tier).into_iter().map(|l| json!({"text": l})).collect();
    let label_refs: Vec<&J> = labels.iter().collect();
    let mut combos = Vec::new();
    for ev in [J::Null, json!(true), json!(false)] {
        for dv in [J::Null, json!(true), json!(false)] {
            combos.push(json!({"codec": "punycode", "enc_validate": ev, "dec_validate": dv}));
        }
    }
    drive_product(&mut rep, "punycode", &combos, &label_refs);

    // gzip / zlib: default + every accepted level 0..=10. The exhaustive short strings run on the
    // default and the extreme levels (all levels in the thorough tier); everything longer on every level.
    for name in ["gzip", "zlib"] {
        let levels: Vec<J> = std::iter::once(J::Null).chain((0..=9).map(|l| json!(l))).collect();
        let all: Vec<J> = levels.iter().map(|l| json!({"codec": name, "level": l})).collect();
        drive_product(&mut rep, &format!("{name}/short"), &all, &shorts);
        drive_product(&mut rep, &format!("{name}/long"), &all, &not_short);
        // Level 10 is the largest level the functions accept (MAX_COMPRESSION_LEVEL); with the zlib-rs
        // backend of flate2 it panics for every input (reported), so a handful of inputs suffice.
        let ten_inputs = [json!({"hex": ""}), json!({"hex": "00"}), json!({"text": "hello"}), json!({"pat": "text", "len": 4096})];
        let ten_refs: Vec<&J> = ten_inputs.iter().collect();
        drive_product(&mut rep, &format!("{name}/level-10"), &[json!({"codec": name, "level": 10})], &ten_refs);
    }

    // zstd: default, negative ("fast"), 0 (= default), regular and high levels; the high levels
    // (large match-finder tables) only on a sample of the longer inputs.
    {
        let mk = |ls: &[J]| -> Vec<J> { ls.iter().map(|l| json!({"codec": "zstd", "level": l})).collect() };
        let regular = mk(&[J::Null, json!(-7), json!(-1), json!(0), json!(1), json!(3), json!(9)]);
        drive_product(&mut rep, "zstd/short", &regular, &shorts);
        drive_product(&mut rep, "zstd/long", &regular, &not_short);
        // high levels cost ~0.1-0.5 s per call (table allocation): a few inputs only
        let high = if tier.thorough() { mk(&[json!(15), json!(19), json!(22)]) } else { mk(&[json!(19)]) };
        let hi_inputs: Vec<J> = if tier.thorough() {
            long.iter().step_by(53).chain(huge.iter().step_by(9)).cloned().collect()
        } else {
            vec![
                json!({"hex": ""}),
                json!({"hex": "00"}),
                json!({"pat": "runs", "len": 257}),
                json!({"pat": "rnd", "len": 4096}),
                json!({"pat": "text", "len": 4097}),
                json!({"pat": "text", "len": 70000}),
                json!({"pat": "rep65536", "len": 140_000}),
                json!({"pat": "zeros", "len": 65536}),
            ]
        };
        let sample: Vec<&J> = hi_inputs.iter().collect();
        drive_product(&mut rep, "zstd/high-levels", &high, &sample);
    }

    // snappy
    drive_product(&mut rep, "snappy", &[json!({"codec": "snappy"})], &binary);

    // lz4: matching pairs (incl. the decode buffer exactly as large as the data), and the mismatched
    // default pair (counted, not judged)
    {
        let combos = vec![
            json!({"codec": "lz4", "prepend_size": J::Null, "prepended_size": true, "buf_size": J::Null}),
            json!({"codec": "lz4", "prepend_size": true, "prepended_size": true, "buf_size": J::Null}),
            json!({"codec": "lz4", "prepend_size": true, "prepended_size": true, "buf_size": "len"}),
            json!({"codec": "lz4", "prepend_size": false, "prepended_size": false, "buf_size": J::Null}),
            json!({"codec": "lz4", "prepend_size": false, "prepended_size": J::Null, "buf_size": J::Null}),
            json!({"codec": "lz4", "prepend_size": false, "prepended_size": false, "buf_size": "len"}),
            json!({"codec": "lz4", "prepend_size": false, "prepended_size": J::Null, "buf_size": "len+1"}),
        ];
        drive_product(&mut rep, "lz4", &combos, &binary);
        let default_pair = [json!({"codec": "lz4", "prepend_size": J::Null, "prepended_size": J::Null, "buf_size": J::Null})];
        drive_product(&mut rep, "lz4/default-pair", &default_pair, &not_short);
    }

    // charset
    {
        let mut cases = Vec::new();
        for (label, repn) in CHARSETS {
            for t in charset_texts(repn, tier) {
                cases.push(json!({"codec": "charset", "charset": label, "in": {"text": t}}));
            }
        }
        law::drive(&mut rep, "charset", &cases, case);
    }
    rep
}

pub fn replay(_property: &str, w: &J) -> Vec<Violation> {
    case(w).violations
}
