//! C14 — evaluation is deterministic and thread-safe (DESIGN §3.10).
//! (A) compile determinism: every program compiled twice in this process and once in a second
//!     process (different hash seeds) must give the same outcome digest;
//! (B) histories: `run(h); clear(); run(e)` on one Runtime equals a fresh `run(e)`, with a shared
//!     and with a recompiled Program, for every ordered pair of events;
//! (C) schedules: ALL interleavings (controlled scheduler over hook H3) of 2 (thorough 3) threads
//!     sharing one `Arc<Program>`; every thread's result equals its solo run; no deadlock.

use crate::props::pm;
use crate::report::{Report, Tier, Violation, verif_root};
use crate::sched;
use crate::util::guarded;
use crate::vrlx::{self, Outcome};
use crate::vv;
use serde_json::{Value as J, json};
use std::collections::BTreeSet;
use std::io::Write;
use std::sync::Arc;
use std::sync::atomic::{AtomicU64, Ordering};
use vrl::compiler::runtime::Runtime;
use vrl::compiler::state::ExternalEnv;
use vrl::compiler::{CompileConfig, Function, Program};
use vrl::value::Value;

thread_local! {
    static FNS: Vec<Box<dyn Function>> = vrlx::fns();
}

// ---------------------------------------------------------------------------------------------
// (A) compile determinism

fn programs_a(tier: Tier) -> Vec<String> {
    let mut v = pm::stmts(tier);
    let core = pm::core_stmts();
    for a in &core {
        for b in &core {
            v.push(format!("{a}\n{b}"));
        }
    }
    // rejected programs with several diagnostics / suggestions / many variables
    for s in [
        "a = b + c + d", "x = y; z = w; q = r", "upcaze(.a)", "to_int(.a)\nto_string(.b)\nfoo(.c)", ".a = 1 +", "x = 1\ny = 2\nz = 3\nw = x + q + y + p", "if .a { 1 } else { \"s\" }",
        "parse_json(.a).b.c", "a = 1; b = 2; c = 3; d = 4; e = 5; f = 6; g = 7; h = a + b + c + d + e + f + g; .r = h", "x = {\"k1\": .a, \"k2\": .b, \"k3\": %m, \"k4\": .c.d, \"k5\": .e[0]}",
        ".a = .b; .c = .d; %m = .e; del(.f); .g |= {\"h\": .i}", "for_each({\"a\": 1, \"b\": 2}) -> |k, v| { .out = k; .n = v }", "1\n\"s\"\n.a\nnull", "abort", "return 1; .a = 2",
    ] {
        v.push(s.to_string());
    }
    // the repository's own corpus (accepted and rejected programs alike)
    for c in crate::corpus::load() {
        v.push(c.src);
    }
    v.sort();
    v.dedup();
    v
}

/// Everything "outcome" means for a compilation (DESIGN §3.10 A); suggestion wording is excluded.
pub fn compile_digest(src: &str) -> String {
    let r = FNS.with(|fns| guarded(|| vrlx::compile_ext(src, fns, &ExternalEnv::default(), CompileConfig::default())));
    match r {
        Err(p) => format!("PANIC {p}"),
        Ok(Err(d)) => {
            let items: Vec<String> = d
                .iter()
                .map(|x| format!("E{}@{}", x.code, x.labels.iter().map(|l| format!("{}..{}{}", l.span.start(), l.span.end(), if l.primary { "!" } else { "" })).collect::<Vec<_>>().join(",")))
                .collect();
            format!("REJECT {}", items.join(" | "))
        }
        Ok(Ok(res)) => {
            let warnings: Vec<String> = res.warnings.iter().map(|x| format!("W{}@{}", x.code, x.labels.iter().map(|l| format!("{}..{}", l.span.start(), l.span.end())).collect::<Vec<_>>().join(","))).collect();
            let info = res.program.info();
            let ti = res.program.final_type_info();
            let mut locals = String::new();
            for (n, k, c) in ti.state.local.verif_bindings() {
                locals.push_str(&format!("{n}:"));
                pm::kind_sig(&k, &mut locals);
                if let Some(c) = c {
                    locals.push_str(&format!("={}", vv::show(&c)));
                }
                locals.push(';');
            }
            let mut kinds = String::new();
            pm::kind_sig(ti.result.kind(), &mut kinds);
            kinds.push('|');
            pm::kind_sig(ti.result.returns(), &mut kinds);
            kinds.push('|');
            pm::kind_sig(ti.state.external.target_kind(), &mut kinds);
            kinds.push('|');
            pm::kind_sig(ti.state.external.metadata_kind(), &mut kinds);
            format!(
                "ACCEPT warnings[{}] fallible={} abortable={} queries[{}] assignments[{}] result_fallible={} types[{kinds}] locals[{locals}]",
                warnings.join(" "),
                info.fallible,
                info.abortable,
                info.target_queries.iter().map(ToString::to_string).collect::<Vec<_>>().join(","),
                info.target_assignments.iter().map(ToString::to_string).collect::<Vec<_>>().join(","),
                ti.result.is_fallible(),
            )
        }
    }
}

/// `vrlmc worker c14digest <file>`: one digest line per program (programs are JSON strings, one per line).
pub fn worker_main(args: &[String]) -> i32 {
    let text = std::fs::read_to_string(&args[0]).expect("programs file");
    let out = std::io::stdout();
    let mut out = out.lock();
    for line in text.lines() {
        let src: String = serde_json::from_str(line).expect("program line");
        writeln!(out, "{}", serde_json::to_string(&compile_digest(&src)).unwrap()).ok();
    }
    0
}

fn part_a(rep: &mut Report, tier: Tier) {
    let progs = programs_a(tier);
    let first: Vec<String> = progs.iter().map(|p| compile_digest(p)).collect();
    let second: Vec<String> = progs.iter().map(|p| compile_digest(p)).collect();
    // second process
    let dir = verif_root().join("work");
    std::fs::create_dir_all(&dir).ok();
    let file = dir.join("c14.programs");
    std::fs::write(&file, progs.iter().map(|p| serde_json::to_string(p).unwrap()).collect::<Vec<_>>().join("\n")).expect("write programs");
    let mut other: Vec<Vec<String>> = Vec::new();
    for _ in 0..2 {
        let out = std::process::Command::new(std::env::current_exe().expect("exe")).args(["worker", "c14digest", file.to_str().unwrap()]).output().expect("digest worker");
        let lines: Vec<String> = String::from_utf8_lossy(&out.stdout).lines().map(|l| serde_json::from_str::<String>(l).unwrap_or_default()).collect();
        other.push(lines);
    }
    std::fs::remove_file(&file).ok();
    let mut accepted = 0u64;
    let mut classes: BTreeSet<String> = BTreeSet::new();
    for (i, p) in progs.iter().enumerate() {
        let w = json!({"part": "compile-determinism", "program": p});
        if first[i].starts_with("ACCEPT") {
            accepted += 1;
        }
        classes.insert(first[i].split_whitespace().next().unwrap_or("").to_string());
        if first[i] != second[i] {
            rep.violation(Violation::new("C14.compile-twice-same-process", w.clone(), first[i].clone(), second[i].clone()));
        }
        for o in &other {
            match o.get(i) {
                Some(d) if *d == first[i] => {}
                Some(d) => rep.violation(Violation::new("C14.compile-in-another-process", w.clone(), first[i].clone(), d.clone())),
                None => rep.violation(Violation::new("C14.compile-in-another-process", w.clone(), first[i].clone(), "no digest (worker died)")),
            }
        }
    }
    rep.add("evaluations", progs.len() as u64 * 4);
    rep.add("distinct_nontrivial", progs.len() as u64);
    rep.set("A_programs", progs.len() as u64);
    rep.set("A_programs_accepted", accepted);
    rep.set("A_digest_classes", classes.len() as u64);
    rep.sample(json!({"part": "compile-determinism", "program": progs[progs.len() / 2], "digest": first[progs.len() / 2]}));
}

// ---------------------------------------------------------------------------------------------
// (B) histories

static SCHEMA_SEQ: AtomicU64 = AtomicU64::new(0);

/// A fresh copy of the test schema (own path ⇒ own cache entries): has a `format` the validator
/// does not know, so `ignore_unknown_formats` decides whether compiling it succeeds.
fn fresh_schema() -> String {
    let dir = verif_root().join("work").join("c14-schemas");
    std::fs::create_dir_all(&dir).ok();
    let n = SCHEMA_SEQ.fetch_add(1, Ordering::Relaxed);
    let p = dir.join(format!("s-{:010}-{n:010}.json", std::process::id())); // fixed width: spans quoted in error texts must not depend on the counter
    std::fs::write(&p, r#"{"type":"object","properties":{"v":{"type":"string","format":"no-such-format"},"n":{"type":"integer"}},"required":["n"]}"#).expect("schema file");
    p.to_string_lossy().to_string()
}

fn cleanup_schemas() {
    std::fs::remove_dir_all(verif_root().join("work").join("c14-schemas")).ok();
}

fn events_b() -> Vec<Value> {
    use vv::{arr, i, obj, s};
    let t = Value::Boolean(true);
    let f = Value::Boolean(false);
    vec![
        obj(&[]),
        obj(&[("a", i(1)), ("c", t.clone()), ("flag", t.clone()), ("doc", s("{\"n\": 1, \"v\": \"x\"}"))]),
        obj(&[("a", s("s")), ("c", f.clone()), ("flag", f.clone()), ("doc", s("{\"n\": 1, \"v\": \"x\"}"))]),
        obj(&[("a", arr(&[i(1), s("s"), t.clone()])), ("flag", t), ("doc", s("{\"v\": 3}"))]),
        obj(&[("a", obj(&[("b", i(2))])), ("c", Value::Null), ("flag", f), ("doc", s("not json"))]),
    ]
}

fn compile(src: &str) -> Option<Program> {
    FNS.with(|fns| guarded(|| vrlx::compile_ext(src, fns, &ExternalEnv::default(), CompileConfig::default())).ok().and_then(Result::ok).map(|r| r.program))
}

fn run_on(rt: &mut Runtime, p: &Program, e: &Value) -> (Outcome, Value, Value) {
    let mut t = vrlx::target(e.clone(), vrlx::empty_object());
    let tz = vrlx::utc();
    let o = vrlx::from_runtime_result(rt.resolve(&mut t, p, &tz));
    (o, t.value, t.metadata)
}

fn same(a: &(Outcome, Value, Value), b: &(Outcome, Value, Value)) -> bool {
    let o = match (&a.0, &b.0) {
        (Outcome::Error(_), Outcome::Error(_)) => true,
        (x, y) => x == y,
    };
    o && a.1 == b.1 && a.2 == b.2
}

fn show3(x: &(Outcome, Value, Value)) -> String {
    format!("{} event {} metadata {}", x.0.show(), vv::show(&x.1), vv::show(&x.2))
}

const SCHEMA_TEMPLATES: [&str; 3] = [
    ".r = validate_json_schema!(string!(.doc), \"$S\", ignore_unknown_formats: bool!(.flag))",
    ".r, .e = validate_json_schema(string(.doc) ?? \"{}\", \"$S\", ignore_unknown_formats: bool(.flag) ?? false)",
    ".r1 = validate_json_schema(string!(.doc), \"$S\", ignore_unknown_formats: true) ?? \"err\"\n.r2 = validate_json_schema(string!(.doc), \"$S\", ignore_unknown_formats: false) ?? \"err\"",
];

fn part_b(rep: &mut Report, tier: Tier) {
    let evs = events_b();
    let mut progs: Vec<String> = pm::stmts(tier);
    let core = pm::core_stmts();
    for a in &core {
        for b in &core {
            progs.push(format!("{a}\n{b}"));
        }
    }
    let mut cases = 0u64;
    let mut accepted = 0u64;
    let mut check = |rep: &mut Report, template: &str, fresh_paths: bool| {
        // a fresh schema path per (history, event) keeps executions from aliasing through the global cache
        let instantiate = |t: &str| if fresh_paths { t.replace("$S", &fresh_schema()) } else { t.to_string() };
        let probe = instantiate(template);
        if compile(&probe).is_none() {
            return;
        }
        accepted += 1;
        for (hi, h) in evs.iter().enumerate() {
            for (ei, e) in evs.iter().enumerate() {
                cases += 1;
                let w = json!({"part": "history", "program": template, "history_event": vv::enc(h), "event": vv::enc(e)});
                // reference: fresh program, fresh runtime
                let src_ref = instantiate(template);
                let Some(p_ref) = compile(&src_ref) else { continue };
                let r = guarded(|| {
                    let mut rt = Runtime::default();
                    run_on(&mut rt, &p_ref, e)
                });
                let reference = match r {
                    Ok(x) => x,
                    Err(p) => {
                        rep.violation(Violation::new("C14.panic", w, "no panic", p));
                        continue;
                    }
                };
                // same Program, one Runtime: run(h); clear(); run(e)
                let src = instantiate(template);
                let Some(p) = compile(&src) else { continue };
                let r = guarded(|| {
                    let mut rt = Runtime::default();
                    let _ = run_on(&mut rt, &p, h);
                    rt.clear();
                    let after_clear = run_on(&mut rt, &p, e);
                    // recompiled program on the same (cleared) runtime
                    let p2 = compile(&src).expect("second compilation of an accepted program");
                    rt.clear();
                    let recompiled = run_on(&mut rt, &p2, e);
                    (after_clear, recompiled)
                });
                match r {
                    Err(pn) => rep.violation(Violation::new("C14.panic", w.clone(), "no panic", pn)),
                    Ok((after_clear, recompiled)) => {
                        if !same(&reference, &after_clear) {
                            rep.violation(Violation::new("C14.history-dependence-after-clear", w.clone(), show3(&reference), show3(&after_clear)));
                        }
                        if !same(&reference, &recompiled) {
                            rep.violation(Violation::new("C14.history-dependence-recompiled-program", w.clone(), show3(&reference), show3(&recompiled)));
                        }
                    }
                }
                if hi == 1 && ei == 2 && rep.samples.len() < 4 {
                    rep.sample(w);
                }
            }
        }
    };
    for p in &progs {
        check(rep, p, false);
    }
    for t in SCHEMA_TEMPLATES {
        check(rep, t, true);
    }
    rep.add("evaluations", cases * 3);
    rep.add("distinct_nontrivial", cases);
    rep.set("B_programs_accepted", accepted);
    rep.set("B_history_cases", cases);
}

/// (B2) histories of stdlib calls: for every stdlib function and every ordered pair (h, e) of argument
/// tuples from the sweep alphabets, `run(h); clear(); run(e)` on one thread equals `run(e)` on a fresh
/// thread (fresh thread-local state). Catches scratch buffers / caches hidden inside a function.
fn part_b2(rep: &mut Report, tier: Tier) {
    use crate::props::sweep;
    let specs = sweep::specs(tier);
    let per_fn = if tier.thorough() { 16 } else { 6 };
    let mut functions = 0u64;
    let mut pairs = 0u64;
    let mut differing_refs = 0u64;
    for spec in &specs {
        if sweep::NONDETERMINISTIC.contains(&spec.name.as_str()) || spec.name == "validate_json_schema" {
            continue;
        }
        // runtime-mode tuples with literal-evaluable arguments, grouped by argument shape (same program text)
        let mut by_args: std::collections::BTreeMap<String, Vec<Value>> = std::collections::BTreeMap::new();
        for c in sweep::cases_for(spec, 40, false) {
            if c["mode"] != "runtime" {
                continue;
            }
            let mut ev = std::collections::BTreeMap::new();
            let mut ok = true;
            for (n, e) in c["event_src"].as_array().cloned().unwrap_or_default().iter().enumerate() {
                let v = match e {
                    J::String(t) => sweep::eval_literal(t),
                    o => Some(vv::dec(&o["$value"])),
                };
                match v {
                    Some(v) => {
                        ev.insert(vrl::value::KeyString::from(format!("a{n}")), v);
                    }
                    None => ok = false,
                }
            }
            // this part runs in-process: extreme counts (which may legitimately exhaust memory or take
            // long — C05's business, examined in sacrificial workers) are kept out of the histories
            fn tame(v: &Value) -> bool {
                match v {
                    Value::Integer(i) => i.unsigned_abs() <= 10_000,
                    Value::Float(f) => f.is_finite() && f.abs() <= 1e9,
                    Value::Array(a) => a.iter().all(tame),
                    Value::Object(o) => o.values().all(tame),
                    _ => true,
                }
            }
            ok &= ev.values().all(tame);
            if ok {
                let key = format!("{}({}){}", spec.name, c["args"].as_str().unwrap_or(""), c["closure"].as_str().unwrap_or(""));
                by_args.entry(key).or_default().push(Value::Object(ev));
            }
        }
        let mut any = false;
        for (call, events) in by_args {
            let events: Vec<Value> = events.into_iter().take(per_fn).collect();
            if events.len() < 2 {
                continue;
            }
            let bang = call.replacen('(', "!(", 1);
            let src = [format!(".r, .err = {call}"), format!(".r = {call}"), format!(".r = {bang}")].into_iter().find(|s| compile(s).is_some());
            let Some(src) = src else { continue };
            any = true;
            let program = Arc::new(compile(&src).expect("compiles"));
            // reference: a FRESHLY COMPILED program on a fresh thread (state kept inside a compiled node must not leak in)
            let fresh = |e: &Value| -> Option<(Outcome, Value, Value)> {
                let p = compile(&src)?;
                let e = e.clone();
                std::thread::spawn(move || guarded(|| {
                    let mut rt = Runtime::default();
                    run_on(&mut rt, &p, &e)
                }).ok()).join().ok().flatten()
            };
            let refs: Vec<Option<(Outcome, Value, Value)>> = events.iter().map(&fresh).collect();
            for (hi, h) in events.iter().enumerate() {
                for (ei, e) in events.iter().enumerate() {
                    if hi == ei {
                        continue;
                    }
                    let Some(want) = &refs[ei] else { continue };
                    pairs += 1;
                    let p = program.clone();
                    let (h2, e2) = (h.clone(), e.clone());
                    let got = std::thread::spawn(move || guarded(|| {
                        let mut rt = Runtime::default();
                        let _ = run_on(&mut rt, &p, &h2);
                        rt.clear();
                        run_on(&mut rt, &p, &e2)
                    }).ok()).join().ok().flatten();
                    let Some(got) = got else { continue };
                    if !same(want, &got) {
                        rep.violation(Violation::new(
                            "C14.stdlib-call-depends-on-history",
                            json!({"part": "stdlib-history", "program": src, "history_event": vv::enc(h), "event": vv::enc(e)}),
                            show3(want),
                            show3(&got),
                        ));
                    }
                }
            }
            // process-global state: the reference taken again after all the histories must not have moved
            for (ei, e) in events.iter().enumerate() {
                if let (Some(a), Some(b)) = (&refs[ei], fresh(e)) {
                    if !same(a, &b) {
                        differing_refs += 1;
                        rep.violation(Violation::new(
                            "C14.stdlib-call-depends-on-process-history",
                            json!({"part": "stdlib-history", "program": src, "event": vv::enc(e)}),
                            show3(a),
                            show3(&b),
                        ));
                    }
                }
            }
        }
        functions += u64::from(any);
    }
    // (B3) call shapes with compile-time arguments (patterns, rules, schemas …) taken from the functions' own
    // examples, first argument runtime: inputs = the example input, its one-token edits and short strings. No
    // oracle is needed — only that the result for an input does not depend on what the SAME compiled program saw before.
    let mut shapes_run = 0u64;
    for (name, shape, first) in sweep::example_shapes() {
        let Some(example_input) = sweep::eval_literal(&first) else { continue };
        let Value::Bytes(b) = &example_input else { continue };
        let text = String::from_utf8_lossy(b).to_string();
        if text.len() > 400 {
            continue;
        }
        let mut inputs: Vec<String> = vec![text.clone(), String::new(), "a".into(), "1".into(), "a 1".into()];
        let toks: Vec<&str> = text.split(' ').collect();
        if toks.len() <= 12 {
            for i in 0..=toks.len() {
                for ins in ["200", "x"] {
                    let mut t = toks.clone();
                    t.insert(i, ins);
                    inputs.push(t.join(" "));
                }
            }
            for i in 0..toks.len() {
                let mut t = toks.clone();
                t.remove(i);
                inputs.push(t.join(" "));
            }
        }
        inputs.sort();
        inputs.dedup();
        inputs.truncate(if tier.thorough() { 40 } else { 24 });
        let bang = shape.replacen('(', "!(", 1);
        let src = [format!(".r, .err = {shape}"), format!(".r = {shape}"), format!(".r = {bang}")].into_iter().find(|s| compile(s).is_some());
        let Some(src) = src else { continue };
        shapes_run += 1;
        let _ = &name;
        let events: Vec<Value> = inputs.iter().map(|t| vv::obj(&[("a0", Value::from(t.as_str()))])).collect();
        // reference: a FRESHLY COMPILED program on a fresh thread for every input
        let refs: Vec<Option<(Outcome, Value, Value)>> = events
            .iter()
            .map(|e| {
                let p = compile(&src)?;
                let e = e.clone();
                std::thread::spawn(move || guarded(|| {
                    let mut rt = Runtime::default();
                    run_on(&mut rt, &p, &e)
                }).ok()).join().ok().flatten()
            })
            .collect();
        let program = Arc::new(compile(&src).expect("compiles"));
        for (hi, h) in events.iter().enumerate() {
            for (ei, e) in events.iter().enumerate() {
                if hi == ei {
                    continue;
                }
                let Some(want) = &refs[ei] else { continue };
                pairs += 1;
                let p = program.clone();
                let (h2, e2) = (h.clone(), e.clone());
                let got = std::thread::spawn(move || guarded(|| {
                    let mut rt = Runtime::default();
                    let _ = run_on(&mut rt, &p, &h2);
                    rt.clear();
                    run_on(&mut rt, &p, &e2)
                }).ok()).join().ok().flatten();
                let Some(got) = got else { continue };
                if !same(want, &got) {
                    rep.violation(Violation::new(
                        "C14.shared-program-depends-on-history",
                        json!({"part": "stdlib-history", "program": src, "history_event": vv::enc(h), "event": vv::enc(e)}),
                        show3(want),
                        show3(&got),
                    ));
                }
            }
        }
    }
    // (B4) NON-CONSTANT arguments: one parameter at a time is chosen at run time (by `.sel`) among the literals of
    // its alphabet, so that per-call-site caches keyed on "the" pattern / format / option are exercised with
    // several values over ONE compiled program; the others are literals. Reference: a freshly compiled program.
    let mut b4_programs = 0u64;
    let mut b4_pairs = 0u64;
    fn tame_text(t: &str) -> bool {
        fn tame(v: &Value) -> bool {
            match v {
                Value::Integer(i) => i.unsigned_abs() <= 10_000,
                Value::Float(f) => f.is_finite() && f.abs() <= 1e9,
                Value::Array(a) => a.iter().all(tame),
                Value::Object(o) => o.values().all(tame),
                _ => true,
            }
        }
        crate::props::sweep::eval_literal(t).is_none_or(|v| tame(&v))
    }
    for spec in &specs {
        if sweep::NONDETERMINISTIC.contains(&spec.name.as_str()) || spec.name == "validate_json_schema" || spec.closure.is_some() {
            continue;
        }
        let req: Vec<usize> = (0..spec.params.len()).filter(|i| spec.params[*i].2).collect();
        for j in 0..spec.params.len() {
            let (kw, kind, required, alphabet) = &spec.params[j];
            let mut alts: Vec<String> = alphabet.iter().filter(|t| tame_text(t)).take(if tier.thorough() { 6 } else { 3 }).cloned().collect();
            if kind & sweep::REGEX_KIND != 0 {
                // two patterns with the same number of groups but different names, both matching digits
                alts.push("r'(?P<n>\\d+)'".into());
                alts.push("r'(?P<m>\\w+)'".into());
            }
            alts.dedup();
            if alts.len() < 2 {
                continue;
            }
            for base in 0..(if tier.thorough() { 3 } else { 2 }) {
                let mut args: Vec<String> = Vec::new();
                let mut ok = true;
                for i in &req {
                    if *i == j {
                        args.push("p".into());
                        continue;
                    }
                    let al: Vec<&String> = spec.params[*i].3.iter().filter(|t| tame_text(t)).collect();
                    if al.is_empty() {
                        ok = false;
                        break;
                    }
                    args.push(al[base.min(al.len() - 1)].clone());
                }
                if !ok {
                    continue;
                }
                if !*required {
                    args.push(format!("{kw}: p"));
                }
                let mut chain = String::new();
                for (n, a) in alts.iter().enumerate() {
                    if n + 1 == alts.len() {
                        chain.push_str(&format!("{{ {a} }}"));
                    } else {
                        chain.push_str(&format!("if .sel == {n} {{ {a} }} else "));
                    }
                }
                let call = format!("{}({})", spec.name, args.join(", "));
                let bang = call.replacen('(', "!(", 1);
                let src = [format!("p = {chain}\n.r, .err = {call}"), format!("p = {chain}\n.r = {call}"), format!("p = {chain}\n.r = {bang}")].into_iter().find(|s| compile(s).is_some());
                let Some(src) = src else { continue };
                b4_programs += 1;
                let events: Vec<Value> = (0..alts.len()).map(|n| vv::obj(&[("sel", vv::i(n as i64))])).collect();
                let refs: Vec<Option<(Outcome, Value, Value)>> = events
                    .iter()
                    .map(|e| {
                        let p = compile(&src)?;
                        let e = e.clone();
                        std::thread::spawn(move || guarded(|| {
                            let mut rt = Runtime::default();
                            run_on(&mut rt, &p, &e)
                        }).ok()).join().ok().flatten()
                    })
                    .collect();
                let program = Arc::new(compile(&src).expect("compiles"));
                for (hi, h) in events.iter().enumerate() {
                    for (ei, e) in events.iter().enumerate() {
                        if hi == ei {
                            continue;
                        }
                        let Some(want) = &refs[ei] else { continue };
                        b4_pairs += 1;
                        let p = program.clone();
                        let (h2, e2) = (h.clone(), e.clone());
                        let got = std::thread::spawn(move || guarded(|| {
                            let mut rt = Runtime::default();
                            let _ = run_on(&mut rt, &p, &h2);
                            rt.clear();
                            run_on(&mut rt, &p, &e2)
                        }).ok()).join().ok().flatten();
                        let Some(got) = got else { continue };
                        if !same(want, &got) {
                            rep.violation(Violation::new(
                                "C14.shared-program-depends-on-history",
                                json!({"part": "stdlib-history", "program": src, "history_event": vv::enc(h), "event": vv::enc(e)}),
                                show3(want),
                                show3(&got),
                            ));
                        }
                    }
                }
            }
        }
    }
    pairs += b4_pairs;
    rep.set("B4_programs_with_a_run_time_selected_argument", b4_programs);
    rep.set("B4_ordered_history_pairs", b4_pairs);
    rep.set("B3_example_call_shapes_with_histories", shapes_run);
    let _ = differing_refs;
    rep.add("evaluations", pairs);
    rep.add("distinct_nontrivial", pairs);
    rep.set("B2_stdlib_functions_with_histories", functions);
    rep.set("B2_ordered_argument_pairs", pairs);
}

// ---------------------------------------------------------------------------------------------
// (C) schedules

type ThreadOut = (Outcome, Value, Value);

struct Scenario {
    name: &'static str,
    template: &'static str,
    /// one event per thread
    events: Vec<Value>,
}

fn scenarios(threads: usize) -> Vec<Scenario> {
    use vv::{obj, s};
    let ev = |flag: bool, doc: &str| obj(&[("flag", Value::Boolean(flag)), ("doc", s(doc))]);
    let good = "{\"n\": 1, \"v\": \"x\"}";
    let bad = "{\"v\": 3}";
    let mut out = Vec::new();
    let mut flags: Vec<Vec<bool>> = vec![vec![]];
    for _ in 0..threads {
        let mut next = Vec::new();
        for f in &flags {
            for b in [true, false] {
                let mut g = f.clone();
                g.push(b);
                next.push(g);
            }
        }
        flags = next;
    }
    for (ti, t) in SCHEMA_TEMPLATES.iter().enumerate() {
        for f in &flags {
            out.push(Scenario {
                name: ["schema-call", "schema-call-handled", "two-schema-calls"][ti],
                template: t,
                events: f.iter().enumerate().map(|(i, b)| ev(*b, if i % 2 == 0 { good } else { bad })).collect(),
            });
        }
    }
    // programs without any shared state: every block-expression boundary is a scheduling point, so the
    // statements of the threads interleave in every possible way and must still give the solo results
    for t in [
        ".a = 1\nx = .a\n.b = [x, 1]",
        "k = \"outer\"\nfor_each({\"p\": 1, \"q\": 2}) -> |k, v| { .seen = [k, v] }\n.k = k",
        "x, err = to_int(.doc)\n.r = [x, err == null]\ndel(.flag)",
        "x = join([\"a\", string!(.doc)], \"-\") ?? \"E\"\n.j = x",
        ".a = 1; x = .a; .b = [x, 1]", "for_each([1, 2]) -> |_i, v| { .s = v }; del(.doc)", ".r = parse_json(string!(.doc)) ?? null"] {
        out.push(Scenario { name: "no-shared-state", template: Box::leak(t.to_string().into_boxed_str()), events: (0..threads).map(|i| ev(i % 2 == 0, good)).collect() });
    }
    out
}

fn part_c(rep: &mut Report, tier: Tier) {
    // quick: 2 threads, at most 3 preemptions per schedule (CHESS: all 9 bugs it found needed <= 2);
    // thorough: 3 threads with at most 3 preemptions, and 2 threads with every interleaving (unbounded)
    if tier.thorough() {
        part_c_run(rep, tier, 3, Some(3));
        part_c_run(rep, tier, 2, None);
    } else {
        part_c_run(rep, tier, 2, Some(3));
    }
}

fn part_c_run(rep: &mut Report, tier: Tier, threads: usize, bound: Option<u32>) {
    let mut total = sched::Stats::default();
    let mut configs: BTreeSet<String> = BTreeSet::new();
    let mut outcomes: BTreeSet<String> = BTreeSet::new();
    let mut capped_any = false;
    let mut scen_count = 0u64;
    let mut bounds_used: BTreeSet<String> = BTreeSet::new();
    for sc in scenarios(threads) {
        scen_count += 1;
        // solo reference per thread (fresh schema path, nothing else running)
        let solo: Vec<Option<ThreadOut>> = sc
            .events
            .iter()
            .map(|e| {
                let src = sc.template.replace("$S", &fresh_schema());
                let p = compile(&src)?;
                guarded(|| {
                    let mut rt = Runtime::default();
                    run_on(&mut rt, &p, e)
                })
                .ok()
            })
            .collect();
        if solo.iter().any(Option::is_none) {
            rep.notes.push(format!("scenario {} not runnable (program rejected)", sc.name));
            continue;
        }
        let events = sc.events.clone();
        let template = sc.template;
        let mut make = || -> Vec<Box<dyn FnOnce() -> ThreadOut + Send>> {
            let src = template.replace("$S", &fresh_schema());
            let program = Arc::new(compile(&src).expect("scenario program compiles"));
            events
                .iter()
                .map(|e| {
                    let p = program.clone();
                    let e = e.clone();
                    Box::new(move || {
                        let mut rt = Runtime::default();
                        run_on(&mut rt, &p, &e)
                    }) as Box<dyn FnOnce() -> ThreadOut + Send>
                })
                .collect()
        };
        let wbase = json!({"part": "schedule", "scenario": sc.name, "program": sc.template, "events": sc.events.iter().map(vv::enc).collect::<Vec<_>>()});
        let mut viol: Vec<Violation> = Vec::new();
        let mut on_exec = |ex: &sched::Execution<ThreadOut>, choices: &[usize]| {
            // interleaving-lattice configurations visited
            let mut progress = vec![0u32; events.len()];
            for s in &ex.steps {
                progress[s.enabled[s.chosen]] += 1;
                configs.insert(format!("{}|{}|{:?}", sc.name, events.len(), progress));
            }
            let mut w = wbase.clone();
            w["schedule"] = json!(choices);
            if ex.deadlock {
                viol.push(Violation::new("C14.deadlock", w.clone(), "some thread is always enabled until all have finished", format!("deadlock after {} steps", ex.steps.len())));
                return;
            }
            if ex.horizon_hit {
                viol.push(Violation::new("C14.horizon", w.clone(), "execution finishes within the step horizon", "horizon hit"));
                return;
            }
            for (i, r) in ex.results.iter().enumerate() {
                let Some(r) = r else {
                    viol.push(Violation::new("C14.thread-did-not-finish", w.clone(), "every thread returns", format!("thread {i} has no result")));
                    continue;
                };
                outcomes.insert(format!("{}:{}", sc.name, r.0.class()));
                let want = solo[i].as_ref().unwrap();
                if !same(want, r) {
                    let mut w2 = w.clone();
                    w2["thread"] = json!(i);
                    viol.push(Violation::new("C14.concurrent-run-differs-from-solo-run", w2, show3(want), show3(r)));
                }
            }
        };
        // one call per thread: every interleaving (2 threads) / preemption bound 3 (3 threads);
        // two calls per thread: preemption bound 2 (CHESS: the bound, not the depth, is what is limited)
        let scen_bound = if sc.name == "two-schema-calls" { Some(2) } else if sc.name == "no-shared-state" { Some(if tier.thorough() { 3 } else { 2 }) } else { bound };
        let _ = tier;
        bounds_used.insert(format!("{threads} threads, {}: {}", sc.name, scen_bound.map_or("unbounded".to_string(), |b| format!("<= {b} preemptions"))));
        let (stats, capped) = sched::explore(&mut make, scen_bound, 400, 60_000, &mut on_exec);
        capped_any |= capped;
        total.executions += stats.executions;
        total.scheduling_points += stats.scheduling_points;
        total.max_steps = total.max_steps.max(stats.max_steps);
        total.deadlocks += stats.deadlocks;
        total.horizon_hits += stats.horizon_hits;
        total.max_preemptions_used = total.max_preemptions_used.max(stats.max_preemptions_used);
        if rep.samples.len() < 8 {
            let mut w = wbase.clone();
            w["schedules_explored"] = json!(stats.executions);
            rep.sample(w);
        }
        // one violation per (clause, scenario, events): the first schedule in DFS order is the witness
        let mut seen: BTreeSet<String> = BTreeSet::new();
        for v in viol {
            if seen.insert(v.clause.clone()) {
                rep.violation(v);
            }
        }
    }
    // determinism of the explorer itself: replay one schedule twice
    {
        let sc = &scenarios(threads)[1];
        let events = sc.events.clone();
        let template = sc.template;
        let run = |prefix: &[usize]| {
            let src = template.replace("$S", &fresh_schema());
            let program = Arc::new(compile(&src).expect("program"));
            let bodies: Vec<Box<dyn FnOnce() -> ThreadOut + Send>> = events
                .iter()
                .map(|e| {
                    let p = program.clone();
                    let e = e.clone();
                    Box::new(move || {
                        let mut rt = Runtime::default();
                        run_on(&mut rt, &p, &e)
                    }) as Box<dyn FnOnce() -> ThreadOut + Send>
                })
                .collect();
            let ex = sched::run_once(bodies, prefix, 400);
            (ex.steps.iter().map(|s| (s.enabled.clone(), s.point)).collect::<Vec<_>>(), ex.results.iter().map(|r| r.as_ref().map(|x| x.0.show())).collect::<Vec<_>>())
        };
        let a = run(&[1, 0, 1]);
        let b = run(&[1, 0, 1]);
        if a != b {
            rep.violation(Violation::new("MACHINERY.nondeterministic-replay", json!({"part": "schedule-replay"}), format!("{a:?}"), format!("{b:?}")));
        }
        rep.set("C_replay_of_one_schedule_twice_identical", a == b);
    }
    rep.add("states", configs.len() as u64);
    rep.add("transitions", total.scheduling_points);
    rep.add("traces_validated_against_impl", total.executions);
    rep.add("C_scenarios", scen_count);
    
    rep.add("C_schedules_explored", total.executions);
    rep.set("C_longest_schedule", total.max_steps as u64);
    let mut all_bounds: Vec<J> = rep.coverage.get("C_preemption_bounds").and_then(J::as_array).cloned().unwrap_or_default();
    all_bounds.extend(bounds_used.iter().map(|b| json!(b)));
    rep.set("C_preemption_bounds", J::Array(all_bounds));
    rep.set("C_max_preemptions_in_a_schedule", u64::from(total.max_preemptions_used));
    rep.set("C_distinct_thread_outcomes", outcomes.len() as u64);
    rep.add("C_deadlocks", total.deadlocks);
    rep.add("evaluations", total.executions);
    rep.add("distinct_nontrivial", total.executions);
    if capped_any {
        rep.exhaustive = false;
        rep.notes.push("schedule exploration hit the execution cap in at least one scenario".into());
    }
}

fn inventory(rep: &mut Report) {
    // shared mutable state in the working tree (informational; anything not known is listed as unmodelled)
    let out = std::process::Command::new("grep")
        .args(["-rnE", "static [A-Z_]+: .*(Mutex|RwLock|Atomic)|thread_local!|static mut ", "/repo/src", "--include=*.rs"])
        .output();
    let mut known = Vec::new();
    let mut unmodelled = Vec::new();
    if let Ok(o) = out {
        for l in String::from_utf8_lossy(&o.stdout).lines() {
            let l = l.trim().to_string();
            if l.contains("/cli/") || l.contains("/test/") {
                continue;
            }
            if l.contains("SCHEMA_CACHE") || l.contains("verif_hooks.rs") {
                known.push(l);
            } else {
                unmodelled.push(l);
            }
        }
    }
    rep.set("shared_mutable_state_modelled", json!(known));
    rep.set("shared_mutable_state_unmodelled(informational)", json!(unmodelled));
}

pub fn run(tier: Tier) -> Report {
    let mut rep = Report::new("C14", tier, "model_checking");
    let t = std::time::Instant::now();
    part_a(&mut rep, tier);
    let ta = t.elapsed().as_secs_f64();
    part_b(&mut rep, tier);
    let tb = t.elapsed().as_secs_f64();
    part_b2(&mut rep, tier);
    let tb2 = t.elapsed().as_secs_f64();
    part_c(&mut rep, tier);
    let tc = t.elapsed().as_secs_f64();
    rep.notes.push(format!("wall seconds: A {ta:.1}, B {:.1}, B2 {:.1}, C {:.1}", tb - ta, tb2 - tb, tc - tb2));
    inventory(&mut rep);
    cleanup_schemas();
    rep.set(
        "explanation",
        "(A) every program compiled twice in-process and twice in fresh processes: equal outcome digests; (B) run(h); clear(); run(e) vs fresh run(e) for every ordered event pair, shared and recompiled Program; (C) stateless exploration of ALL interleavings of the threads at hook H3's scheduling points (the schema-cache lock operations and thread start) by the controlled scheduler harness/src/sched.rs on the real code: states = interleaving-lattice configurations visited, transitions = scheduling decisions, traces_validated_against_impl = complete schedules executed on the implementation; each thread's result must equal its solo run.",
    );
    rep.assume("interleavings inside dependencies (regex pools, jsonschema) are not controlled; data races are excluded by the type system (no unsafe shared state in src/)");
    rep.assume("explicitly nondeterministic functions (now, random_*, uuid_*, get_hostname, get_env_var, network lookups) are exempt and not used");
    rep
}

pub fn replay(_property: &str, w: &J) -> Vec<Violation> {
    // compile-determinism and history witnesses re-run their part on the single program
    let mut rep = Report::new("C14", Tier::Quick, "model_checking");
    match w["part"].as_str() {
        Some("compile-determinism") => {
            let p = w["program"].as_str().unwrap_or("");
            let a = compile_digest(p);
            let b = compile_digest(p);
            if a != b {
                rep.violation(Violation::new("C14.compile-twice-same-process", w.clone(), a, b));
            }
        }
        _ => {
            // histories and schedules: re-run the whole part (seconds) and keep matching witnesses
            part_b(&mut rep, Tier::Quick);
            part_b2(&mut rep, Tier::Quick);
            part_c(&mut rep, Tier::Quick);
            cleanup_schemas();
        }
    }
    rep.violations.into_iter().filter(|v| v.witness == *w).collect()
}
