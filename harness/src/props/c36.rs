//! C36 — results are independent of the configured timezone wherever no wall-clock time without
//! an explicit zone is interpreted.
//!
//! One case = (program, event, "must be zone-free?" tag, TZ environment). The program is run
//! through `Runtime::resolve` under UTC and under every other configured zone (named fixed-offset
//! zones, DST zones, `Local`); for zone-free cases every result must be identical to the UTC
//! one. Cases that the property allows to differ (naive timestamp parsing/formatting without a
//! `timezone` argument, `get_timezone_name`) are run as well and only counted — they prove that
//! the configured zone really reaches the program.

use crate::law::{self, CaseResult};
use crate::props::c35::{FORMATS, NAMED_ZONES, TZ_ENVS, ensure_tz_env, instants, zone};
use crate::report::{Report, Tier, Violation};
use crate::util::guarded;
use crate::vrlx::Outcome;
use crate::vv;
use chrono::{DateTime, Datelike, FixedOffset};
use serde_json::{Value as J, json};
use vrl::value::Value;

/// Functions whose result the property allows to depend on the configured zone (they interpret
/// or print wall-clock time without an explicit zone, or report the zone itself) and functions
/// that are not deterministic in the first place.
const ZONE_READERS: [&str; 12] = [
    "parse_linux_authorization",
    "parse_timestamp", "format_timestamp", "parse_syslog", "parse_apache_log", "parse_common_log", "parse_nginx_log", "get_timezone_name", "parse_klog",
    "parse_glog", "parse_grok", "parse_groks",
];

fn same(a: &Outcome, b: &Outcome) -> bool {
    match (a, b) {
        (Outcome::Ok(x), Outcome::Ok(y)) => x == y && vv::enc(x) == vv::enc(y),
        (Outcome::Error(_), Outcome::Error(_)) => true,
        (Outcome::Abort(x), Outcome::Abort(y)) => x == y,
        (Outcome::Other(_), Outcome::Other(_)) => true,
        _ => false,
    }
}

fn all_zones() -> Vec<&'static str> {
    let mut z: Vec<&str> = NAMED_ZONES[1..].to_vec();
    z.push("local");
    z
}

fn case(w: &J) -> CaseResult {
    if let Some(env) = w["tz_env"].as_str() {
        ensure_tz_env(env);
    }
    let src = w["prog"].as_str().unwrap_or("");
    let event = vv::dec(&w["event"]);
    let free = w["free"].as_bool().unwrap_or(true);
    if law::prog(src).is_none() {
        return CaseResult::trivial("rejected").count("programs_rejected_by_compiler", 1);
    }
    let base = law::call_tz(src, event.clone(), &zone("UTC"));
    let again = law::call_tz(src, event.clone(), &zone("UTC"));
    if !same(&base, &again) || (base.class() == "error" && matches!((&base, &again), (Outcome::Error(a), Outcome::Error(b)) if a != b)) {
        return CaseResult::trivial("nondeterministic").count("nondeterministic_under_one_zone", 1);
    }
    if law::is_panic(&base) {
        return CaseResult::trivial("panic").count("panics_under_utc_not_judged_here", 1);
    }
    let zones: Vec<String> = match w["zone"].as_str() {
        Some(z) => vec![z.to_string()],
        None if w["only_local"].as_bool() == Some(true) => vec!["local".to_string()],
        None => all_zones().into_iter().map(str::to_string).collect(),
    };
    let mut r = CaseResult::ok(&format!("{}:{}", if free { "zone-free" } else { "zone-reader" }, base.class()));
    r.nontrivial = base.success();
    let mut differs = 0u64;
    for z in &zones {
        let o = law::call_tz(src, event.clone(), &zone(z));
        if same(&base, &o) {
            continue;
        }
        differs += 1;
        if free {
            let mut ww = w.clone();
            ww["zone"] = json!(z);
            r = r.violation(Violation::new("C36.zone-dependent-result", ww, format!("as under UTC: {}", base.show()), format!("under {z}: {}", o.show())));
        }
    }
    if free {
        r = r.count("zone_free_runs_compared", zones.len() as u64);
    } else {
        r = r.count("zone_reader_runs", zones.len() as u64).count("zone_reader_runs_that_differ_from_utc", differs);
        if differs > 0 {
            r.class = format!("zone-reader:{}:differs", base.class());
        }
    }
    r
}

pub fn replay(_property: &str, w: &J) -> Vec<Violation> {
    case(w).violations
}

// --------------------------------------------------------------------------------- generators

fn first_accepted(variants: &[String]) -> Result<String, String> {
    variants.iter().find(|s| law::prog(s).is_some()).cloned().ok_or_else(|| format!("{} — {}", variants[0], law::why_rejected(&variants[0])))
}

/// `f!(args)` or `f(args)`, whichever the compiler accepts.
fn callv(f: &str, args: &str) -> Result<String, String> {
    first_accepted(&[format!("{f}({args})"), format!("{f}!({args})")])
}

fn fmt_guarded(t: &DateTime<FixedOffset>, f: &str) -> Option<String> {
    use std::fmt::Write;
    guarded(|| {
        let mut s = String::new();
        write!(s, "{}", t.format(f)).ok().map(|()| s)
    })
    .ok()
    .flatten()
}

const OFFSETS: [i32; 10] = [0, 19_800, -25_200, 50_400, -43_200, 60, -1_800, -14_400, -18_000, 3_600];
const TZ_ARGS: [&str; 5] = ["UTC", "America/New_York", "Asia/Kolkata", "Pacific/Apia", "local"];

/// The named zones do not depend on the TZ environment: they are compared under the first
/// environment only, `Local` under every environment.
fn push(cases: &mut Vec<J>, prog: &str, event: &Value, free: bool, env: &str) {
    let mut w = json!({"prog": prog, "event": vv::enc(event), "free": free, "tz_env": env});
    if env != TZ_ENVS[0] {
        w["only_local"] = json!(true);
    }
    cases.push(w);
}

fn time_cases(deep: bool, env: &str) -> Vec<J> {
    let mut cases = Vec::new();
    let insts = instants(deep);
    let p_parse = "parse_timestamp!(.a, string!(.f))";
    let p_parse_tz = "parse_timestamp!(.a, string!(.f), timezone: string!(.z))";
    let p_fmt = "format_timestamp!(timestamp!(.t), string!(.f))";
    let p_fmt_tz = "format_timestamp!(timestamp!(.t), string!(.f), timezone: string!(.z))";
    for t in &insts {
        // ---- parse_timestamp
        for (f, _gran, kind) in FORMATS {
            let offs: &[i32] = if matches!(kind, "zoned" | "zonename") { &OFFSETS } else { &OFFSETS[..1] };
            for off in offs {
                let local = t.with_timezone(&FixedOffset::east_opt(*off).expect("offset"));
                if !(0..=9999).contains(&local.year()) {
                    continue;
                }
                let Some(text) = fmt_guarded(&local, f) else { continue };
                // explicit offset, epoch seconds or a zone name in the format: no wall clock is
                // interpreted in the configured zone
                let free = matches!(kind, "zoned" | "epoch" | "zonename");
                let ev = vv::obj(&[("a", vv::s(&text)), ("f", vv::s(f))]);
                push(&mut cases, p_parse, &ev, free, env);
                for z in TZ_ARGS {
                    let ev = vv::obj(&[("a", vv::s(&text)), ("f", vv::s(f)), ("z", vv::s(z))]);
                    push(&mut cases, p_parse_tz, &ev, true, env);
                }
            }
        }
        // a timestamp value passes through parse_timestamp untouched
        push(&mut cases, p_parse, &vv::obj(&[("a", Value::Timestamp(*t)), ("f", vv::s("%F %T"))]), true, env);
        // ---- format_timestamp
        for f in FORMATS.iter().map(|x| x.0).chain(["%c", "%x %X", "%Z", "%z", "%D %r"]) {
            let ev = vv::obj(&[("t", Value::Timestamp(*t)), ("f", vv::s(f))]);
            push(&mut cases, p_fmt, &ev, false, env);
            for z in TZ_ARGS {
                let ev = vv::obj(&[("t", Value::Timestamp(*t)), ("f", vv::s(f)), ("z", vv::s(z))]);
                push(&mut cases, p_fmt_tz, &ev, true, env);
            }
        }
    }
    cases
}

fn misc_programs(dropped: &mut Vec<String>) -> Vec<(String, bool)> {
    let mut v: Vec<(String, bool)> = Vec::new();
    let mut add = |p: Result<String, String>, free: bool| match p {
        Ok(p) => v.push((p, free)),
        Err(p) => dropped.push(p),
    };
    for unit in ["", ", unit: \"seconds\"", ", unit: \"milliseconds\"", ", unit: \"microseconds\"", ", unit: \"nanoseconds\""] {
        add(callv("to_unix_timestamp", &format!("timestamp!(.t){unit}")), true);
        add(callv("from_unix_timestamp", &format!("int!(.n){unit}")), true);
    }
    for p in [
        "to_string(timestamp!(.t))",
        "to_int(timestamp!(.t))",
        "to_float(timestamp!(.t))",
        "encode_json(.t)",
        "encode_json({\"t\": .t, \"u\": [.u]})",
        "encode_logfmt({\"t\": .t})",
        "encode_key_value({\"t\": .t})",
        "timestamp!(.t) == timestamp!(.u)",
        "timestamp!(.t) < timestamp!(.u)",
        "timestamp!(.t) >= t'2021-03-14T02:30:00-05:00'",
        "t'2021-11-07T01:30:00-04:00'",
        "to_string(t'2021-11-07T01:30:00-05:00')",
        "is_timestamp(.t)",
        "timestamp!(.t)",
        ".t",
        "parse_json!(encode_json(.t))",
        "string!(.s) + to_string(timestamp!(.t))",
        "parse_timestamp!(to_string(timestamp!(.t)), \"%+\")",
        "parse_timestamp!(format_timestamp!(timestamp!(.t), \"%F %T%.9f\", timezone: \"Asia/Kolkata\"), \"%F %T%.f\", timezone: \"Asia/Kolkata\")",
        "parse_timestamp!(format_timestamp!(timestamp!(.t), \"%F %T %z\", timezone: \"America/New_York\"), \"%F %T %z\")",
        "to_unix_timestamp(parse_timestamp!(to_string(to_unix_timestamp(timestamp!(.t))), \"%s\"))",
        "parse_duration!(\"1h30m\", \"s\")",
        "format_int!(int!(.n), 16)",
        "to_string(from_unix_timestamp!(int!(.n)))",
        "format_timestamp!(from_unix_timestamp!(int!(.n)), \"%c %Z\", timezone: \"Europe/London\")",
        ".x = timestamp!(.t); .y = to_unix_timestamp(.x); .",
        "if timestamp!(.t) > timestamp!(.u) { \"later\" } else { \"not later\" }",
        "unique([.t, .u, .t])",
        "to_string!(.t) + \"|\" + to_string!(.u)",
        "format_timestamp!(timestamp!(.t), \"%+\", timezone: \"UTC\") == to_string(timestamp!(.t))",
        "parse_timestamp!(.t, \"%F\")",
        "parse_timestamp(\"2021-03-14 02:30:00\", \"%F %T\", timezone: \"America/New_York\") ?? \"gap\"",
        "parse_timestamp(\"2021-11-07 01:30:00\", \"%F %T\", timezone: \"America/New_York\") ?? \"overlap\"",
        "parse_timestamp!(\"2021-11-07 01:30:00 -0400\", \"%F %T %z\")",
        "parse_timestamp!(\"1612325106\", \"%s\")",
        "parse_timestamp!(\"2021-02-03T04:05:06+02:00\", \"%+\")",
    ] {
        add(first_accepted(&[p.to_string()]), true);
    }
    // allowed to read the configured zone
    for p in ["get_timezone_name!()", "parse_timestamp!(\"2021-02-03 04:05:06\", \"%F %T\")", "parse_timestamp(\"2021-03-14 02:30:00\", \"%F %T\") ?? \"gap\""] {
        add(first_accepted(&[p.to_string()]), false);
    }
    v
}

fn log_cases(deep: bool, env: &str) -> Vec<J> {
    let mut cases = Vec::new();
    let insts = instants(deep);
    for t in &insts {
        for off in OFFSETS {
            let local = t.with_timezone(&FixedOffset::east_opt(off).expect("offset"));
            if !(1000..=9999).contains(&local.year()) {
                continue;
            }
            let r = |f: &str| fmt_guarded(&local, f).unwrap_or_default();
            let clf = r("%d/%b/%Y:%T %z");
            let iso = r("%Y-%m-%dT%H:%M:%S%.3f%:z");
            // lines whose timestamp carries its offset: must not depend on the configured zone
            let zoned: Vec<(String, String)> = vec![
                ("parse_common_log!(.a)".into(), format!("127.0.0.1 bob frank [{clf}] \"GET /apache_pb.gif HTTP/1.0\" 200 2326")),
                ("parse_common_log!(.a, timestamp_format: \"%+\")".into(), format!("127.0.0.1 bob frank [{}] \"GET /apache_pb.gif HTTP/1.0\" 200 2326", r("%+"))),
                ("parse_apache_log!(.a, format: \"common\")".into(), format!("127.0.0.1 bob frank [{clf}] \"GET /apache_pb.gif HTTP/1.0\" 200 2326")),
                (
                    "parse_apache_log!(.a, format: \"combined\")".into(),
                    format!("127.0.0.1 bob frank [{clf}] \"GET /apache_pb.gif HTTP/1.0\" 200 2326 \"http://www.example.com/x\" \"Mozilla/5.0 (X11; Linux i686; rv:5.0) Firefox/37.0\""),
                ),
                (
                    "parse_apache_log!(.a, format: \"error\")".into(),
                    format!("[{clf}] [ab:alert] [pid 4803:tid 3814] [client 147.159.108.175:24259] I will bypass the haptic COM bandwidth!"),
                ),
                (
                    "parse_nginx_log!(.a, format: \"combined\")".into(),
                    format!("172.17.0.1 - alice [{clf}] \"POST /not-found HTTP/1.1\" 404 153 \"http://localhost/somewhere\" \"Mozilla/5.0 (Windows NT 6.1)\" \"2.75\""),
                ),
                ("parse_syslog!(.a)".into(), format!("<13>1 {iso} dynamicwireless.name non 2426 ID931 [exampleSDID@32473 iut=\"3\"] Try to override the THX port")),
                ("parse_syslog!(.a).timestamp".into(), format!("<34>1 {} mymachine.example.com su - ID47 - 'su root' failed", r("%Y-%m-%dT%H:%M:%S%:z"))),
                ("parse_groks!(.a, [\"%{date(\\\"yyyy-MM-dd'T'HH:mm:ss.SSSZ\\\"):d}\"])".into(), r("%Y-%m-%dT%H:%M:%S%.3f%z")),
                ("parse_groks!(.a, [\"%{date(\\\"dd/MMM/yyyy:HH:mm:ss Z\\\"):d}\"])".into(), clf.clone()),
            ];
            for (p, line) in zoned {
                push(&mut cases, &p, &vv::obj(&[("a", vv::s(&line))]), true, env);
            }
            if off != 0 {
                continue;
            }
            // lines with a naive timestamp: allowed to depend on the configured zone
            let naive: Vec<(String, String)> = vec![
                ("parse_syslog!(.a)".into(), format!("<13>{} host app[123]: naive rfc3164 message", r("%b %e %T"))),
                (
                    "parse_nginx_log!(.a, format: \"error\")".into(),
                    format!("{} [error] 31#31: *1 open() \"/usr/share/nginx/html/not-found\" failed (2: No such file or directory), client: 172.17.0.1, server: localhost, request: \"POST /not-found HTTP/1.1\", host: \"localhost:8081\"", r("%Y/%m/%d %H:%M:%S")),
                ),
                ("parse_common_log!(.a, timestamp_format: \"%Y-%m-%dT%H:%M:%S\")".into(), format!("127.0.0.1 bob frank [{}] \"GET /apache_pb.gif HTTP/1.0\" 200 2326", r("%Y-%m-%dT%H:%M:%S"))),
                ("parse_apache_log!(.a, format: \"common\", timestamp_format: \"%F %T\")".into(), format!("127.0.0.1 bob frank [{}] \"GET /apache_pb.gif HTTP/1.0\" 200 2326", r("%F %T"))),
                ("parse_glog!(.a)".into(), format!("I{} 15520 main.c++:9] Hello world!", r("%Y%m%d %H:%M:%S%.6f"))),
                ("parse_klog!(.a)".into(), format!("I{}   28133 klog.go:70] hello from klog", r("%m%d %H:%M:%S%.6f"))),
                ("parse_groks!(.a, [\"%{date(\\\"yyyy-MM-dd HH:mm:ss\\\"):d}\"])".into(), r("%Y-%m-%d %H:%M:%S")),
            ];
            for (p, line) in naive {
                push(&mut cases, &p, &vv::obj(&[("a", vv::s(&line))]), false, env);
            }
        }
    }
    cases
}

/// Every example program shipped with the stdlib functions (the documentation corpus).
fn example_cases(env: &str) -> Vec<J> {
    let mut cases = Vec::new();
    for f in vrl::stdlib::all() {
        let id = f.identifier();
        for ex in f.examples() {
            if ex.skip || !ex.deterministic {
                continue;
            }
            let event: J = ex.input.and_then(|s| serde_json::from_str(s).ok()).unwrap_or_else(|| json!({}));
            let reads_zone = ZONE_READERS.iter().any(|z| ex.source.contains(&format!("{z}(")) || ex.source.contains(&format!("{z}!(")));
            cases.push(json!({"prog": ex.source, "event": event, "free": !reads_zone, "tz_env": env, "fn": id, "only_local": env != TZ_ENVS[0]}));
        }
    }
    cases
}

/// Crafted programs must all compile: note the ones that do not (they would silently drop out).
fn note_rejected(rep: &mut Report, cases: &[J]) {
    let progs: std::collections::BTreeSet<&str> = cases.iter().filter_map(|c| c["prog"].as_str()).collect();
    for p in progs {
        if law::prog(p).is_none() {
            let note = format!("crafted program rejected by the compiler: {p} — {}", law::why_rejected(p));
            if !rep.notes.contains(&note) {
                rep.notes.push(note);
            }
        }
    }
}

pub fn run(tier: Tier) -> Report {
    let mut rep = Report::new("C36", tier, "exploration");
    let deep = tier.thorough();
    let mut dropped = Vec::new();
    let misc = misc_programs(&mut dropped);
    rep.set("misc_programs_accepted", misc.len() as u64);
    for d in dropped {
        rep.notes.push(format!("crafted program not accepted by the compiler (left out): {d}"));
    }
    for (k, env) in TZ_ENVS.iter().enumerate() {
        ensure_tz_env(env);
        // crafted timestamp parsing / formatting cases
        let cases = time_cases(deep && k == 0, env);
        note_rejected(&mut rep, &cases);
        law::drive(&mut rep, &format!("parse-format[TZ={env}]"), &cases, case);
        // zone-free timestamp programs
        let insts = instants(false);
        let mut cases = Vec::new();
        for (i, t) in insts.iter().enumerate() {
            let u = insts[(i * 7 + 3) % insts.len()];
            let ev = vv::obj(&[("t", Value::Timestamp(*t)), ("u", Value::Timestamp(u)), ("n", Value::Integer(t.timestamp())), ("s", vv::s("at "))]);
            for (p, free) in &misc {
                push(&mut cases, p, &ev, *free, env);
            }
        }
        law::drive(&mut rep, &format!("timestamp-programs[TZ={env}]"), &cases, case);
        // log parsers
        let cases = log_cases(deep && k == 0, env);
        note_rejected(&mut rep, &cases);
        law::drive(&mut rep, &format!("log-parsers[TZ={env}]"), &cases, case);
        // documentation corpus
        let cases = example_cases(env);
        law::drive(&mut rep, &format!("stdlib-examples[TZ={env}]"), &cases, case);
    }
    ensure_tz_env(TZ_ENVS[0]);
    rep.set(
        "rule",
        "one case = (program, event, zone-free tag, TZ environment); every case is run under UTC (twice, to exclude nondeterminism) and under 9 further named zones (fixed offsets Etc/GMT+12, Etc/GMT-14, Asia/Kolkata, Asia/Kathmandu; DST zones America/New_York, America/St_Johns, Europe/London, Australia/Lord_Howe, Pacific/Apia) and `Local` (with TZ=UTC, Asia/Tokyo, America/New_York), i.e. all pairs through the common UTC baseline. Programs: parse_timestamp / format_timestamp over edge instants and a 30-minute grid around DST transitions x 24-29 strftime formats x 10 rendering offsets x {no timezone argument, 5 timezone arguments incl. \"local\"}; ~50 timestamp programs (unix conversions, comparison, literals, JSON/logfmt encoding, nested parse/format); common/apache/nginx/syslog/grok log lines with offset-carrying and naive timestamps; every deterministic example program of every stdlib function. zone-free = no wall-clock text without offset is interpreted and no zone-less formatting happens (explicit offset, epoch seconds, timezone argument, or no time function at all). A case is non-trivial when the program evaluates to a value under UTC.",
    );
    rep.assume("error messages are not compared, only the outcome class (value / error / abort) and the value");
    rep.assume("stdlib examples marked non-deterministic or skip by vrl itself are not run; examples are classified as zone readers by the functions they call");
    rep.exhaustive = true;
    rep
}
