#![allow(dead_code)]
//! vrlmc — bounded exhaustive exploration of vectordotdev/vrl (see /verif/DESIGN.md).

mod corpus;
mod explore;
mod law;
mod model;
mod props;
mod report;
mod sched;
mod target;
mod util;
mod vrlx;
mod vv;

use report::{Report, Tier, Violation};
use serde_json::Value as J;

type RunFn = fn(Tier) -> Report;
type ReplayFn = fn(&str, &J) -> Vec<Violation>;

fn registry() -> Vec<(&'static str, RunFn, ReplayFn)> {
    vec![
        ("C10", props::ops::run_c10 as RunFn, props::ops::replay as ReplayFn),
        ("C11", props::ops::run_c11, props::ops::replay),
        ("C17", props::c17::run_c17, props::c17::replay),
        ("C18", props::c18::run, props::c18::replay),
        ("C19", props::c19::run, props::c19::replay),
        ("C01", props::pm::run_c01, props::pm::replay),
        ("C02", props::pm::run_c02, props::pm::replay),
        ("C12", props::pm::run_c12, props::pm::replay),
        ("C14", props::c14::run, props::c14::replay),
        ("C15", props::c15::run, props::c15::replay),
        ("C16", props::pm::run_c16, props::pm::replay),
        ("C20", props::c20::run, props::c20::replay),
        ("C21", props::c21::run, props::c21::replay),
        ("C22", props::c22::run, props::c22::replay),
        ("C23", props::c23::run, props::c23::replay),
        ("C24", props::c24::run, props::c24::replay),
        ("C25", props::c25::run, props::c25::replay),
        ("C26", props::c26::run, props::c26::replay),
        ("C30", props::c30::run, props::c30::replay),
        ("C31", props::c31::run, props::c31::replay),
        ("C32", props::c32::run, props::c32::replay),
        ("C33", props::c33::run, props::c33::replay),
        ("C34", props::c34::run, props::c34::replay),
        ("C27", props::c27::run, props::c27::replay),
        ("C28", props::c28::run, props::c28::replay),
        ("C29", props::c29::run, props::c29::replay),
        ("C35", props::c35::run, props::c35::replay),
        ("C36", props::c36::run, props::c36::replay),
        ("C03", props::sweep::run_c03, props::sweep::replay),
        ("C04", props::sweep::run_c04_sweep, props::sweep::replay),
        ("C05", props::sweep::run_c05, props::sweep::replay),
        ("C06", props::diff::run_c06, props::diff::replay),
        ("C07", props::diff::run_c07, props::diff::replay),
        ("C08", props::diff::run_c08, props::diff::replay),
        ("C09", props::diff::run_c09, props::diff::replay),
        ("C13", props::diff::run_c13, props::diff::replay),
    ]
}

fn usage() -> ! {
    eprintln!("usage: vrlmc check <ID> [--tier quick|thorough] | vrlmc replay <path> | vrlmc list");
    std::process::exit(2)
}

fn main() {
    util::install_panic_hook();
    let args: Vec<String> = std::env::args().collect();
    if args.len() < 2 {
        usage();
    }
    match args[1].as_str() {
        "list" => {
            for (id, _, _) in registry() {
                println!("{id}");
            }
        }
        "check" => {
            let id = args.get(2).cloned().unwrap_or_else(|| usage());
            let mut tier = match std::env::var("VERIF_TIER").as_deref() {
                Ok("thorough") => Tier::Thorough,
                _ => Tier::Quick,
            };
            let mut i = 3;
            while i < args.len() {
                if args[i] == "--tier" {
                    tier = match args.get(i + 1).map(String::as_str) {
                        Some("quick") => Tier::Quick,
                        Some("thorough") => Tier::Thorough,
                        _ => usage(),
                    };
                    i += 1;
                }
                i += 1;
            }
            let Some((_, run, _)) = registry().into_iter().find(|(p, _, _)| *p == id) else {
                eprintln!("MACHINERY-ERROR unknown property {id}");
                std::process::exit(2);
            };
            // checks whose thorough alphabets take seconds run them in the quick tier too
            let deep_quick = tier == Tier::Quick && ["C17", "C19", "C21", "C29", "C34"].contains(&id.as_str());
            report::DEEP_QUICK.store(deep_quick, std::sync::atomic::Ordering::Relaxed);
            let rep = match util::guarded(|| run(tier)) {
                Ok(mut r) => {
                    if deep_quick {
                        r.assume("the quick tier of this check runs with the thorough tier's alphabets (they take seconds)");
                    }
                    r
                }
                Err(p) => {
                    println!("MACHINERY-ERROR engine panicked: {p}");
                    std::process::exit(3);
                }
            };
            std::process::exit(rep.finish());
        }
        "replay" => {
            let path = args.get(2).cloned().unwrap_or_else(|| usage());
            let text = std::fs::read_to_string(&path).unwrap_or_else(|e| {
                eprintln!("MACHINERY-ERROR cannot read {path}: {e}");
                std::process::exit(2)
            });
            let doc: J = serde_json::from_str(&text).expect("replay file must be JSON");
            let id = doc["property"].as_str().expect("property").to_string();
            let Some((_, _, replay)) = registry().into_iter().find(|(p, _, _)| *p == id) else {
                eprintln!("MACHINERY-ERROR unknown property {id}");
                std::process::exit(2);
            };
            let vs = replay(&id, &doc["witness"]);
            let want = doc["clause"].as_str().unwrap_or("");
            let mut hit = false;
            for v in &vs {
                let same = v.clause == want && v.witness == doc["witness"];
                println!(
                    "{} clause={} expected={} observed={}",
                    if same { "REPRODUCED" } else { "also" },
                    v.clause,
                    v.expected,
                    v.observed
                );
                hit |= same;
            }
            if hit {
                println!("VIOLATION property={id} replay={path}");
                std::process::exit(1);
            }
            println!("replay: the recorded violation does not reproduce on this tree");
        }
        "eval" => {
            // triage helper: vrlmc eval <program-file> [event-json]  → compile diagnostics or the outcome
            let src = std::fs::read_to_string(args.get(2).cloned().unwrap_or_else(|| usage())).expect("program file");
            let event = args.get(3).map(|t| vv::dec(&serde_json::from_str::<J>(t).expect("event json"))).unwrap_or_else(vrlx::empty_object);
            if law::prog(&src).is_none() {
                println!("REJECTED {}", law::why_rejected(&src));
            } else {
                let (o, ev) = law::call_ev(&src, event);
                println!("{} event={}", o.show(), vv::show(&ev));
            }
        }
        "benchpar" => {
            let nt: usize = args.get(2).and_then(|s| s.parse().ok()).unwrap_or(16);
            let t = std::time::Instant::now();
            std::thread::scope(|s| {
                for _ in 0..nt {
                    s.spawn(|| {
                        let fns = vrlx::fns();
                        for _ in 0..20000 {
                            let mut c = vrl::compiler::CompileConfig::default();
                            c.disable_unused_expression_check();
                            let src = std::env::var("BSRC").unwrap_or_else(|_| "x = to_int(.a) ?? \"d\"".into());
                            if std::env::var("BPARSE").is_ok() { let _ = vrl::parser::parse(&src); continue; }
                            let _ = vrlx::compile_ext(&src, &fns, &vrl::compiler::state::ExternalEnv::default(), c);
                        }
                    });
                }
            });
            println!("{nt} threads: {:.1} us/compile/thread", t.elapsed().as_secs_f64() * 1e6 / 20000.0);
        }
        "bench" => {
            let fns = vrlx::fns();
            for src in ["x = 1", ".a[-3] = 1", "x = map_values(x) -> |v| { y = v; 1 }", "x = to_int(.a) ?? \"d\"", "x = nosuch(.a)", "y = 10 / x"] {
                let n = 2000;
                let t = std::time::Instant::now();
                let mut ok = 0;
                for _ in 0..n {
                    let mut c = vrl::compiler::CompileConfig::default();
                    c.disable_unused_expression_check();
                    if vrlx::compile_ext(src, &fns, &vrl::compiler::state::ExternalEnv::default(), c).is_ok() { ok += 1; }
                }
                println!("{src:50} {:8.1} us/compile ok={ok}", t.elapsed().as_secs_f64() * 1e6 / f64::from(n));
                let t = std::time::Instant::now();
                for _ in 0..n {
                    let _ = vrl::parser::parse(src);
                }
                println!("{:50} {:8.1} us/parse", "", t.elapsed().as_secs_f64() * 1e6 / f64::from(n));
            }
        }
        "worker" => {
            if args.get(2).map(String::as_str) == Some("c14digest") && args.len() >= 4 {
                std::process::exit(props::c14::worker_main(&args[3..]));
            }
            if args.get(2).map(String::as_str) == Some("sweep") && args.len() >= 7 {
                std::process::exit(props::sweep::worker_main(&args[3..]));
            }
            eprintln!("unknown worker kind");
            std::process::exit(2);
        }
        _ => usage(),
    }
}
