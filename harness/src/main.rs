#![allow(dead_code)]
//! vrlmc — bounded exhaustive exploration of vectordotdev/vrl (see /verif/DESIGN.md).

mod explore;
mod law;
mod model;
mod props;
mod report;
mod util;
mod vrlx;
mod vv;

use report::{Report, Tier, Violation};
use serde_json::Value as J;

type RunFn = fn(Tier) -> Report;
type ReplayFn = fn(&str, &J) -> Vec<Violation>;

fn registry() -> Vec<(&'static str, RunFn, ReplayFn)> {
    vec![
        ("C10", props::ops::run_c10 as RunFn, props::ops::replay as ReplayFn),
        ("C11", props::ops::run_c11, props::ops::replay),
        ("C18", props::c18::run, props::c18::replay),
        ("C19", props::c19::run, props::c19::replay),
    ]
}

fn usage() -> ! {
    eprintln!("usage: vrlmc check <ID> [--tier quick|thorough] | vrlmc replay <path> | vrlmc list");
    std::process::exit(2)
}

fn main() {
    util::install_panic_hook();
    let args: Vec<String> = std::env::args().collect();
    if args.len() < 2 {
        usage();
    }
    match args[1].as_str() {
        "list" => {
            for (id, _, _) in registry() {
                println!("{id}");
            }
        }
        "check" => {
            let id = args.get(2).cloned().unwrap_or_else(|| usage());
            let mut tier = match std::env::var("VERIF_TIER").as_deref() {
                Ok("thorough") => Tier::Thorough,
                _ => Tier::Quick,
            };
            let mut i = 3;
            while i < args.len() {
                if args[i] == "--tier" {
                    tier = match args.get(i + 1).map(String::as_str) {
                        Some("quick") => Tier::Quick,
                        Some("thorough") => Tier::Thorough,
                        _ => usage(),
                    };
                    i += 1;
                }
                i += 1;
            }
            let Some((_, run, _)) = registry().into_iter().find(|(p, _, _)| *p == id) else {
                eprintln!("MACHINERY-ERROR unknown property {id}");
                std::process::exit(2);
            };
            let rep = match util::guarded(|| run(tier)) {
                Ok(r) => r,
                Err(p) => {
                    println!("MACHINERY-ERROR engine panicked: {p}");
                    std::process::exit(3);
                }
            };
            std::process::exit(rep.finish());
        }
        "replay" => {
            let path = args.get(2).cloned().unwrap_or_else(|| usage());
            let text = std::fs::read_to_string(&path).unwrap_or_else(|e| {
                eprintln!("MACHINERY-ERROR cannot read {path}: {e}");
                std::process::exit(2)
            });
            let doc: J = serde_json::from_str(&text).expect("replay file must be JSON");
            let id = doc["property"].as_str().expect("property").to_string();
            let Some((_, _, replay)) = registry().into_iter().find(|(p, _, _)| *p == id) else {
                eprintln!("MACHINERY-ERROR unknown property {id}");
                std::process::exit(2);
            };
            let vs = replay(&id, &doc["witness"]);
            let want = doc["clause"].as_str().unwrap_or("");
            let mut hit = false;
            for v in &vs {
                let same = v.clause == want && v.witness == doc["witness"];
                println!(
                    "{} clause={} expected={} observed={}",
                    if same { "REPRODUCED" } else { "also" },
                    v.clause,
                    v.expected,
                    v.observed
                );
                hit |= same;
            }
            if hit {
                println!("VIOLATION property={id} replay={path}");
                std::process::exit(1);
            }
            println!("replay: the recorded violation does not reproduce on this tree");
        }
        "worker" => {
            eprintln!("no worker kinds yet");
            std::process::exit(2);
        }
        _ => usage(),
    }
}
