//! Controlled scheduler (DESIGN §2.5): CHESS-style stateless exploration of ALL interleavings of a
//! few real OS threads at the scheduling points of hook H3 (`vrl::verif_hooks::point`).
//!
//! Exactly one thread runs at a time; every other thread is parked inside `point()`. The scheduler
//! models the one lock that exists in the subject (the schema cache `RwLock`), so a thread is
//! *enabled* only if its next acquisition cannot block; "no enabled thread although some are
//! unfinished" is a deadlock. Exploration is depth-first over choice sequences by re-execution
//! (prefix replay, then the default choice); a replayed choice that is out of range is a hard
//! error; every execution has a step horizon.

use std::cell::Cell;
use std::sync::{Arc, Condvar, Mutex};

#[derive(Clone, Copy, Debug, PartialEq)]
enum Status {
    NotStarted,
    Running,
    AtPoint(&'static str),
    Finished,
}

struct State {
    status: Vec<Status>,
    turn: Option<usize>,
    readers: Vec<usize>,
    writer: Option<usize>,
    abort: bool,
}

pub struct Shared {
    m: Mutex<State>,
    cv: Condvar,
}

thread_local! {
    static CURRENT: Cell<Option<usize>> = const { Cell::new(None) };
}

impl Shared {
    fn at_point(&self, kind: &'static str) {
        let Some(me) = CURRENT.with(Cell::get) else { return };
        let mut st = self.m.lock().unwrap();
        if st.abort {
            return;
        }
        // releases have already happened in the real code when their point fires
        match kind {
            "schema-cache:read-released" => st.readers.retain(|t| *t != me),
            "schema-cache:write-released" => {
                if st.writer == Some(me) {
                    st.writer = None;
                }
            }
            _ => {}
        }
        st.status[me] = Status::AtPoint(kind);
        self.cv.notify_all();
        while st.turn != Some(me) && !st.abort {
            st = self.cv.wait(st).unwrap();
        }
        if st.turn == Some(me) {
            st.turn = None;
        }
    }
    fn finish(&self, me: usize) {
        let mut st = self.m.lock().unwrap();
        st.readers.retain(|t| *t != me);
        if st.writer == Some(me) {
            st.writer = None;
        }
        st.status[me] = Status::Finished;
        self.cv.notify_all();
    }
}

#[derive(Clone, Debug)]
pub struct Step {
    /// enabled threads in canonical order (previously running thread first, then ascending ids)
    pub enabled: Vec<usize>,
    pub chosen: usize,
    pub point: &'static str,
    pub prev_still_enabled: bool,
}

pub struct Execution<R> {
    pub steps: Vec<Step>,
    pub results: Vec<Option<R>>,
    pub deadlock: bool,
    pub horizon_hit: bool,
}

#[derive(Default, Debug, Clone)]
pub struct Stats {
    pub executions: u64,
    pub scheduling_points: u64,
    pub max_steps: usize,
    pub deadlocks: u64,
    pub horizon_hits: u64,
    pub max_preemptions_used: u32,
}

fn enabled_threads(st: &State, prev: Option<usize>) -> Vec<usize> {
    let mut v: Vec<usize> = Vec::new();
    for (t, s) in st.status.iter().enumerate() {
        let ok = match s {
            Status::AtPoint("schema-cache:before-read") => st.writer.is_none(),
            Status::AtPoint("schema-cache:before-write") => st.writer.is_none() && st.readers.is_empty(),
            Status::AtPoint(_) => true,
            _ => false,
        };
        if ok {
            v.push(t);
        }
    }
    if let Some(p) = prev {
        if let Some(pos) = v.iter().position(|t| *t == p) {
            v.remove(pos);
            v.insert(0, p);
        }
    }
    v
}

/// Run the bodies once under the choice sequence `prefix` (then always choice 0).
pub fn run_once<R: Send + 'static>(bodies: Vec<Box<dyn FnOnce() -> R + Send>>, prefix: &[usize], horizon: usize) -> Execution<R> {
    let n = bodies.len();
    let shared = Arc::new(Shared {
        m: Mutex::new(State { status: vec![Status::NotStarted; n], turn: None, readers: vec![], writer: None, abort: false }),
        cv: Condvar::new(),
    });
    {
        let s = shared.clone();
        vrl::verif_hooks::set_point_hook(Some(Box::new(move |kind| s.at_point(kind))));
    }
    let results: Arc<Mutex<Vec<Option<R>>>> = Arc::new(Mutex::new((0..n).map(|_| None).collect()));
    let mut handles = Vec::new();
    for (i, body) in bodies.into_iter().enumerate() {
        let s = shared.clone();
        let r = results.clone();
        handles.push(std::thread::spawn(move || {
            CURRENT.with(|c| c.set(Some(i)));
            s.at_point("start");
            let out = body();
            r.lock().unwrap()[i] = Some(out);
            s.finish(i);
        }));
    }
    let mut steps: Vec<Step> = Vec::new();
    let mut prev: Option<usize> = None;
    let mut deadlock = false;
    let mut horizon_hit = false;
    loop {
        let mut st = shared.m.lock().unwrap();
        // wait until nobody is running (every thread parked at a point or finished)
        while st.status.iter().any(|s| matches!(s, Status::Running | Status::NotStarted)) {
            st = shared.cv.wait(st).unwrap();
        }
        if st.status.iter().all(|s| *s == Status::Finished) {
            break;
        }
        let enabled = enabled_threads(&st, prev);
        if enabled.is_empty() {
            deadlock = true;
            st.abort = true; // parked threads are released; threads blocked in a real lock are leaked
            shared.cv.notify_all();
            break;
        }
        if steps.len() >= horizon {
            horizon_hit = true;
            st.abort = true;
            shared.cv.notify_all();
            break;
        }
        let k = steps.len();
        let idx = if k < prefix.len() { prefix[k] } else { 0 };
        assert!(idx < enabled.len(), "replay divergence: choice {idx} at step {k} but only {} enabled threads", enabled.len());
        let t = enabled[idx];
        let Status::AtPoint(point) = st.status[t] else { unreachable!() };
        match point {
            "schema-cache:before-read" => st.readers.push(t),
            "schema-cache:before-write" => st.writer = Some(t),
            _ => {}
        }
        let prev_still_enabled = prev.is_some_and(|p| enabled.contains(&p));
        steps.push(Step { enabled: enabled.clone(), chosen: idx, point, prev_still_enabled });
        st.status[t] = Status::Running;
        st.turn = Some(t);
        prev = Some(t);
        shared.cv.notify_all();
    }
    if !deadlock {
        for h in handles {
            let _ = h.join();
        }
    }
    vrl::verif_hooks::set_point_hook(None);
    let results = std::mem::take(&mut *results.lock().unwrap());
    Execution { steps, results, deadlock, horizon_hit }
}

/// Depth-first exploration of every schedule (optionally bounded by a number of preemptions).
pub fn explore<R: Send + 'static>(
    make_bodies: &mut dyn FnMut() -> Vec<Box<dyn FnOnce() -> R + Send>>,
    max_preemptions: Option<u32>,
    horizon: usize,
    max_executions: u64,
    on_exec: &mut dyn FnMut(&Execution<R>, &[usize]),
) -> (Stats, bool) {
    let mut stats = Stats::default();
    let mut capped = false;
    // stack of prefixes to run (DFS)
    let mut stack: Vec<Vec<usize>> = vec![vec![]];
    while let Some(prefix) = stack.pop() {
        if stats.executions >= max_executions {
            capped = true;
            break;
        }
        let ex = run_once(make_bodies(), &prefix, horizon);
        stats.executions += 1;
        stats.scheduling_points += ex.steps.len() as u64;
        stats.max_steps = stats.max_steps.max(ex.steps.len());
        stats.deadlocks += u64::from(ex.deadlock);
        stats.horizon_hits += u64::from(ex.horizon_hit);
        let choices: Vec<usize> = ex.steps.iter().map(|s| s.chosen).collect();
        on_exec(&ex, &choices);
        // preemptions used before each step
        let mut used = 0u32;
        let mut alts: Vec<Vec<usize>> = Vec::new();
        for (i, s) in ex.steps.iter().enumerate() {
            if i >= prefix.len() {
                for alt in 1..s.enabled.len() {
                    let cost = used + u32::from(s.prev_still_enabled);
                    if max_preemptions.is_some_and(|b| cost > b) {
                        continue;
                    }
                    let mut p: Vec<usize> = choices[..i].to_vec();
                    p.push(alt);
                    alts.push(p);
                }
            }
            if s.prev_still_enabled && s.chosen != 0 {
                used += 1;
            }
        }
        stats.max_preemptions_used = stats.max_preemptions_used.max(used);
        // push in reverse so that the lexicographically smallest alternative runs first
        for p in alts.into_iter().rev() {
            stack.push(p);
        }
    }
    (stats, capped)
}
