//! Small shared helpers: stable hashing, parallel enumeration, panic capture.

use std::cell::RefCell;
use std::panic::{self, AssertUnwindSafe};
use std::sync::atomic::{AtomicU64, Ordering};

/// 128-bit FNV-1a (two independent 64-bit lanes), rendered as 32 hex digits. Stable across
/// builds and platforms, so witness hashes can be committed.
pub fn hash_hex(s: &str) -> String {
    let mut a: u64 = 0xcbf2_9ce4_8422_2325;
    let mut b: u64 = 0x8422_2325_cbf2_9ce4;
    for &byte in s.as_bytes() {
        a ^= u64::from(byte);
        a = a.wrapping_mul(0x0000_0100_0000_01b3);
        b = b.wrapping_add(u64::from(byte) ^ 0x9e37_79b9_7f4a_7c15);
        b = b.rotate_left(23).wrapping_mul(0xff51_afd7_ed55_8ccd);
    }
    format!("{a:016x}{b:016x}")
}

pub fn hash64(s: &str) -> u64 {
    let mut a: u64 = 0xcbf2_9ce4_8422_2325;
    for &byte in s.as_bytes() {
        a ^= u64::from(byte);
        a = a.wrapping_mul(0x0000_0100_0000_01b3);
    }
    a
}

thread_local! {
    static LAST_PANIC: RefCell<Option<String>> = const { RefCell::new(None) };
}

/// Install a silent panic hook that records the message + location per thread.
pub fn install_panic_hook() {
    panic::set_hook(Box::new(|info| {
        let msg = if let Some(s) = info.payload().downcast_ref::<&str>() {
            (*s).to_string()
        } else if let Some(s) = info.payload().downcast_ref::<String>() {
            s.clone()
        } else {
            "<non-string panic payload>".to_string()
        };
        let loc = info
            .location()
            .map(|l| format!("{}:{}", l.file(), l.line()))
            .unwrap_or_default();
        LAST_PANIC.with(|p| *p.borrow_mut() = Some(format!("{msg} @ {loc}")));
    }));
}

/// Run `f`, turning a panic into `Err(message)`.
pub fn guarded<T>(f: impl FnOnce() -> T) -> Result<T, String> {
    match panic::catch_unwind(AssertUnwindSafe(f)) {
        Ok(v) => Ok(v),
        Err(_) => Err(LAST_PANIC
            .with(|p| p.borrow_mut().take())
            .unwrap_or_else(|| "<panic>".to_string())),
    }
}

pub fn threads() -> usize {
    std::env::var("VERIF_THREADS")
        .ok()
        .and_then(|s| s.parse().ok())
        .unwrap_or_else(|| {
            std::thread::available_parallelism()
                .map(std::num::NonZero::get)
                .unwrap_or(4)
                .min(16)
        })
}

/// Enumerate indices `0..n` in parallel. Each worker thread owns one accumulator `A`, created
/// by `init`; `body(i, &mut acc)` is called for every index exactly once; accumulators are
/// returned in thread order (callers merge them deterministically — every merge used in this
/// crate is commutative: counters, sorted sets, violation lists sorted afterwards).
pub fn par_for<A: Send>(
    n: u64,
    chunk: u64,
    init: impl Fn() -> A + Sync,
    body: impl Fn(u64, &mut A) + Sync,
) -> Vec<A> {
    let next = AtomicU64::new(0);
    let nthreads = threads().max(1);
    let chunk = chunk.max(1);
    std::thread::scope(|s| {
        let mut handles = Vec::new();
        for _ in 0..nthreads {
            handles.push(
                std::thread::Builder::new()
                    .stack_size(64 << 20)
                    .spawn_scoped(s, || {
                        let mut acc = init();
                        loop {
                            let start = next.fetch_add(chunk, Ordering::Relaxed);
                            if start >= n {
                                break;
                            }
                            let end = (start + chunk).min(n);
                            for i in start..end {
                                body(i, &mut acc);
                            }
                        }
                        acc
                    })
                    .expect("spawn"),
            );
        }
        handles
            .into_iter()
            .map(|h| h.join().expect("worker thread must not panic outside guarded()"))
            .collect()
    })
}

/// Mixed-radix decoding of an index into per-dimension choices (dimension 0 varies fastest).
pub fn unrank(mut idx: u64, dims: &[u64]) -> Vec<usize> {
    let mut out = Vec::with_capacity(dims.len());
    for &d in dims {
        out.push((idx % d) as usize);
        idx /= d;
    }
    out
}

pub fn product(dims: &[u64]) -> u64 {
    dims.iter().product()
}
