//! Shared driver for flat exhaustive enumerations ("law engine", DESIGN §3.7).
//!
//! A check is a pure function `case(&J) -> CaseResult` that re-executes ONE fully described
//! case (the witness JSON) against the real code; the driver enumerates a finite list (or an
//! index range) of such witnesses over all cores, counts what was covered and collects the
//! violations. `replay` is then simply `case(witness).violations`.

use crate::report::{Report, Violation};
use crate::util::{guarded, hash64, par_for};
use crate::vrlx::{self, Outcome};
use serde_json::Value as J;
use std::cell::RefCell;
use std::collections::{BTreeMap, BTreeSet, HashMap};
use std::rc::Rc;
use vrl::compiler::state::ExternalEnv;
use vrl::compiler::{CompileConfig, Program, TimeZone};
use vrl::value::Value;

#[derive(Default)]
pub struct CaseResult {
    pub violations: Vec<Violation>,
    /// Non-trivial by the check's stated rule (e.g. "the encoder accepted the input and the
    /// decoder was run on its output").
    pub nontrivial: bool,
    /// Observation class (for the "distinct observed outcomes" vacuity counter).
    pub class: String,
    /// Free counters merged into the evidence (`coverage.<name>`).
    pub counters: Vec<(&'static str, u64)>,
}

impl CaseResult {
    pub fn ok(class: &str) -> Self {
        Self { nontrivial: true, class: class.to_string(), ..Default::default() }
    }
    pub fn trivial(class: &str) -> Self {
        Self { nontrivial: false, class: class.to_string(), ..Default::default() }
    }
    pub fn violation(mut self, v: Violation) -> Self {
        self.violations.push(v);
        self
    }
    pub fn count(mut self, name: &'static str, n: u64) -> Self {
        self.counters.push((name, n));
        self
    }
}

#[derive(Default)]
struct Acc {
    evals: u64,
    nontrivial: BTreeSet<u64>,
    classes: BTreeMap<String, u64>,
    counters: BTreeMap<&'static str, u64>,
    violations: Vec<Violation>,
}

/// Enumerate `gen(0..n)`; `check` every witness. Adds to `evaluations`,
/// `distinct_nontrivial`, `outcome_classes` in the report (accumulating over several calls).
pub fn drive_indexed(
    rep: &mut Report,
    group: &str,
    n: u64,
    generate: impl Fn(u64) -> J + Sync,
    check: impl Fn(&J) -> CaseResult + Sync,
) {
    let accs = par_for(n, 32, Acc::default, |i, acc: &mut Acc| {
        let w = generate(i);
        if w.is_null() {
            return;
        }
        let r = match guarded(|| check(&w)) {
            Ok(r) => r,
            Err(p) => CaseResult::default().violation(Violation::new(
                "harness-or-subject-panic",
                w.clone(),
                "case completes without panicking",
                format!("panic: {p}"),
            )),
        };
        acc.evals += 1;
        if r.nontrivial {
            acc.nontrivial.insert(hash64(&w.to_string()));
        }
        *acc.classes.entry(r.class).or_insert(0) += 1;
        for (k, v) in r.counters {
            *acc.counters.entry(k).or_insert(0) += v;
        }
        acc.violations.extend(r.violations);
    });
    let mut evals = 0;
    let mut nontrivial: BTreeSet<u64> = BTreeSet::new();
    let mut classes: BTreeMap<String, u64> = BTreeMap::new();
    for a in accs {
        evals += a.evals;
        nontrivial.extend(a.nontrivial);
        for (k, v) in a.classes {
            *classes.entry(k).or_insert(0) += v;
        }
        for (k, v) in a.counters {
            rep.add(k, v);
        }
        for v in a.violations {
            rep.violation(v);
        }
    }
    rep.add("evaluations", evals);
    rep.add("distinct_nontrivial", nontrivial.len() as u64);
    let mut groups = rep.coverage.get("groups").cloned().unwrap_or_else(|| serde_json::json!({}));
    groups[group] = serde_json::json!({
        "cases": evals,
        "distinct_nontrivial": nontrivial.len(),
        "outcome_classes": classes,
    });
    rep.coverage.insert("groups".into(), groups);
    let prev = rep.coverage.get("distinct_outcome_classes").and_then(J::as_u64).unwrap_or(0);
    rep.set("distinct_outcome_classes", prev + classes.len() as u64);
    // first, middle and last case as samples
    if n > 0 {
        for i in [0, n / 2, n - 1] {
            let w = generate(i);
            if !w.is_null() {
                rep.sample(w);
            }
        }
    }
}

pub fn drive(rep: &mut Report, group: &str, cases: &[J], check: impl Fn(&J) -> CaseResult + Sync) {
    drive_indexed(rep, group, cases.len() as u64, |i| cases[i as usize].clone(), check);
}

// ---------------------------------------------------------------------------------------------
// Compiled-snippet cache (per thread): a law usually runs a handful of program texts millions of
// times.

thread_local! {
    static CACHE: RefCell<HashMap<String, Option<Rc<Program>>>> = RefCell::new(HashMap::new());
    static FNS: Vec<Box<dyn vrl::compiler::Function>> = vrlx::fns();
}

/// Compile `src` under the default environment (event: object of any), cached per thread.
/// None = rejected by the compiler (or the compiler panicked).
pub fn prog(src: &str) -> Option<Rc<Program>> {
    CACHE.with(|c| {
        if let Some(p) = c.borrow().get(src) {
            return p.clone();
        }
        let p = compile_uncached(src, &ExternalEnv::default()).ok().map(Rc::new);
        let mut m = c.borrow_mut();
        if m.len() > 200_000 {
            m.clear();
        }
        m.insert(src.to_string(), p.clone());
        p
    })
}

pub fn compile_uncached(src: &str, env: &ExternalEnv) -> Result<Program, String> {
    FNS.with(|fns| match guarded(|| vrlx::compile_ext(src, fns, env, CompileConfig::default())) {
        Ok(Ok(r)) => Ok(r.program),
        Ok(Err(d)) => Err(format!("rejected: {}", vrlx::diag_summary(&d))),
        Err(p) => Err(format!("panic: {p}")),
    })
}

/// Why a snippet was rejected (diagnostic summary), for reporting.
pub fn why_rejected(src: &str) -> String {
    compile_uncached(src, &ExternalEnv::default()).err().unwrap_or_else(|| "accepted".into())
}

/// Run a cached snippet on `event` (metadata = {}), UTC. A panic in the subject is reported as
/// `Outcome::Other("panic: …")`; a rejected snippet as `Outcome::Other("rejected")`.
pub fn call(src: &str, event: Value) -> Outcome {
    call_tz(src, event, &vrlx::utc())
}

pub fn call_tz(src: &str, event: Value, tz: &TimeZone) -> Outcome {
    let Some(p) = prog(src) else { return Outcome::Other("rejected".into()) };
    let mut t = vrlx::target(event, vrlx::empty_object());
    match guarded(|| vrlx::run_runtime(&p, &mut t, tz)) {
        Ok(o) => o,
        Err(p) => Outcome::Other(format!("panic: {p}")),
    }
}

/// Like `call`, also returning the final event.
pub fn call_ev(src: &str, event: Value) -> (Outcome, Value) {
    let Some(p) = prog(src) else { return (Outcome::Other("rejected".into()), Value::Null) };
    let mut t = vrlx::target(event, vrlx::empty_object());
    let tz = vrlx::utc();
    match guarded(|| vrlx::run_runtime(&p, &mut t, &tz)) {
        Ok(o) => (o, t.value),
        Err(p) => (Outcome::Other(format!("panic: {p}")), Value::Null),
    }
}

pub fn is_panic(o: &Outcome) -> bool {
    matches!(o, Outcome::Other(m) if m.starts_with("panic"))
}

/// Event `{a: x}` / `{a: x, b: y}` helpers.
pub fn ev1(a: Value) -> Value {
    crate::vv::obj(&[("a", a)])
}
pub fn ev2(a: Value, b: Value) -> Value {
    crate::vv::obj(&[("a", a), ("b", b)])
}

/// All strings of length `0..=max_len` over `alphabet` (in length-then-lexicographic order).
pub fn strings_over(alphabet: &[&str], max_len: usize) -> Vec<String> {
    let mut out = vec![String::new()];
    let mut level = vec![String::new()];
    for _ in 0..max_len {
        let mut next = Vec::with_capacity(level.len() * alphabet.len());
        for s in &level {
            for a in alphabet {
                next.push(format!("{s}{a}"));
            }
        }
        out.extend(next.iter().cloned());
        level = next;
    }
    out
}
