//! Thin wrappers over the public vrl API: compile, run, outcome classes.

use std::collections::BTreeMap;
use vrl::compiler::runtime::{Runtime, Terminate};
use vrl::compiler::state::{ExternalEnv, RuntimeState};
use vrl::compiler::{
    CompilationResult, CompileConfig, Context, ExpressionError, Function, Program, Target, TargetValue, TimeZone,
    TypeState, compile_with_external, compile_with_state,
};
use vrl::diagnostic::DiagnosticList;
use vrl::value::{Kind, Secrets, Value};

pub fn fns() -> Vec<Box<dyn Function>> {
    vrl::stdlib::all()
}

pub fn empty_object() -> Value {
    Value::Object(BTreeMap::new())
}

pub fn target(event: Value, metadata: Value) -> TargetValue {
    TargetValue { value: event, metadata, secrets: Secrets::default() }
}

/// Outcome class of a run. Error texts are carried for reporting only and never compared,
/// except where a property says so (abort messages).
#[derive(Clone, Debug, PartialEq)]
pub enum Outcome {
    Ok(Value),
    /// `Program::resolve` only: program ended through `return`.
    Return(Value),
    Error(String),
    Abort(Option<String>),
    /// Fallible / Missing (should never surface from an accepted program).
    Other(String),
}

impl Outcome {
    pub fn class(&self) -> &'static str {
        match self {
            Outcome::Ok(_) => "ok",
            Outcome::Return(_) => "return",
            Outcome::Error(_) => "error",
            Outcome::Abort(_) => "abort",
            Outcome::Other(_) => "other",
        }
    }
    pub fn show(&self) -> String {
        match self {
            Outcome::Ok(v) => format!("ok {}", crate::vv::show(v)),
            Outcome::Return(v) => format!("return {}", crate::vv::show(v)),
            Outcome::Error(m) => format!("error {m:?}"),
            Outcome::Abort(m) => format!("abort {m:?}"),
            Outcome::Other(m) => format!("other {m:?}"),
        }
    }
    /// What `Runtime::resolve` would report for this `Program::resolve` outcome.
    pub fn as_runtime(&self) -> Outcome {
        match self {
            Outcome::Return(v) => Outcome::Ok(v.clone()),
            Outcome::Other(_) => Outcome::Abort(None),
            o => o.clone(),
        }
    }
    pub fn value(&self) -> Option<&Value> {
        match self {
            Outcome::Ok(v) | Outcome::Return(v) => Some(v),
            _ => None,
        }
    }
    pub fn success(&self) -> bool {
        matches!(self, Outcome::Ok(_) | Outcome::Return(_))
    }
}

pub fn from_expr_result(r: Result<Value, ExpressionError>) -> Outcome {
    match r {
        Ok(v) => Outcome::Ok(v),
        Err(ExpressionError::Return { value, .. }) => Outcome::Return(value),
        Err(ExpressionError::Abort { message, .. }) => Outcome::Abort(message),
        Err(ExpressionError::Error { message, .. }) => Outcome::Error(message),
        Err(e @ (ExpressionError::Fallible { .. } | ExpressionError::Missing { .. })) => Outcome::Other(e.to_string()),
    }
}

pub fn from_runtime_result(r: Result<Value, Terminate>) -> Outcome {
    match r {
        Ok(v) => Outcome::Ok(v),
        Err(Terminate::Abort(ExpressionError::Abort { message, .. })) => Outcome::Abort(message),
        Err(Terminate::Abort(e)) => Outcome::Other(e.to_string()),
        Err(Terminate::Error(e)) => Outcome::Error(e.to_string()),
    }
}

pub fn compile_ext(
    src: &str,
    fns: &[Box<dyn Function>],
    ext: &ExternalEnv,
    cfg: CompileConfig,
) -> Result<CompilationResult, DiagnosticList> {
    compile_with_external(src, fns, ext, cfg)
}

pub fn compile_state(
    src: &str,
    fns: &[Box<dyn Function>],
    st: &TypeState,
    cfg: CompileConfig,
) -> Result<CompilationResult, DiagnosticList> {
    compile_with_state(src, fns, st, cfg)
}

pub fn compile_default(src: &str, fns: &[Box<dyn Function>]) -> Result<CompilationResult, DiagnosticList> {
    compile_with_external(src, fns, &ExternalEnv::default(), CompileConfig::default())
}

pub fn ext_env(target: Kind, metadata: Kind) -> ExternalEnv {
    ExternalEnv::new_with_kind(target, metadata)
}

pub fn utc() -> TimeZone {
    TimeZone::Named(chrono_tz::UTC)
}

/// Run through `Runtime::resolve` on a fresh runtime.
pub fn run_runtime(program: &Program, tgt: &mut dyn Target, tz: &TimeZone) -> Outcome {
    let mut rt = Runtime::default();
    from_runtime_result(rt.resolve(tgt, program, tz))
}

/// Run through `Program::resolve` on a caller-owned `RuntimeState` (keeps `Return` visible and
/// the variable store inspectable).
pub fn run_program(program: &Program, tgt: &mut dyn Target, state: &mut RuntimeState, tz: &TimeZone) -> Outcome {
    let mut ctx = Context::new(tgt, state, tz);
    from_expr_result(program.resolve(&mut ctx))
}

pub fn diag_summary(d: &DiagnosticList) -> String {
    d.iter().map(|x| format!("E{}:{}", x.code, x.message)).collect::<Vec<_>>().join(" | ")
}

pub fn nan_error_text() -> String {
    vrl::compiler::value::ValueError::NanFloat.to_string()
}
