//! Value codecs used by witnesses: a faithful tagged-JSON encoding (`enc`/`dec`) and a printer
//! of VRL literal source text (`lit`).

use serde_json::{Value as J, json};
use std::collections::BTreeMap;
use vrl::value::{KeyString, Value};

pub fn enc(v: &Value) -> J {
    match v {
        Value::Null => J::Null,
        Value::Boolean(b) => J::Bool(*b),
        Value::Integer(i) => json!(*i),
        Value::Float(f) => json!({ "$f": fmt_float(f.into_inner()) }),
        Value::Bytes(b) => match std::str::from_utf8(b) {
            Ok(s) => J::String(s.to_string()),
            Err(_) => json!({ "$hex": hex(b) }),
        },
        Value::Timestamp(t) => json!({ "$ts": t.to_rfc3339_opts(chrono::SecondsFormat::AutoSi, true) }),
        Value::Regex(r) => json!({ "$re": r.as_str() }),
        Value::Array(a) => J::Array(a.iter().map(enc).collect()),
        Value::Object(o) => J::Object(o.iter().map(|(k, v)| (k.to_string(), enc(v))).collect()),
    }
}

pub fn dec(j: &J) -> Value {
    match j {
        J::Null => Value::Null,
        J::Bool(b) => Value::Boolean(*b),
        J::Number(n) => {
            if let Some(i) = n.as_i64() {
                Value::Integer(i)
            } else {
                f(n.as_f64().unwrap_or(0.0))
            }
        }
        J::String(s) => Value::from(s.as_str()),
        J::Array(a) => Value::Array(a.iter().map(dec).collect()),
        J::Object(o) => {
            if o.len() == 1 {
                let (k, v) = o.iter().next().unwrap();
                match (k.as_str(), v) {
                    ("$f", J::String(s)) => return f(parse_float(s)),
                    ("$hex", J::String(s)) => return Value::Bytes(unhex(s).into()),
                    ("$ts", J::String(s)) => {
                        return Value::Timestamp(
                            chrono::DateTime::parse_from_rfc3339(s)
                                .expect("witness timestamp")
                                .with_timezone(&chrono::Utc),
                        );
                    }
                    ("$re", J::String(s)) => {
                        return Value::Regex(regex::Regex::new(s).expect("witness regex").into());
                    }
                    _ => {}
                }
            }
            Value::Object(
                o.iter()
                    .map(|(k, v)| (KeyString::from(k.as_str()), dec(v)))
                    .collect::<BTreeMap<_, _>>(),
            )
        }
    }
}

pub fn fmt_float(f: f64) -> String {
    if f.is_infinite() {
        if f > 0.0 { "inf".into() } else { "-inf".into() }
    } else if f == 0.0 && f.is_sign_negative() {
        "-0.0".into()
    } else {
        format!("{f:?}")
    }
}

pub fn parse_float(s: &str) -> f64 {
    match s {
        "inf" => f64::INFINITY,
        "-inf" => f64::NEG_INFINITY,
        _ => s.parse().expect("witness float"),
    }
}

pub fn hex(b: &[u8]) -> String {
    b.iter().map(|x| format!("{x:02x}")).collect()
}

pub fn unhex(s: &str) -> Vec<u8> {
    (0..s.len() / 2)
        .map(|i| u8::from_str_radix(&s[2 * i..2 * i + 2], 16).expect("hex"))
        .collect()
}

/// Compact one-line rendering for messages (tagged JSON text).
pub fn show(v: &Value) -> String {
    enc(v).to_string()
}

/// VRL string literal with the escapes the lexer understands.
pub fn str_lit(s: &str) -> String {
    let mut out = String::with_capacity(s.len() + 2);
    out.push('"');
    for c in s.chars() {
        match c {
            '"' => out.push_str("\\\""),
            '\\' => out.push_str("\\\\"),
            '\n' => out.push_str("\\n"),
            '\r' => out.push_str("\\r"),
            '\t' => out.push_str("\\t"),
            '\0' => out.push_str("\\0"),
            '{' => out.push_str("\\{"),
            c => out.push(c),
        }
    }
    out.push('"');
    out
}

/// VRL source text of a value, or None when the value has no literal form (non-UTF-8 bytes,
/// non-finite floats).
pub fn lit(v: &Value) -> Option<String> {
    Some(match v {
        Value::Null => "null".into(),
        Value::Boolean(b) => b.to_string(),
        Value::Integer(i) => {
            if *i == i64::MIN {
                // `-9223372036854775808` lexes as negation of an out-of-range literal.
                "(-9223372036854775807 - 1)".into()
            } else {
                i.to_string()
            }
        }
        Value::Float(f) => {
            let f = f.into_inner();
            if !f.is_finite() {
                return None;
            }
            let s = format!("{f:?}");
            if s.contains('e') || s.contains("inf") {
                // VRL float literals have no exponent form: print positional.
                let p = format!("{f:.400}");
                let p = p.trim_end_matches('0');
                if p.ends_with('.') { format!("{p}0") } else { p.to_string() }
            } else {
                s
            }
        }
        Value::Bytes(b) => str_lit(std::str::from_utf8(b).ok()?),
        Value::Timestamp(t) => format!("t'{}'", t.to_rfc3339_opts(chrono::SecondsFormat::AutoSi, true)),
        Value::Regex(r) => format!("r'{}'", r.as_str()),
        Value::Array(a) => {
            let items: Option<Vec<String>> = a.iter().map(lit).collect();
            format!("[{}]", items?.join(", "))
        }
        Value::Object(o) => {
            let items: Option<Vec<String>> =
                o.iter().map(|(k, v)| Some(format!("{}: {}", str_lit(k), lit(v)?))).collect();
            format!("{{{}}}", items?.join(", "))
        }
    })
}

pub fn obj(pairs: &[(&str, Value)]) -> Value {
    Value::Object(pairs.iter().map(|(k, v)| (KeyString::from(*k), v.clone())).collect())
}

pub fn arr(items: &[Value]) -> Value {
    Value::Array(items.to_vec())
}

pub fn ts(s: &str) -> Value {
    Value::Timestamp(chrono::DateTime::parse_from_rfc3339(s).expect("ts").with_timezone(&chrono::Utc))
}

pub fn f(x: f64) -> Value {
    Value::Float(ordered_float::NotNan::new(x).expect("not NaN"))
}

pub fn i(x: i64) -> Value {
    Value::Integer(x)
}

pub fn s(x: &str) -> Value {
    Value::from(x)
}
