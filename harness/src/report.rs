//! Evidence files, violation records, replay artefacts and known-finding matching (R7).

use crate::util::hash_hex;
use serde_json::{Map, Value as J, json};
use std::collections::{BTreeMap, BTreeSet};
use std::path::{Path, PathBuf};
use std::time::Instant;

pub fn verif_root() -> PathBuf {
    std::env::var("VERIF_ROOT").map(PathBuf::from).unwrap_or_else(|_| PathBuf::from("/verif"))
}

pub static DEEP_QUICK: std::sync::atomic::AtomicBool = std::sync::atomic::AtomicBool::new(false);

#[derive(Clone, Copy, PartialEq, Eq, Debug)]
pub enum Tier {
    Quick,
    Thorough,
}

impl Tier {
    pub fn name(self) -> &'static str {
        match self {
            Tier::Quick => "quick",
            Tier::Thorough => "thorough",
        }
    }
    /// True for the thorough tier — and for the quick tier of the checks whose thorough alphabets are cheap
    /// enough to run on every change (main.rs sets DEEP_QUICK for them; the evidence keeps the label `quick`).
    pub fn thorough(self) -> bool {
        self == Tier::Thorough || DEEP_QUICK.load(std::sync::atomic::Ordering::Relaxed)
    }
}

#[derive(Clone, Debug)]
pub struct Violation {
    /// Which clause of the oracle failed (stable identifier; part of the witness hash).
    pub clause: String,
    /// Complete input of the failing case; `vrlmc replay` feeds exactly this back to the check.
    pub witness: J,
    pub expected: String,
    pub observed: String,
}

impl Violation {
    pub fn new(clause: &str, witness: J, expected: impl Into<String>, observed: impl Into<String>) -> Self {
        Self { clause: clause.to_string(), witness, expected: expected.into(), observed: observed.into() }
    }
    pub fn hash(&self, property: &str) -> String {
        hash_hex(&format!("{property}|{}|{}", self.clause, self.witness))
    }
}

pub struct Report {
    pub property: String,
    pub tier: Tier,
    pub seed: i64,
    pub level: &'static str,
    pub start: Instant,
    pub coverage: Map<String, J>,
    pub assumptions: Vec<String>,
    pub violations: Vec<Violation>,
    pub samples: Vec<J>,
    pub exhaustive: bool,
    pub notes: Vec<String>,
}

struct Known {
    id: String,
    summary: String,
    hashes: BTreeSet<String>,
}

/// Listed ceiling for the number of failing cases attributed to `clause` (known_findings.json,
/// `clause_ceilings.<property>.<tier>.<clause>`; read-only). Used by checks that report one witness per
/// root-cause clause: MORE failing cases than listed in a clause is a new violation even if no shorter
/// witness appears.
pub fn clause_ceiling(property: &str, tier: Tier, clause: &str) -> Option<u64> {
    let text = std::fs::read_to_string(verif_root().join("known_findings.json")).ok()?;
    let doc: J = serde_json::from_str(&text).ok()?;
    doc["clause_ceilings"][property][tier.name()][clause].as_u64()
}

/// All witness hashes listed for `property` in known_findings.json (read-only).
pub fn known_hashes(property: &str) -> BTreeSet<String> {
    let r = Report::new(property, Tier::Quick, "other");
    r.load_known().into_iter().flat_map(|k| k.hashes).collect()
}

impl Report {
    pub fn new(property: &str, tier: Tier, level: &'static str) -> Self {
        let seed = std::env::var("VERIF_SEED").ok().and_then(|s| s.parse().ok()).unwrap_or(0);
        Self {
            property: property.to_string(),
            tier,
            seed,
            level,
            start: Instant::now(),
            coverage: Map::new(),
            assumptions: vec![
                "harness build profile: opt-level=1, overflow-checks=on, debug-assertions=off (DESIGN R3)".into(),
                "subject = /repo working tree compiled with cargo feature verif-hooks (additive, read-only hooks)".into(),
            ],
            violations: Vec::new(),
            samples: Vec::new(),
            exhaustive: true,
            notes: Vec::new(),
        }
    }

    pub fn set(&mut self, key: &str, v: impl Into<J>) {
        self.coverage.insert(key.to_string(), v.into());
    }

    pub fn add(&mut self, key: &str, n: u64) {
        let cur = self.coverage.get(key).and_then(J::as_u64).unwrap_or(0);
        self.coverage.insert(key.to_string(), json!(cur + n));
    }

    pub fn sample(&mut self, s: J) {
        if self.samples.len() < 12 {
            self.samples.push(s);
        }
    }

    pub fn assume(&mut self, s: &str) {
        self.assumptions.push(s.to_string());
    }

    pub fn violation(&mut self, v: Violation) {
        self.violations.push(v);
    }

    fn load_known(&self) -> Vec<Known> {
        let root = verif_root();
        let path = root.join("known_findings.json");
        let Ok(text) = std::fs::read_to_string(&path) else { return Vec::new() };
        let doc: J = serde_json::from_str(&text).expect("known_findings.json must be valid JSON");
        let mut out = Vec::new();
        for f in doc["findings"].as_array().cloned().unwrap_or_default() {
            if f["property"].as_str() != Some(&self.property) {
                continue;
            }
            let mut hashes = BTreeSet::new();
            if let Some(file) = f["witnesses_file"].as_str() {
                let text = std::fs::read_to_string(root.join(file))
                    .unwrap_or_else(|e| panic!("known-finding witness file {file}: {e}"));
                for line in text.lines() {
                    let h = line.split_whitespace().next().unwrap_or("");
                    if !h.is_empty() && !h.starts_with('#') {
                        hashes.insert(h.to_string());
                    }
                }
            }
            for h in f["witnesses"].as_array().cloned().unwrap_or_default() {
                if let Some(h) = h.as_str() {
                    hashes.insert(h.to_string());
                }
            }
            out.push(Known {
                id: f["id"].as_str().unwrap_or("?").to_string(),
                summary: f["summary"].as_str().unwrap_or("").to_string(),
                hashes,
            });
        }
        out
    }

    /// Write evidence, replays; print verdict lines; return the process exit code.
    pub fn finish(mut self) -> i32 {
        let root = verif_root();
        let known = self.load_known();
        // Deterministic order and de-duplication of violations.
        let mut by_hash: BTreeMap<String, Violation> = BTreeMap::new();
        for v in std::mem::take(&mut self.violations) {
            by_hash.entry(v.hash(&self.property)).or_insert(v);
        }
        let mut matched: BTreeMap<String, u64> = BTreeMap::new();
        let mut unlisted: Vec<(String, Violation)> = Vec::new();
        for (h, v) in by_hash {
            if let Some(k) = known.iter().find(|k| k.hashes.contains(&h)) {
                *matched.entry(k.id.clone()).or_insert(0) += 1;
            } else {
                unlisted.push((h, v));
            }
        }
        for k in &known {
            if let Some(n) = matched.get(&k.id) {
                println!(
                    "KNOWN-FINDING: property={} {} {} ({} listed witnesses reproduced)",
                    self.property, k.id, k.summary, n
                );
            }
        }
        // Optional: dump unlisted violations for triage (never read back at run time).
        if let Ok(p) = std::env::var("VERIF_EMIT_UNLISTED") {
            let mut out = String::new();
            for (h, v) in &unlisted {
                out.push_str(
                    &json!({"hash": h, "clause": v.clause, "witness": v.witness, "expected": v.expected, "observed": v.observed})
                        .to_string(),
                );
                out.push('\n');
            }
            std::fs::write(&p, out).expect("write VERIF_EMIT_UNLISTED");
        }
        let replay_dir = root.join("replays").join(&self.property);
        let mut printed = 0;
        for (h, v) in &unlisted {
            if printed >= 25 {
                break;
            }
            std::fs::create_dir_all(&replay_dir).ok();
            let path = replay_dir.join(format!("{}.json", &h[..16]));
            let doc = json!({
                "property": self.property, "clause": v.clause, "hash": h, "tier": self.tier.name(),
                "witness": v.witness, "expected": v.expected, "observed": v.observed,
            });
            std::fs::write(&path, serde_json::to_string_pretty(&doc).unwrap()).expect("write replay");
            println!("VIOLATION property={} replay={}", self.property, path.display());
            println!("  clause={} expected={} observed={}", v.clause, trunc(&v.expected), trunc(&v.observed));
            println!("  witness={}", trunc(&v.witness.to_string()));
            printed += 1;
        }
        if unlisted.len() > printed {
            println!("  … {} further unlisted violations not printed", unlisted.len() - printed);
        }

        let wall = self.start.elapsed().as_secs_f64();
        let mut cov = std::mem::take(&mut self.coverage);
        cov.insert("samples".into(), J::Array(self.samples.clone()));
        cov.insert("exhaustive".into(), J::Bool(self.exhaustive));
        cov.insert(
            "known_findings_matched".into(),
            J::Object(matched.iter().map(|(k, v)| (k.clone(), json!(v))).collect()),
        );
        if !self.notes.is_empty() {
            cov.insert("notes".into(), json!(self.notes));
        }
        let ev = json!({
            "property_id": self.property,
            "tier": self.tier.name(),
            "seed": self.seed,
            "level": self.level,
            "coverage": cov,
            "assumptions": self.assumptions,
            "wall_s": (wall * 1000.0).round() / 1000.0,
            "violations": unlisted.len(),
        });
        let evdir = root.join("evidence");
        std::fs::create_dir_all(&evdir).ok();
        write_atomic(&evdir.join(format!("{}.json", self.property)), &serde_json::to_string_pretty(&ev).unwrap());
        println!(
            "{} tier={} wall={:.1}s unlisted_violations={} known_matched={}",
            self.property,
            self.tier.name(),
            wall,
            unlisted.len(),
            matched.values().sum::<u64>()
        );
        i32::from(!unlisted.is_empty())
    }
}

fn trunc(s: &str) -> String {
    if s.chars().count() > 400 { format!("{}…", s.chars().take(400).collect::<String>()) } else { s.to_string() }
}

fn write_atomic(path: &Path, text: &str) {
    let tmp = path.with_extension("json.tmp");
    std::fs::write(&tmp, text).expect("write evidence");
    std::fs::rename(&tmp, path).expect("rename evidence");
}
