//! The repository's own `.vrl` corpus (`/repo/lib/tests/tests/**/*.vrl`, read at run time so that it
//! tracks the tree) as an additional program source: (name, source text, declared input object).
//! The `# result:` headers are NOT used as oracles (that is what the repository's own runner does).

use std::path::{Path, PathBuf};
use vrl::value::Value;

pub struct CorpusProgram {
    pub name: String,
    pub src: String,
    pub object: Value,
}

fn walk(dir: &Path, out: &mut Vec<PathBuf>) {
    let Ok(rd) = std::fs::read_dir(dir) else { return };
    let mut entries: Vec<PathBuf> = rd.filter_map(|e| e.ok().map(|e| e.path())).collect();
    entries.sort();
    for p in entries {
        if p.is_dir() {
            walk(&p, out);
        } else if p.extension().is_some_and(|e| e == "vrl") {
            out.push(p);
        }
    }
}

/// Header value `# <key>: …` possibly continued on following `#   …` lines.
fn header(text: &str, key: &str) -> Option<String> {
    let mut lines = text.lines();
    while let Some(l) = lines.next() {
        if let Some(rest) = l.strip_prefix(&format!("# {key}:")) {
            let mut v = rest.trim().to_string();
            for c in lines.by_ref() {
                match c.strip_prefix("#  ") {
                    Some(cont) => {
                        v.push(' ');
                        v.push_str(cont.trim());
                    }
                    None => break,
                }
            }
            return Some(v);
        }
        if !l.starts_with('#') && !l.trim().is_empty() {
            break;
        }
    }
    None
}

pub fn load() -> Vec<CorpusProgram> {
    let root = Path::new("/repo/lib/tests/tests");
    let mut files = Vec::new();
    walk(root, &mut files);
    let mut out = Vec::new();
    for f in files {
        let Ok(text) = std::fs::read_to_string(&f) else { continue };
        // tests that need a special configuration or are marked as skipped are left to the repository's runner
        if text.contains("# read_only") || text.contains("# skip") || text.len() > 20_000 {
            continue;
        }
        let object = header(&text, "object")
            .and_then(|j| serde_json::from_str::<serde_json::Value>(&j).ok())
            .map_or_else(crate::vrlx::empty_object, |j| crate::vv::dec(&j));
        if !matches!(object, Value::Object(_)) {
            continue;
        }
        let name = f.strip_prefix(root).unwrap_or(&f).to_string_lossy().to_string();
        out.push(CorpusProgram { name, src: text, object });
    }
    out
}

/// Programs whose result does not depend on randomness, the clock or the environment.
pub fn deterministic(src: &str) -> bool {
    !["uuid_v4", "uuid_v7", "now", "random_bool", "random_bytes", "random_float", "random_int", "get_hostname", "get_env_var", "get_timezone_name", "dns_lookup", "reverse_dns", "http_request"]
        .iter()
        .any(|f| src.contains(&format!("{f}(")) || src.contains(&format!("{f}!(")))
}
