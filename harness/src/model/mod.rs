pub mod member;
pub mod tree;
