pub mod member;
pub mod tree;
pub mod interp;
