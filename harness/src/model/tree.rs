//! Boring reference model of path operations on a value tree (DESIGN §2.4 `value_ops`).
//! Independent of `vrl::value::crud`: plain recursion over `Value` with its own segment type.

use std::collections::BTreeMap;
use vrl::path::{OwnedSegment, OwnedValuePath};
use vrl::value::{KeyString, Value};

#[derive(Clone, Debug, PartialEq, Eq, PartialOrd, Ord, Hash)]
pub enum Seg {
    F(String),
    I(i64),
}

pub type Path = Vec<Seg>;

pub fn to_owned_path(p: &[Seg]) -> OwnedValuePath {
    OwnedValuePath {
        segments: p
            .iter()
            .map(|s| match s {
                Seg::F(f) => OwnedSegment::Field(KeyString::from(f.as_str())),
                Seg::I(i) => OwnedSegment::Index(*i as isize),
            })
            .collect(),
    }
}

pub fn from_owned_path(p: &OwnedValuePath) -> Path {
    p.segments
        .iter()
        .map(|s| match s {
            OwnedSegment::Field(f) => Seg::F(f.to_string()),
            OwnedSegment::Index(i) => Seg::I(*i as i64),
        })
        .collect()
}

pub fn show_path(p: &[Seg]) -> String {
    if p.is_empty() {
        return ".".into();
    }
    let mut s = String::new();
    for seg in p {
        match seg {
            Seg::F(f) => s.push_str(&format!(".{f:?}")),
            Seg::I(i) => s.push_str(&format!("[{i}]")),
        }
    }
    s
}

fn idx(len: usize, i: i64) -> Option<usize> {
    if i >= 0 {
        let u = i as usize;
        (u < len).then_some(u)
    } else {
        let u = len as i64 + i;
        (u >= 0).then_some(u as usize)
    }
}

pub fn get<'a>(v: &'a Value, p: &[Seg]) -> Option<&'a Value> {
    match p.split_first() {
        None => Some(v),
        Some((Seg::F(f), rest)) => match v {
            Value::Object(m) => m.get(f.as_str()).and_then(|c| get(c, rest)),
            _ => None,
        },
        Some((Seg::I(i), rest)) => match v {
            Value::Array(a) => idx(a.len(), *i).and_then(|u| get(&a[u], rest)),
            _ => None,
        },
    }
}

/// Resolve a path against a value into a concrete location (non-negative indices), as far as
/// the existing structure goes. Returns (concrete prefix, number of segments resolved).
pub fn resolve(v: &Value, p: &[Seg]) -> (Path, usize) {
    let mut out = Vec::new();
    let mut cur = v;
    for (n, seg) in p.iter().enumerate() {
        match (seg, cur) {
            (Seg::F(f), Value::Object(m)) => match m.get(f.as_str()) {
                Some(c) => {
                    out.push(seg.clone());
                    cur = c;
                }
                None => return (out, n),
            },
            (Seg::I(i), Value::Array(a)) => match idx(a.len(), *i) {
                Some(u) => {
                    out.push(Seg::I(u as i64));
                    cur = &a[u];
                }
                None => return (out, n),
            },
            _ => return (out, n),
        }
    }
    (out, p.len())
}

/// Documented insert semantics: missing containers are created, a non-container in the way is
/// replaced, arrays are padded with null (at the end for positive, at the front for negative
/// out-of-range indices).
pub fn insert(v: &mut Value, p: &[Seg], x: Value) {
    match p.split_first() {
        None => *v = x,
        Some((Seg::F(f), rest)) => {
            if !matches!(v, Value::Object(_)) {
                *v = Value::Object(BTreeMap::new());
            }
            let Value::Object(m) = v else { unreachable!() };
            let child = m.entry(KeyString::from(f.as_str())).or_insert(Value::Null);
            insert(child, rest, x);
        }
        Some((Seg::I(i), rest)) => {
            if !matches!(v, Value::Array(_)) {
                *v = Value::Array(Vec::new());
            }
            let Value::Array(a) = v else { unreachable!() };
            let u = if *i >= 0 {
                let u = *i as usize;
                while a.len() <= u {
                    a.push(Value::Null);
                }
                u
            } else {
                let need = i.unsigned_abs() as usize;
                while a.len() < need {
                    a.insert(0, Value::Null);
                }
                (a.len() as i64 + *i) as usize
            };
            insert(&mut a[u], rest, x);
        }
    }
}

/// Remove the value at `p`; with `prune`, empty containers left behind are removed as well,
/// cascading upwards (never the root). Removing the root empties a container / nulls a scalar.
pub fn remove(v: &mut Value, p: &[Seg], prune: bool) -> Option<Value> {
    if p.is_empty() {
        return Some(match v {
            Value::Object(m) => Value::Object(std::mem::take(m)),
            Value::Array(a) => Value::Array(std::mem::take(a)),
            other => std::mem::replace(other, Value::Null),
        });
    }
    remove_inner(v, p, prune).0
}

fn is_empty_container(v: &Value) -> bool {
    match v {
        Value::Object(m) => m.is_empty(),
        Value::Array(a) => a.is_empty(),
        _ => false,
    }
}

/// returns (removed, child_became_empty_container)
fn remove_inner(v: &mut Value, p: &[Seg], prune: bool) -> (Option<Value>, bool) {
    let (seg, rest) = p.split_first().expect("non-empty");
    match (seg, &mut *v) {
        (Seg::F(f), Value::Object(m)) => {
            if rest.is_empty() {
                let r = m.remove(f.as_str());
                (r, is_empty_container_map(m))
            } else {
                let Some(child) = m.get_mut(f.as_str()) else { return (None, false) };
                let (r, empty) = remove_inner(child, rest, prune);
                if r.is_some() && prune && empty {
                    m.remove(f.as_str());
                }
                (r, m.is_empty())
            }
        }
        (Seg::I(i), Value::Array(a)) => {
            let Some(u) = idx(a.len(), *i) else { return (None, false) };
            if rest.is_empty() {
                let r = Some(a.remove(u));
                (r, a.is_empty())
            } else {
                let (r, empty) = remove_inner(&mut a[u], rest, prune);
                if r.is_some() && prune && empty {
                    a.remove(u);
                }
                (r, a.is_empty())
            }
        }
        _ => (None, false),
    }
}

fn is_empty_container_map(m: &BTreeMap<KeyString, Value>) -> bool {
    m.is_empty()
}

/// All concrete locations (non-negative indices) of a value, root excluded.
pub fn locations(v: &Value) -> Vec<Path> {
    let mut out = Vec::new();
    fn go(v: &Value, cur: &mut Path, out: &mut Vec<Path>) {
        match v {
            Value::Object(m) => {
                for (k, c) in m {
                    cur.push(Seg::F(k.to_string()));
                    out.push(cur.clone());
                    go(c, cur, out);
                    cur.pop();
                }
            }
            Value::Array(a) => {
                for (i, c) in a.iter().enumerate() {
                    cur.push(Seg::I(i as i64));
                    out.push(cur.clone());
                    go(c, cur, out);
                    cur.pop();
                }
            }
            _ => {}
        }
    }
    go(v, &mut Vec::new(), &mut out);
    let _ = is_empty_container;
    out
}

pub fn is_prefix(a: &[Seg], b: &[Seg]) -> bool {
    a.len() <= b.len() && a.iter().zip(b).all(|(x, y)| x == y)
}
