//! Reference interpreter for VRL-core (DESIGN §2.4 `interp`) on a harness-owned AST with a
//! printer. It implements the wording of properties C06–C09/C13: `return` unwinds to the program
//! (or to the current closure iteration), `abort` unwinds to the program and cannot be caught,
//! `??` / `ok, err =` catch errors only, untaken operands/branches are not evaluated, closure
//! parameters are restored on every exit path. Anything outside its domain yields
//! `Ctl::Unmodelled` and the case is skipped (counted), never judged.

use super::tree::{self, Seg};
use crate::vv;
use std::collections::BTreeMap;
use vrl::value::{KeyString, Value};

#[derive(Clone, Debug, PartialEq)]
pub enum Tgt {
    Var(String, Vec<Seg>),
    Ev(Vec<Seg>),
    Meta(Vec<Seg>),
    Noop,
}

#[derive(Clone, Debug, PartialEq)]
pub enum P {
    Lit(Value),
    Var(String, Vec<Seg>),
    Ev(Vec<Seg>),
    Meta(Vec<Seg>),
    Arr(Vec<P>),
    Obj(Vec<(String, P)>),
    Bin(&'static str, Box<P>, Box<P>),
    Not(Box<P>),
    /// if / else-if chain: (predicate, block) pairs and an optional else block
    If(Vec<(P, Vec<P>)>, Option<Vec<P>>),
    Block(Vec<P>),
    Set(Tgt, Box<P>),
    /// `ok, err = e`
    SetErr(Tgt, Tgt, Box<P>),
    /// `t |= e`
    Merge(Tgt, Box<P>),
    Abort(Option<Box<P>>),
    Return(Box<P>),
    /// builtin call; the flag is the `!` (abort-on-error) marker
    Call(&'static str, Vec<P>, bool),
    /// `del(.path)` / `del(var.path)`
    Del(Tgt),
    Exists(Tgt),
    /// closure-taking call: name, collection, parameter names, body
    Closure(&'static str, Box<P>, Vec<String>, Vec<P>),
}

// ---------------------------------------------------------------------------------------------
// Printer (fully parenthesised; one statement per line)

fn field_text(f: &str) -> String {
    let plain = !f.is_empty() && f.chars().all(|c| c.is_ascii_alphanumeric() || c == '_') && !f.chars().next().unwrap().is_ascii_digit();
    if plain { f.to_string() } else { vv::str_lit(f) }
}

pub fn segs_text(segs: &[Seg], leading_dot: bool) -> String {
    let mut s = String::new();
    for (i, seg) in segs.iter().enumerate() {
        match seg {
            Seg::F(f) => {
                if i > 0 || leading_dot {
                    s.push('.');
                }
                s.push_str(&field_text(f));
            }
            Seg::I(n) => s.push_str(&format!("[{n}]")),
        }
    }
    s
}

pub fn tgt_text(t: &Tgt) -> String {
    match t {
        Tgt::Var(n, segs) => format!("{n}{}", segs_text(segs, true)),
        Tgt::Ev(segs) => {
            if segs.is_empty() {
                ".".into()
            } else if matches!(segs[0], Seg::I(_)) {
                format!(".{}", segs_text(segs, false))
            } else {
                segs_text(segs, true)
            }
        }
        Tgt::Meta(segs) => {
            if segs.is_empty() {
                "%".into()
            } else {
                format!("%{}", segs_text(segs, false))
            }
        }
        Tgt::Noop => "_".into(),
    }
}

pub fn block_text(b: &[P]) -> String {
    let items: Vec<String> = b.iter().map(text).collect();
    format!("{{ {} }}", items.join("; "))
}

/// An expression in operand position (operator operand, array element, object value, call argument, predicate):
/// `if`, `abort` and `return` only parse there inside a block, assignments inside a group.
fn operand(p: &P) -> String {
    match p {
        P::If(..) | P::Abort(..) | P::Return(..) => format!("{{ {} }}", text(p)),
        P::Set(..) | P::SetErr(..) | P::Merge(..) => format!("({})", text(p)),
        _ => text(p),
    }
}

pub fn text(p: &P) -> String {
    match p {
        P::Lit(v) => vv::lit(v).expect("literal must be printable"),
        P::Var(n, segs) => tgt_text(&Tgt::Var(n.clone(), segs.clone())),
        P::Ev(segs) => tgt_text(&Tgt::Ev(segs.clone())),
        P::Meta(segs) => tgt_text(&Tgt::Meta(segs.clone())),
        P::Arr(items) => format!("[{}]", items.iter().map(operand).collect::<Vec<_>>().join(", ")),
        P::Obj(items) => format!("{{ {} }}", items.iter().map(|(k, v)| format!("{}: {}", vv::str_lit(k), operand(v))).collect::<Vec<_>>().join(", ")),
        P::Bin(op, a, b) => format!("({} {op} {})", operand(a), operand(b)),
        P::Not(a) => format!("!({})", operand(a)),
        P::If(arms, els) => {
            let mut s = String::new();
            for (i, (pred, blk)) in arms.iter().enumerate() {
                if i > 0 {
                    s.push_str(" else ");
                }
                s.push_str(&format!("if {} {}", operand(pred), block_text(blk)));
            }
            if let Some(e) = els {
                s.push_str(&format!(" else {}", block_text(e)));
            }
            s
        }
        P::Block(b) => block_text(b),
        P::Set(t, e) => format!("{} = {}", tgt_text(t), text(e)),
        P::SetErr(ok, err, e) => format!("{}, {} = {}", tgt_text(ok), tgt_text(err), text(e)),
        P::Merge(t, e) => format!("{} |= {}", tgt_text(t), text(e)),
        P::Abort(None) => "abort".into(),
        P::Abort(Some(m)) => format!("abort {}", text(m)),
        P::Return(e) => format!("return {}", text(e)),
        P::Call(name, args, bang) => {
            format!("{name}{}({})", if *bang { "!" } else { "" }, args.iter().map(operand).collect::<Vec<_>>().join(", "))
        }
        P::Del(t) => format!("del({})", tgt_text(t)),
        P::Exists(t) => format!("exists({})", tgt_text(t)),
        P::Closure(name, coll, params, body) => {
            format!("{name}({}) -> |{}| {}", operand(coll), params.join(", "), block_text(body))
        }
    }
}

pub fn program_text(stmts: &[P]) -> String {
    stmts.iter().map(text).collect::<Vec<_>>().join("\n")
}

// ---------------------------------------------------------------------------------------------
// Interpreter

#[derive(Clone, Debug, PartialEq)]
pub enum Ctl {
    Error,
    Abort(Option<String>),
    Return(Value),
    /// outside the model's domain: the case is skipped
    Unmodelled(String),
}

/// The default stored by `ok, err =` on failure depends on the static type of the right-hand
/// side, which the model does not compute: comparisons treat this sentinel as a wildcard.
pub fn wildcard() -> Value {
    Value::from("\u{1}$WILDCARD$\u{1}")
}

pub fn is_wild(v: &Value) -> bool {
    *v == wildcard()
}

/// Equality up to wildcards (anywhere in the model value).
pub fn matches_model(model: &Value, real: &Value) -> bool {
    if is_wild(model) {
        return true;
    }
    match (model, real) {
        (Value::Array(a), Value::Array(b)) => a.len() == b.len() && a.iter().zip(b).all(|(x, y)| matches_model(x, y)),
        (Value::Object(a), Value::Object(b)) => {
            a.len() == b.len() && a.iter().zip(b).all(|((ka, x), (kb, y))| ka == kb && matches_model(x, y))
        }
        _ => model == real,
    }
}

#[derive(Clone, Debug, PartialEq)]
pub struct World {
    pub vars: BTreeMap<String, Value>,
    pub event: Value,
    pub metadata: Value,
    /// error-message strings are not modelled: `err` receives this marker on failure
    pub steps: u64,
}

pub fn err_marker() -> Value {
    Value::from("\u{1}$ERRMSG$\u{1}")
}

type R = Result<Value, Ctl>;

fn truthy_for_or(v: &Value) -> bool {
    !matches!(v, Value::Null | Value::Boolean(false))
}

fn unm<T>(what: &str) -> Result<T, Ctl> {
    Err(Ctl::Unmodelled(what.to_string()))
}

impl World {
    pub fn new(event: Value, metadata: Value) -> Self {
        Self { vars: BTreeMap::new(), event, metadata, steps: 0 }
    }

    fn read(&self, t: &Tgt) -> R {
        Ok(match t {
            Tgt::Var(n, segs) => match self.vars.get(n) {
                Some(v) => tree::get(v, segs).cloned().unwrap_or(Value::Null),
                None => return unm("read of unbound variable"),
            },
            Tgt::Ev(segs) => tree::get(&self.event, segs).cloned().unwrap_or(Value::Null),
            Tgt::Meta(segs) => tree::get(&self.metadata, segs).cloned().unwrap_or(Value::Null),
            Tgt::Noop => return unm("read of _"),
        })
    }

    fn write(&mut self, t: &Tgt, v: Value) -> Result<(), Ctl> {
        match t {
            Tgt::Var(n, segs) => {
                if segs.is_empty() {
                    self.vars.insert(n.clone(), v);
                } else {
                    let Some(cur) = self.vars.get_mut(n) else { return unm("path assignment to unbound variable") };
                    tree::insert(cur, segs, v);
                }
            }
            Tgt::Ev(segs) => {
                if segs.is_empty() {
                    if !matches!(v, Value::Object(_)) {
                        return unm("root assignment of a non-object");
                    }
                    self.event = v;
                } else {
                    tree::insert(&mut self.event, segs, v);
                }
            }
            Tgt::Meta(segs) => {
                if segs.is_empty() {
                    if !matches!(v, Value::Object(_)) {
                        return unm("metadata root assignment of a non-object");
                    }
                    self.metadata = v;
                } else {
                    tree::insert(&mut self.metadata, segs, v);
                }
            }
            Tgt::Noop => {}
        }
        Ok(())
    }

    pub fn block(&mut self, b: &[P]) -> R {
        let mut last = Value::Null;
        for p in b {
            last = self.eval(p)?;
        }
        Ok(last)
    }

    /// Run a whole program: `return` ends it successfully.
    pub fn run(&mut self, stmts: &[P]) -> R {
        match self.block(stmts) {
            Err(Ctl::Return(v)) => Ok(v),
            r => r,
        }
    }

    #[allow(clippy::too_many_lines)]
    pub fn eval(&mut self, p: &P) -> R {
        self.steps += 1;
        match p {
            P::Lit(v) => Ok(v.clone()),
            P::Var(n, segs) => self.read(&Tgt::Var(n.clone(), segs.clone())),
            P::Ev(segs) => self.read(&Tgt::Ev(segs.clone())),
            P::Meta(segs) => self.read(&Tgt::Meta(segs.clone())),
            P::Arr(items) => {
                let mut out = Vec::new();
                for i in items {
                    out.push(self.eval(i)?);
                }
                Ok(Value::Array(out))
            }
            P::Obj(items) => {
                let mut out = BTreeMap::new();
                for (k, v) in items {
                    let v = self.eval(v)?;
                    out.insert(KeyString::from(k.as_str()), v);
                }
                Ok(Value::Object(out))
            }
            P::Not(a) => match self.eval(a)? {
                Value::Boolean(b) => Ok(Value::Boolean(!b)),
                _ => unm("! on non-boolean"),
            },
            P::Bin(op, a, b) => self.bin(op, a, b),
            P::If(arms, els) => {
                for (pred, blk) in arms {
                    match self.eval(pred)? {
                        Value::Boolean(true) => return self.block(blk),
                        Value::Boolean(false) => {}
                        _ => return unm("non-boolean if predicate"),
                    }
                }
                match els {
                    Some(e) => self.block(e),
                    None => Ok(Value::Null),
                }
            }
            P::Block(b) => self.block(b),
            P::Set(t, e) => {
                let v = self.eval(e)?;
                self.write(t, v.clone())?;
                Ok(v)
            }
            P::SetErr(ok, err, e) => match self.eval(e) {
                Ok(v) => {
                    self.write(ok, v.clone())?;
                    self.write(err, Value::Null)?;
                    Ok(v)
                }
                Err(Ctl::Error) => {
                    self.write(ok, static_default(e).unwrap_or_else(wildcard))?;
                    self.write(err, err_marker())?;
                    Ok(err_marker())
                }
                Err(c) => Err(c),
            },
            P::Merge(t, e) => {
                let rhs = self.eval(e)?;
                let cur = self.read(t)?;
                match (cur, rhs) {
                    (Value::Object(mut a), Value::Object(b)) => {
                        for (k, v) in b {
                            a.insert(k, v);
                        }
                        let v = Value::Object(a);
                        self.write(t, v.clone())?;
                        Ok(v)
                    }
                    _ => unm("|= on non-objects"),
                }
            }
            P::Abort(m) => {
                let msg = match m {
                    None => None,
                    Some(e) => match self.eval(e)? {
                        Value::Bytes(b) => Some(String::from_utf8_lossy(&b).to_string()),
                        _ => return unm("non-string abort message"),
                    },
                };
                Err(Ctl::Abort(msg))
            }
            P::Return(e) => {
                let v = self.eval(e)?;
                Err(Ctl::Return(v))
            }
            P::Del(t) => Ok(match t {
                Tgt::Ev(segs) if !segs.is_empty() => tree::remove(&mut self.event, segs, false).unwrap_or(Value::Null),
                Tgt::Meta(segs) if !segs.is_empty() => tree::remove(&mut self.metadata, segs, false).unwrap_or(Value::Null),
                Tgt::Var(n, segs) if !segs.is_empty() => {
                    let Some(cur) = self.vars.get_mut(n) else { return unm("del on unbound variable") };
                    tree::remove(cur, segs, false).unwrap_or(Value::Null)
                }
                _ => return unm("del of a root"),
            }),
            P::Exists(t) => Ok(Value::Boolean(match t {
                Tgt::Ev(segs) => tree::get(&self.event, segs).is_some(),
                Tgt::Meta(segs) => tree::get(&self.metadata, segs).is_some(),
                Tgt::Var(n, segs) => match self.vars.get(n) {
                    Some(v) => tree::get(v, segs).is_some(),
                    None => return unm("exists on unbound variable"),
                },
                Tgt::Noop => return unm("exists(_)"),
            })),
            P::Call(name, args, bang) => {
                let mut vals = Vec::new();
                for a in args {
                    vals.push(self.eval(a)?);
                }
                match builtin(name, &vals) {
                    Err(Ctl::Error) if *bang => Err(Ctl::Error),
                    r => r,
                }
            }
            P::Closure(name, coll, params, body) => self.closure(name, coll, params, body),
        }
    }

    fn bin(&mut self, op: &str, a: &P, b: &P) -> R {
        match op {
            "??" => match self.eval(a) {
                Err(Ctl::Error) => self.eval(b),
                r => r,
            },
            "||" => {
                let l = self.eval(a)?;
                if truthy_for_or(&l) { Ok(l) } else { self.eval(b) }
            }
            "&&" => {
                let l = self.eval(a)?;
                match l {
                    Value::Null | Value::Boolean(false) => Ok(Value::Boolean(false)),
                    Value::Boolean(true) => match self.eval(b)? {
                        Value::Boolean(x) => Ok(Value::Boolean(x)),
                        Value::Null => Ok(Value::Boolean(false)),
                        _ => unm("&& with non-boolean right operand"),
                    },
                    _ => unm("&& with non-boolean left operand"),
                }
            }
            "==" | "!=" => {
                let l = self.eval(a)?;
                let r = self.eval(b)?;
                // structural equality; int/float cross comparisons stay out of the grammars
                if matches!((&l, &r), (Value::Integer(_), Value::Float(_)) | (Value::Float(_), Value::Integer(_))) {
                    return unm("mixed numeric equality");
                }
                Ok(Value::Boolean((l == r) == (op == "==")))
            }
            "<" | "<=" | ">" | ">=" => {
                let l = self.eval(a)?;
                let r = self.eval(b)?;
                let ord = match (&l, &r) {
                    (Value::Integer(x), Value::Integer(y)) => x.cmp(y),
                    (Value::Bytes(x), Value::Bytes(y)) => x.as_ref().cmp(y.as_ref()),
                    _ => return unm("ordering on unsupported operands"),
                };
                use std::cmp::Ordering::{Equal, Greater, Less};
                Ok(Value::Boolean(match op {
                    "<" => ord == Less,
                    "<=" => ord != Greater,
                    ">" => ord == Greater,
                    _ => ord != Less,
                }))
            }
            "+" | "-" | "*" | "/" => {
                let l = self.eval(a)?;
                let r = self.eval(b)?;
                arith(op, &l, &r)
            }
            _ => unm("operator"),
        }
    }

    fn closure(&mut self, name: &str, coll: &P, params: &[String], body: &[P]) -> R {
        let c = self.eval(coll)?;
        // snapshot of the outer bindings of the parameter names (restored on EVERY exit path)
        let saved: Vec<(String, Option<Value>)> = params.iter().map(|p| (p.clone(), self.vars.get(p).cloned())).collect();
        let r = self.closure_inner(name, c, params, body);
        for (p, old) in saved {
            if p == "_" || p.starts_with('_') && false {
                continue;
            }
            match old {
                Some(v) => {
                    self.vars.insert(p, v);
                }
                None => {
                    self.vars.remove(&p);
                }
            }
        }
        r
    }

    fn iteration(&mut self, params: &[String], args: &[Value], body: &[P]) -> R {
        for (p, a) in params.iter().zip(args) {
            if p != "_" {
                self.vars.insert(p.clone(), a.clone());
            }
        }
        match self.block(body) {
            Err(Ctl::Return(v)) => Ok(v),
            r => r,
        }
    }

    fn closure_inner(&mut self, name: &str, c: Value, params: &[String], body: &[P]) -> R {
        // iteration is over a copy of the collection taken before the first iteration
        let items: Vec<(Value, Value)> = match &c {
            Value::Object(o) => o.iter().map(|(k, v)| (Value::from(k.as_str()), v.clone())).collect(),
            Value::Array(a) => a.iter().enumerate().map(|(i, v)| (Value::Integer(i as i64), v.clone())).collect(),
            _ => return unm("closure over a non-collection"),
        };
        let is_obj = matches!(c, Value::Object(_));
        match name {
            "for_each" => {
                for (k, v) in items {
                    self.iteration(params, &[k, v], body)?;
                }
                Ok(Value::Null)
            }
            "filter" => {
                let mut keep = Vec::new();
                for (k, v) in items {
                    match self.iteration(params, &[k.clone(), v.clone()], body)? {
                        Value::Boolean(true) => keep.push((k, v)),
                        Value::Boolean(false) => {}
                        _ => return unm("filter closure returning a non-boolean"),
                    }
                }
                Ok(if is_obj {
                    Value::Object(keep.into_iter().map(|(k, v)| (KeyString::from(k.as_str().unwrap().as_ref()), v)).collect())
                } else {
                    Value::Array(keep.into_iter().map(|(_, v)| v).collect())
                })
            }
            "map_values" => {
                let mut out = Vec::new();
                for (k, v) in items {
                    if matches!(v, Value::Object(_) | Value::Array(_)) {
                        return unm("map_values over nested collections");
                    }
                    let nv = self.iteration(params, &[v], body)?;
                    out.push((k, nv));
                }
                Ok(if is_obj {
                    Value::Object(out.into_iter().map(|(k, v)| (KeyString::from(k.as_str().unwrap().as_ref()), v)).collect())
                } else {
                    Value::Array(out.into_iter().map(|(_, v)| v).collect())
                })
            }
            "map_keys" => {
                if !is_obj {
                    return unm("map_keys over an array");
                }
                let mut out = BTreeMap::new();
                for (k, v) in items {
                    if matches!(v, Value::Object(_)) {
                        return unm("map_keys over nested objects");
                    }
                    match self.iteration(params, &[k], body)? {
                        Value::Bytes(b) => {
                            out.insert(KeyString::from(String::from_utf8_lossy(&b).as_ref()), v);
                        }
                        _ => return unm("map_keys closure returning a non-string"),
                    }
                }
                Ok(Value::Object(out))
            }
            _ => unm("closure function"),
        }
    }
}

/// The documented default of the (single) static type of a fallible expression, where the model
/// can tell it from the syntax alone; None = not determined (compared as a wildcard).
pub fn static_default(p: &P) -> Option<Value> {
    match p {
        P::Call("to_int" | "int" | "length", _, _) => Some(Value::Integer(0)),
        P::Call("string" | "to_string" | "upcase" | "downcase", _, _) => Some(Value::from("")),
        P::Call("bool", _, _) => Some(Value::Boolean(false)),
        P::Call("array", _, _) => Some(Value::Array(vec![])),
        P::Call("object", _, _) => Some(Value::Object(BTreeMap::new())),
        P::Bin("/", _, _) => Some(vv::f(0.0)),
        P::Block(b) => b.last().and_then(static_default),
        _ => None,
    }
}

pub fn arith(op: &str, l: &Value, r: &Value) -> R {
    use Value::{Bytes, Float, Integer, Null};
    let num = |v: &Value| match v {
        Integer(i) => Some(*i as f64),
        Float(f) => Some(f.into_inner()),
        _ => None,
    };
    let fl = |x: f64| if x.is_nan() { Err(Ctl::Error) } else { Ok(vv::f(x)) };
    match (op, l, r) {
        ("+", Integer(x), Integer(y)) => Ok(Integer(((*x as i128) + (*y as i128)) as i64)),
        ("-", Integer(x), Integer(y)) => Ok(Integer(((*x as i128) - (*y as i128)) as i64)),
        ("*", Integer(x), Integer(y)) => Ok(Integer(((*x as i128).wrapping_mul(*y as i128)) as i64)),
        ("/", _, _) if num(l).is_some() && num(r).is_some() => {
            let (x, y) = (num(l).unwrap(), num(r).unwrap());
            if y == 0.0 { Err(Ctl::Error) } else { fl(x / y) }
        }
        ("+", _, _) if num(l).is_some() && num(r).is_some() => fl(num(l).unwrap() + num(r).unwrap()),
        ("-", _, _) if num(l).is_some() && num(r).is_some() => fl(num(l).unwrap() - num(r).unwrap()),
        ("*", _, _) if num(l).is_some() && num(r).is_some() => fl(num(l).unwrap() * num(r).unwrap()),
        ("+", Bytes(x), Bytes(y)) => Ok(Bytes([x.as_ref(), y.as_ref()].concat().into())),
        ("+", Bytes(x), Null) | ("+", Null, Bytes(x)) => Ok(Bytes(x.clone())),
        // any other combination is a runtime type error in VRL
        ("+" | "-" | "*" | "/", _, _) => Err(Ctl::Error),
        _ => unm("arith"),
    }
}

fn builtin(name: &str, a: &[Value]) -> R {
    use Value::{Array, Boolean, Bytes, Integer, Null, Object};
    match (name, a) {
        ("to_int", [v]) => match v {
            Integer(i) => Ok(Integer(*i)),
            Boolean(b) => Ok(Integer(i64::from(*b))),
            Null => Ok(Integer(0)),
            Bytes(b) => {
                let s = String::from_utf8_lossy(b);
                // only plain decimal digit strings / clearly non-numeric strings are modelled
                if !s.is_empty() && s.chars().all(|c| c.is_ascii_digit()) && s.len() < 18 {
                    Ok(Integer(s.parse().unwrap()))
                } else if !s.is_empty() && s.chars().all(|c| c.is_ascii_alphabetic()) {
                    Err(Ctl::Error)
                } else {
                    unm("to_int on an ambiguous string")
                }
            }
            Array(_) | Object(_) => Err(Ctl::Error),
            _ => unm("to_int operand"),
        },
        ("to_string", [v]) => match v {
            Integer(i) => Ok(Value::from(i.to_string())),
            Boolean(b) => Ok(Value::from(b.to_string())),
            Null => Ok(Value::from("")),
            Bytes(b) => Ok(Bytes(b.clone())),
            Array(_) | Object(_) => Err(Ctl::Error),
            _ => unm("to_string operand"),
        },
        ("upcase", [Bytes(b)]) => match std::str::from_utf8(b) {
            Ok(s) if s.is_ascii() => Ok(Value::from(s.to_ascii_uppercase())),
            _ => unm("upcase on non-ASCII"),
        },
        ("upcase", [_]) => Err(Ctl::Error),
        ("downcase", [Bytes(b)]) => match std::str::from_utf8(b) {
            Ok(s) if s.is_ascii() => Ok(Value::from(s.to_ascii_lowercase())),
            _ => unm("downcase on non-ASCII"),
        },
        ("downcase", [_]) => Err(Ctl::Error),
        ("length", [v]) => match v {
            Bytes(b) if b.is_ascii() => Ok(Integer(b.len() as i64)),
            Array(x) => Ok(Integer(x.len() as i64)),
            Object(x) => Ok(Integer(x.len() as i64)),
            Bytes(_) => unm("length on non-ASCII"),
            _ => Err(Ctl::Error),
        },
        ("string", [v]) => if matches!(v, Bytes(_)) { Ok(v.clone()) } else { Err(Ctl::Error) },
        ("int", [v]) => if matches!(v, Integer(_)) { Ok(v.clone()) } else { Err(Ctl::Error) },
        ("bool", [v]) => if matches!(v, Boolean(_)) { Ok(v.clone()) } else { Err(Ctl::Error) },
        ("array", [v]) => if matches!(v, Array(_)) { Ok(v.clone()) } else { Err(Ctl::Error) },
        ("object", [v]) => if matches!(v, Object(_)) { Ok(v.clone()) } else { Err(Ctl::Error) },
        ("is_null", [v]) => Ok(Boolean(matches!(v, Null))),
        ("is_string", [v]) => Ok(Boolean(matches!(v, Bytes(_)))),
        ("push", [Array(x), v]) => {
            let mut x = x.clone();
            x.push(v.clone());
            Ok(Array(x))
        }
        ("push", [_, _]) => Err(Ctl::Error),
        // functions with OPTIONAL (defaulted) parameters, passed positionally
        ("round", [Integer(i), Integer(_)]) => Ok(Integer(*i)),
        ("contains" | "starts_with", [Bytes(h), Bytes(n), Boolean(cs)]) if h.is_ascii() && n.is_ascii() => {
            let (h, n) = (String::from_utf8_lossy(h).to_string(), String::from_utf8_lossy(n).to_string());
            let (h, n) = if *cs { (h, n) } else { (h.to_ascii_lowercase(), n.to_ascii_lowercase()) };
            Ok(Boolean(if name == "contains" { h.contains(&n) } else { h.starts_with(&n) }))
        }
        ("replace", [Bytes(v), Bytes(pat), Bytes(with), Integer(count)]) if v.is_ascii() && pat.is_ascii() && with.is_ascii() && !pat.is_empty() => {
            let (v, pat, with) = (String::from_utf8_lossy(v), String::from_utf8_lossy(pat), String::from_utf8_lossy(with));
            Ok(Value::from(match *count {
                c if c > 0 => v.replacen(pat.as_ref(), &with, c as usize),
                c if c < 0 => v.replace(pat.as_ref(), &with),
                _ => v.to_string(),
            }))
        }
        ("join", [Array(items), Bytes(sep)]) if items.iter().all(|i| matches!(i, Bytes(_))) => {
            let parts: Vec<String> = items.iter().map(|i| String::from_utf8_lossy(i.as_bytes().unwrap()).to_string()).collect();
            Ok(Value::from(parts.join(&String::from_utf8_lossy(sep))))
        }
        ("assert", [Boolean(true)]) => Ok(Boolean(true)),
        ("assert", [Boolean(false)]) => Err(Ctl::Error),
        _ => unm("builtin"),
    }
}

// AST construction helpers ---------------------------------------------------------------------

pub fn lit_i(i: i64) -> P {
    P::Lit(Value::Integer(i))
}
pub fn lit_s(s: &str) -> P {
    P::Lit(Value::from(s))
}
pub fn lit_b(b: bool) -> P {
    P::Lit(Value::Boolean(b))
}
pub fn null() -> P {
    P::Lit(Value::Null)
}
pub fn ev(path: &[&str]) -> P {
    P::Ev(path.iter().map(|f| Seg::F((*f).to_string())).collect())
}
pub fn ev_t(path: &[&str]) -> Tgt {
    Tgt::Ev(path.iter().map(|f| Seg::F((*f).to_string())).collect())
}
pub fn var(n: &str) -> P {
    P::Var(n.to_string(), vec![])
}
pub fn var_t(n: &str) -> Tgt {
    Tgt::Var(n.to_string(), vec![])
}
pub fn set(t: Tgt, e: P) -> P {
    P::Set(t, Box::new(e))
}
pub fn bin(op: &'static str, a: P, b: P) -> P {
    P::Bin(op, Box::new(a), Box::new(b))
}
pub fn call(name: &'static str, args: Vec<P>) -> P {
    P::Call(name, args, false)
}
pub fn call_bang(name: &'static str, args: Vec<P>) -> P {
    P::Call(name, args, true)
}
pub fn ret(e: P) -> P {
    P::Return(Box::new(e))
}
pub fn if_(pred: P, then: Vec<P>) -> P {
    P::If(vec![(pred, then)], None)
}
pub fn if_else(pred: P, then: Vec<P>, els: Vec<P>) -> P {
    P::If(vec![(pred, then)], Some(els))
}
pub fn marker(n: u32) -> P {
    set(Tgt::Ev(vec![Seg::F(format!("m{n}"))]), lit_i(1))
}
