//! Independent membership test `v ∈ K`, written only against Kind's public accessors.

use vrl::value::kind::{Field, Index};
use vrl::value::{Kind, Value};

/// Strict membership: every present element belongs to the kind recorded for its key (known
/// entry, else the unknown kind), and every *known* key that is absent must admit `undefined`.
pub fn member(v: &Value, k: &Kind) -> bool {
    why_not(v, k).is_none()
}

/// Root-lenient form: VRL upgrades a missing value to `null` on every read, so an expression
/// result / variable `null` is accepted where the kind says `undefined`.
pub fn member_lenient(v: &Value, k: &Kind) -> bool {
    if matches!(v, Value::Null) && k.contains_undefined() {
        return true;
    }
    member(v, k)
}

/// Explanation of a non-membership (path + reason), None if `v ∈ k`.
pub fn why_not(v: &Value, k: &Kind) -> Option<String> {
    let mut path = String::new();
    why(v, k, &mut path)
}

fn why(v: &Value, k: &Kind, path: &mut String) -> Option<String> {
    let fail = |path: &String, what: &str| Some(format!("at `{}`: {what}, kind is {k}", if path.is_empty() { "." } else { path }));
    match v {
        Value::Bytes(_) => (!k.contains_bytes()).then(|| fail(path, "bytes value")).flatten(),
        Value::Integer(_) => (!k.contains_integer()).then(|| fail(path, "integer value")).flatten(),
        Value::Float(_) => (!k.contains_float()).then(|| fail(path, "float value")).flatten(),
        Value::Boolean(_) => (!k.contains_boolean()).then(|| fail(path, "boolean value")).flatten(),
        Value::Timestamp(_) => (!k.contains_timestamp()).then(|| fail(path, "timestamp value")).flatten(),
        Value::Regex(_) => (!k.contains_regex()).then(|| fail(path, "regex value")).flatten(),
        Value::Null => (!k.contains_null()).then(|| fail(path, "null value")).flatten(),
        Value::Array(items) => {
            let Some(coll) = k.as_array() else { return fail(path, "array value") };
            let unknown = coll.unknown_kind();
            for (i, item) in items.iter().enumerate() {
                let ek = coll.known().get(&Index::from(i)).unwrap_or(&unknown);
                let len = path.len();
                path.push_str(&format!("[{i}]"));
                if !ek.contains_any_defined() {
                    let r = Some(format!("at `{path}`: element present, but kind {ek} admits no defined value"));
                    path.truncate(len);
                    return r;
                }
                if let Some(r) = why(item, ek, path) {
                    path.truncate(len);
                    return Some(r);
                }
                path.truncate(len);
            }
            for (idx, ek) in coll.known() {
                if idx.to_usize() >= items.len() && !ek.contains_undefined() {
                    return Some(format!("at `{path}[{}]`: element absent (len {}), but kind {ek} does not admit undefined", idx.to_usize(), items.len()));
                }
            }
            None
        }
        Value::Object(map) => {
            let Some(coll) = k.as_object() else { return fail(path, "object value") };
            let unknown = coll.unknown_kind();
            for (key, item) in map {
                let ek = coll.known().get(&Field::from(key.as_str())).unwrap_or(&unknown);
                let len = path.len();
                path.push_str(&format!(".{key:?}"));
                if !ek.contains_any_defined() {
                    let r = Some(format!("at `{path}`: field present, but kind {ek} admits no defined value"));
                    path.truncate(len);
                    return r;
                }
                if let Some(r) = why(item, ek, path) {
                    path.truncate(len);
                    return Some(r);
                }
                path.truncate(len);
            }
            for (field, ek) in coll.known() {
                if !map.contains_key(field.as_str()) && !ek.contains_undefined() {
                    return Some(format!("at `{path}.{:?}`: field absent, but kind {ek} does not admit undefined", field.as_str()));
                }
            }
            None
        }
    }
}
