//! Instrumented targets (DESIGN §2.6): `LoggingTarget` records every operation the runtime
//! performs on the target; its fault plan can make chosen operations fail or be skipped.

use std::cell::RefCell;
use vrl::compiler::{SecretTarget, Target, TargetValue};
use vrl::path::OwnedTargetPath;
use vrl::value::{Secrets, Value};

#[derive(Clone, Copy, Debug, PartialEq, Eq, PartialOrd, Ord)]
pub enum OpKind {
    Get,
    GetMut,
    Insert,
    Remove,
}

impl OpKind {
    pub fn name(self) -> &'static str {
        match self {
            OpKind::Get => "get",
            OpKind::GetMut => "get_mut",
            OpKind::Insert => "insert",
            OpKind::Remove => "remove",
        }
    }
    pub fn is_read(self) -> bool {
        matches!(self, OpKind::Get | OpKind::GetMut)
    }
}

#[derive(Clone, Debug, PartialEq)]
pub struct Op {
    pub kind: OpKind,
    pub path: OwnedTargetPath,
}

/// What to do with the n-th target operation of a run.
#[derive(Clone, Copy, Debug, PartialEq, Eq)]
pub enum Fault {
    /// Return `Err(..)` from the operation.
    Fail,
    /// Behave as the property prescribes for a rejected operation without reporting an error:
    /// a read finds nothing, a write/delete has no effect.
    Skip,
}

#[derive(Debug)]
pub struct LoggingTarget {
    pub inner: TargetValue,
    pub log: RefCell<Vec<Op>>,
    /// (operation index, fault)
    pub plan: Vec<(usize, Fault)>,
}

impl LoggingTarget {
    pub fn new(event: Value, metadata: Value) -> Self {
        Self { inner: TargetValue { value: event, metadata, secrets: Secrets::default() }, log: RefCell::new(Vec::new()), plan: Vec::new() }
    }
    pub fn with_plan(mut self, plan: Vec<(usize, Fault)>) -> Self {
        self.plan = plan;
        self
    }
    fn record(&self, kind: OpKind, path: &OwnedTargetPath) -> Option<Fault> {
        let mut log = self.log.borrow_mut();
        let idx = log.len();
        log.push(Op { kind, path: path.clone() });
        self.plan.iter().find(|(i, _)| *i == idx).map(|(_, f)| *f)
    }
    pub fn ops(&self) -> Vec<Op> {
        self.log.borrow().clone()
    }
}

impl Target for LoggingTarget {
    fn target_insert(&mut self, path: &OwnedTargetPath, value: Value) -> Result<(), String> {
        match self.record(OpKind::Insert, path) {
            Some(Fault::Fail) => Err("injected fault: insert rejected".into()),
            Some(Fault::Skip) => Ok(()),
            None => self.inner.target_insert(path, value),
        }
    }
    fn target_get(&self, path: &OwnedTargetPath) -> Result<Option<&Value>, String> {
        match self.record(OpKind::Get, path) {
            Some(Fault::Fail) => Err("injected fault: get rejected".into()),
            Some(Fault::Skip) => Ok(None),
            None => self.inner.target_get(path),
        }
    }
    fn target_get_mut(&mut self, path: &OwnedTargetPath) -> Result<Option<&mut Value>, String> {
        match self.record(OpKind::GetMut, path) {
            Some(Fault::Fail) => Err("injected fault: get_mut rejected".into()),
            Some(Fault::Skip) => Ok(None),
            None => self.inner.target_get_mut(path),
        }
    }
    fn target_remove(&mut self, path: &OwnedTargetPath, compact: bool) -> Result<Option<Value>, String> {
        match self.record(OpKind::Remove, path) {
            Some(Fault::Fail) => Err("injected fault: remove rejected".into()),
            Some(Fault::Skip) => Ok(None),
            None => self.inner.target_remove(path, compact),
        }
    }
}

impl SecretTarget for LoggingTarget {
    fn get_secret(&self, key: &str) -> Option<&str> {
        self.inner.get_secret(key)
    }
    fn insert_secret(&mut self, key: &str, value: &str) {
        self.inner.insert_secret(key, value);
    }
    fn remove_secret(&mut self, key: &str) {
        self.inner.remove_secret(key);
    }
}
