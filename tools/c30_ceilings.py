#!/usr/bin/env python3
"""tools/c30_ceilings.py <tier> <evidence.json>: record the per-root-cause failing-case counts of C30 as ceilings in
known_findings.json (run by hand on the unchanged tree only)."""
import json, sys
tier, ev = sys.argv[1], sys.argv[2]
counts = json.load(open(ev))['coverage']['violating_cases_by_root_cause']
k = json.load(open('/verif/known_findings.json'))
k.setdefault('clause_ceilings', {}).setdefault('C30', {})[tier] = counts
json.dump(k, open('/verif/known_findings.json', 'w'), indent=1, ensure_ascii=False)
print(tier, len(counts), 'clauses', sum(counts.values()), 'failing cases')
