#!/usr/bin/env python3
"""tools/builder_prompt.py <name> <ID> [<ID>…] -> prompt text for a builder sub-agent."""
import json, sys
name, ids = sys.argv[1], sys.argv[2:]
props = {json.loads(l)['id']: json.loads(l) for l in open('/verif/properties.jsonl')}
D = f"/var/tmp/vb-{name}"
out = [f"""You are a senior verification engineer. Your task: implement bounded-exhaustive property checks for the Rust crate `vrl`
(Vector Remap Language, source in /repo — READ-ONLY) inside an existing Rust harness. Your PRIVATE working copy of the harness is D={D}
(work only there; never touch /verif or /repo). Start by reading `{D}/tools/BUILDER_GUIDE.md` (conventions, build commands, what a good
check is) and then the harness files it names. `{D}/DESIGN.md` §3 has a short design paragraph for each property (search for the id, e.g. "**C22**");
treat it as a plan you may improve on, the PROPERTY TEXT below is the contract.

Implement checks for these properties: {', '.join(ids)}. One file per property (`{D}/harness/src/props/cNN.rs`), registered as the guide says.
Build and run each (`cd {D} && timeout 1500 bin/check CNN --tier quick`), look at the evidence file, and iterate until: the quick tier
finishes in < 40 s, enumerates a meaningfully large and edge-rich space, and every violation it prints on the unchanged tree has been
analysed by you (oracle too strict → fix the oracle; genuine vrl defect → keep reporting it and explain it in your final message).
Read the implementation files anchored in each property (under /repo/src) BEFORE choosing alphabets: put an input at every branch point you see.
Important: never use commands without `timeout`; do not run more than one cargo build at a time; do not delete {D}.

The properties (verbatim, fixed):
"""]
for i in ids:
    p = props[i]
    out.append(json.dumps({k: p[k] for k in ('id','title','statement','quantifier','why_tests_cant','anchors')}, indent=1))
print("\n".join(out))
