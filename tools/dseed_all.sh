#!/usr/bin/env bash
# every seed vs. the quick check of its own property (dev sandbox); output: work/matrix.txt
cd /var/tmp/dev/verif
: > work/matrix.txt
for d in /verif/seeded/*/; do
  id=$(basename $d); [ -f $d/patch.diff ] || continue
  case $id in *stale*) continue;; esac
  prop=${id%b}
  tools/dseed.sh $id $prop 2>&1 | cut -c1-260 | tee -a work/matrix.txt
done
