#!/usr/bin/env python3
import json, sys
pid = sys.argv[1]
wt = f"/tmp/wt-{pid}" if len(sys.argv) < 3 else sys.argv[2]
p = next(json.loads(l) for l in open('/verif/properties.jsonl') if json.loads(l)['id'] == pid)
print(f"""You are helping test a verification framework by planting a realistic bug ("seeded change") in a Rust library.

The library is vectordotdev/vrl (Vector Remap Language: lexer, parser, type-checking compiler, tree-walking runtime, stdlib). You have your OWN scratch git worktree of it at {wt} (detached HEAD; build output already warm in {wt}/target). Work ONLY inside {wt} and /tmp/seed-{pid}/ (create it). Never touch /repo or /verif, never read anything under /verif. There is no network; always pass --offline to cargo.

The semantic property that must hold for this library:

  Title: {p['title']}
  Statement: {p['statement']}
  Quantified over: {p['quantifier']['text']}

Your job: make ONE change to the library source (under {wt}/src, a few lines, realistic — the kind of slip a maintainer could make in a refactor or an "optimisation") that BREAKS this property, while
  (a) the crate still compiles without warnings-as-errors failures (src/lib.rs has deny(warnings)), and
  (b) the repository's existing test suite still passes completely. Run it exactly like this and make sure all tests pass (1898 tests, 0 failed):
        cd {wt} && cargo nextest run --workspace --no-fail-fast --tool-config-file pb:/w/lib/nextest.toml --profile pb --test-threads 8 --offline 2>&1 | tail -15
      (the first build takes several minutes; later ones are incremental).
  (c) the breakage needs something SPECIFIC to manifest — a particular multi-step sequence of operations, an unusual input (edge value, particular combination of options), a particular interleaving/history, or two cooperating code sites that each look fine alone. It must NOT be something ordinary use or the simplest example would expose at once. Do not edit or delete existing tests.

Then write a demonstration: a small standalone Rust integration test file at {wt}/tests/seed_demo.rs (uses only the public API of the `vrl` crate, e.g. vrl::compiler::compile / compile_with_external, vrl::compiler::runtime::Runtime, vrl::compiler::TargetValue, vrl::value::Value, vrl::stdlib::all(); look at existing files in {wt}/tests/ or benches for usage) that FAILS with your change and PASSES without it. Verify both directions yourself:
        cd {wt} && cargo test --offline --test seed_demo 2>&1 | tail -15          # must fail with the change
        git diff -- src > /tmp/seed-{pid}/patch.diff && git apply -R /tmp/seed-{pid}/patch.diff && cargo test --offline --test seed_demo ; git apply /tmp/seed-{pid}/patch.diff   # must pass without it
(NEVER use `git stash`: the stash is shared between all worktrees of the repository and other people are working in sibling worktrees. Make sure the source change is re-applied at the end.)

Deliverables, in /tmp/seed-{pid}/:
  - patch.diff : output of `git -C {wt} diff -- src` (ONLY the library source change, not the demo test)
  - seed_demo.rs : copy of the demonstration test
  - meta.json : {{"property": "{pid}", "summary": "<what the change does>", "needs": "<what specific input/sequence/condition is needed for it to manifest>", "ran": ["<commands you ran and their outcome, including the full-suite result line>"]}}

Finish by replying with a short report: the diff, why the existing tests do not notice it, what is needed to trigger it, and the exact outcome lines of (1) the full suite with the change, (2) the demo with the change, (3) the demo without the change. Be frugal with disk: do not create additional target directories. Use `timeout` on commands that could hang.""")
