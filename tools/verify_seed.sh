#!/usr/bin/env bash
# verify_seed.sh <id>...: confirm in a scratch worktree (/tmp/wt-verify, created on demand from /repo HEAD) that
#  the patch applies and compiles, the full suite passes with it, the demo fails with it and passes without it.
# Appends the outcome to /verif/seeded/<id>/confirm.txt. Sequential; remove the worktree afterwards with
#  git -C /repo worktree remove --force /tmp/wt-verify
set -u
WT=/tmp/wt-verify
if [ ! -d "$WT" ]; then
  git -C /repo worktree add --detach "$WT" HEAD >/dev/null 2>&1
  cp -a /repo/target "$WT/target"
fi
cd "$WT" || exit 2
git checkout -q --detach "$(git -C /repo rev-parse HEAD)"
for id in "$@"; do
  S=/verif/seeded/$id
  out="$S/confirm.txt"
  git checkout -q -- . ; rm -f tests/seed_demo.rs
  {
    echo "== $(date -u +%FT%TZ) base=$(git rev-parse --short HEAD)"
    if ! git apply "$S/patch.diff"; then echo "APPLY-FAILED"; continue; fi
    echo "-- full suite with the change (demo absent)"
    cargo nextest run --workspace --no-fail-fast --tool-config-file pb:/w/lib/nextest.toml --profile pb --test-threads 8 --offline 2>&1 | grep -E "Summary|FAIL|error(\[|:)" | head -20
    cp "$S/seed_demo.rs" tests/seed_demo.rs
    echo "-- demo with the change (expected: FAILED)"
    timeout 1800 cargo test --offline --test seed_demo 2>&1 | grep -E "^test result|^error" | head -5
    git apply -R "$S/patch.diff"
    echo "-- demo without the change (expected: ok)"
    timeout 1800 cargo test --offline --test seed_demo 2>&1 | grep -E "^test result|^error" | head -5
    rm -f tests/seed_demo.rs
  } >> "$out" 2>&1
  tail -8 "$out"
done
