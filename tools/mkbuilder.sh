#!/usr/bin/env bash
# tools/mkbuilder.sh <name>: private copy of the harness tree for a builder sub-agent, with a warm target dir.
set -e
N="$1"; D=/var/tmp/vb-$N
rm -rf "$D"; mkdir -p "$D"
rsync -a --exclude target --exclude .git --exclude work --exclude replays --exclude evidence /verif/ "$D/"
mkdir -p "$D/work" "$D/evidence" "$D/replays"
cp -r /verif/target "$D/target"
echo "$D"
