#!/usr/bin/env bash
# tools/seedtest.sh <seed-dir-name> <check-id>...: apply seeded/<name>/patch.diff to /repo, run the quick checks, undo.
# Prints one line per check: DETECTED (exit 1 with VIOLATION line) / missed (exit 0) / error.
cd /verif
S="seeded/$1"; shift
if ! git -C /repo diff --quiet; then echo "/repo has uncommitted changes"; exit 2; fi
if ! git -C /repo apply "$PWD/$S/patch.diff"; then echo "APPLY-FAILED $S"; exit 2; fi
trap 'git -C /repo checkout -- . ' EXIT
for id in "$@"; do
  out=$(VERIF_ROOT=/verif/work/seedrun timeout 3600 bin/check-at /verif/work/seedrun $id --tier ${TIER:-quick} 2>&1); rc=$?
  v=$(echo "$out" | grep -c '^VIOLATION')
  case $rc in
    1) echo "$S $id DETECTED ($v violation lines shown) :: $(echo "$out" | grep -m1 -A1 '^VIOLATION' | tail -1 | cut -c1-220)";;
    0) echo "$S $id missed :: $(echo "$out" | tail -1)";;
    *) echo "$S $id ERROR rc=$rc :: $(echo "$out" | tail -3 | tr '\n' ' ' | cut -c1-300)";;
  esac
done
