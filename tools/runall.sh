#!/usr/bin/env bash
# tools/runall.sh [tier] [ids...]: run every registered check (or the given ids), print one line each; validate evidence.
cd /verif
TIER="${1:-quick}"; shift
IDS="$@"; [ -z "$IDS" ] && IDS=$(python3 -c "import json;print(' '.join(c['property_id'] for c in json.load(open('MANIFEST.json'))['checks']))")
for id in $IDS; do
  s=$(date +%s)
  out=$(timeout 7200 bin/check $id --tier $TIER 2>&1); rc=$?
  e=$(( $(date +%s) - s ))
  echo "$id rc=$rc ${e}s $(echo "$out" | grep -c '^KNOWN-FINDING') known-lines; $(echo "$out" | grep -c '^VIOLATION') violation-lines; $(echo "$out" | tail -1)"
done
python3-vt - <<'PY'
import json,jsonschema,glob
sch=json.load(open('/root/.vp/EVIDENCE.schema.json'))
for f in sorted(glob.glob('/verif/evidence/*.json')):
    try: jsonschema.validate(json.load(open(f)),sch)
    except Exception as e: print('INVALID',f,str(e)[:200])
print('evidence validated')
PY
