#!/usr/bin/env bash
# dev copy of seedtest: operates on /var/tmp/dev/repo and /var/tmp/dev/verif only.
cd /var/tmp/dev/verif
S="/verif/seeded/$1"; shift
R=/var/tmp/dev/repo
if ! git -C $R diff --quiet; then echo "$R has uncommitted changes"; exit 2; fi
if ! git -C $R apply "$S/patch.diff"; then echo "APPLY-FAILED $S"; exit 2; fi
trap "git -C $R checkout -- . " EXIT
for id in "$@"; do
  out=$(timeout 3600 bin/check-at /var/tmp/dev/verif/work/seedrun $id --tier ${TIER:-quick} 2>&1); rc=$?
  v=$(echo "$out" | grep -c '^VIOLATION')
  case $rc in
    1) echo "$S $id DETECTED ($v violation lines shown) :: $(echo "$out" | grep -m1 -A1 '^VIOLATION' | tail -1 | cut -c1-220)";;
    0) echo "$S $id missed :: $(echo "$out" | tail -1)";;
    *) echo "$S $id ERROR rc=$rc :: $(echo "$out" | tail -3 | tr '\n' ' ' | cut -c1-300)";;
  esac
done
