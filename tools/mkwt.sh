#!/usr/bin/env bash
# mkwt.sh <name>: scratch worktree of /repo HEAD at /tmp/wt-<name> with a warm copy of the build output.
set -e
n="$1"
git -C /repo worktree add --detach "/tmp/wt-$n" HEAD >/dev/null 2>&1
cp -a /repo/target "/tmp/wt-$n/target"
echo "/tmp/wt-$n"
