#!/usr/bin/env bash
# tools/retriage.sh [--tier quick|thorough] <ID>...: regenerate the known-finding witness lists of the given
# properties from a fresh run on the CURRENT /repo tree (only ever run by hand on the unchanged tree, after review).
# For tier quick the lists are reset first; thorough witnesses are added to the same files.
cd /verif
TIER=quick; if [ "$1" = "--tier" ]; then TIER="$2"; shift 2; fi
for p in "$@"; do
  if [ "$TIER" = quick ]; then
    python3 - "$p" <<'PY'
import json,shutil,sys
p=sys.argv[1]
k=json.load(open('/verif/known_findings.json'))
k['findings']=[f for f in k['findings'] if f['property']!=p]
json.dump(k,open('/verif/known_findings.json','w'),indent=1,ensure_ascii=False)
shutil.rmtree(f'/verif/known/{p}',ignore_errors=True)
PY
  fi
  VERIF_EMIT_UNLISTED=/verif/work/$p.unlisted.$TIER.jsonl timeout 14400 target/release/vrlmc check $p --tier $TIER 2>&1 | tail -1
  python3 tools/triage.py $p work/$p.unlisted.$TIER.jsonl --apply 2>&1 | grep -E "unmatched|applied|refusing"
done
