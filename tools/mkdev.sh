#!/usr/bin/env bash
# tools/mkdev.sh: private sandbox for trying seeded changes / strengthenings while list regeneration runs on the real tree:
#   /var/tmp/dev/repo  = git worktree of /repo HEAD;  /var/tmp/dev/verif = copy of /verif whose harness depends on that worktree.
# Then: cd /var/tmp/dev/verif && tools/dseed.sh <seed> <IDs>   (applies /verif/seeded/<seed>/patch.diff to the private worktree only).
# ALWAYS pass VERIF_ROOT when calling the private vrlmc binary directly. Remove with: git -C /repo worktree remove --force /var/tmp/dev/repo; rm -rf /var/tmp/dev
set -e
mkdir -p /var/tmp/dev
git -C /repo worktree add --detach /var/tmp/dev/repo HEAD
rsync -a --exclude target --exclude work --exclude .git /verif/ /var/tmp/dev/verif/
sed -i 's#path = "/repo"#path = "/var/tmp/dev/repo"#' /var/tmp/dev/verif/harness/Cargo.toml
mkdir -p /var/tmp/dev/verif/work
