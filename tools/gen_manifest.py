#!/usr/bin/env python3
"""Regenerates /verif/MANIFEST.json from the table below (kept in one place so it stays valid)."""
import json, os, subprocess
ROOT = os.path.dirname(os.path.dirname(os.path.abspath(__file__)))

# id -> (engine, level, technique, text, note, design_ref)
CHECKS = {
 "C10": ("law-engine", "exploration", "exhaustive operand-pair enumeration against i64/IEEE/bytewise reference",
         "Every ordered pair of the per-kind operand alphabets (integers incl. 2^k±2 and i64 extremes, floats incl. ±0/±inf/2^53, byte strings incl. non-UTF-8, timestamps, nested values) is run through compiled `.a <op> .b` programs for all six comparison operators under an exact-kind and an `any` environment; verdicts are compared with a reference ordering, and trichotomy/negation/consistency are checked on the operators themselves.",
         "Reference = Rust's i64/f64/byte-slice/DateTime ordering; operands outside the alphabets are not covered.", "3.7"),
 "C11": ("law-engine", "exploration", "exhaustive operand-pair enumeration against i128/IEEE reference",
         "Every ordered operand pair (same alphabets plus null and repeat counts) × {+,-,*,/} × {exact-kind env, any env} is executed and compared with i128-then-truncate integer arithmetic, IEEE float arithmetic on converted operands, NaN⇒error, zero divisor⇒error, concatenation and max(n,0) repetition.",
         "Reference = Rust i128/f64 arithmetic; string repetition counts above 4096 are excluded (resource exhaustion is out of scope).", "3.7"),
}

PENDING_REASON = "check not built yet in this round (design in DESIGN.md §3); will be claimed once its engine exists"

def main():
    props = [json.loads(l) for l in open(os.path.join(ROOT, "properties.jsonl"))]
    checks, na = [], []
    for p in props:
        pid = p["id"]
        if pid in CHECKS:
            engine, level, tech, text, note, ref = CHECKS[pid]
            checks.append({
                "property_id": pid,
                "quick_cmd": f"bin/check {pid} --tier quick",
                "thorough_cmd": f"bin/check {pid} --tier thorough",
                "evidence_file": f"/verif/evidence/{pid}.json",
                "replay_cmd_template": "bin/check replay {path}",
                "engine": engine,
                "level_claimed": {"category": level, "text": text, "design_ref": f"DESIGN.md §{ref}"},
                "level_note": note,
                "technique": tech,
            })
        else:
            na.append({"property_id": pid, "reason": PENDING_REASON})
    hooks_commits = subprocess.run(["git", "-C", "/repo", "log", "--format=%H %s", "--grep=^verif hooks"],
                                   capture_output=True, text=True).stdout.strip().splitlines()
    m = {
        "version": 1,
        "setup_cmd": "cd /verif/harness && CARGO_NET_OFFLINE=true CARGO_TARGET_DIR=/verif/target cargo build --release --offline",
        "hooks": {
            "guard": "cargo feature `verif-hooks` of crate vrl (off by default)",
            "enable": "harness/Cargo.toml depends on vrl = { path = \"/repo\", features = [..., \"verif-hooks\"] }",
            "baseline_off_cmd": "cd /repo && cargo nextest run --workspace --no-fail-fast --tool-config-file pb:/w/lib/nextest.toml --profile pb --test-threads 8 --offline",
            "source_commits": [c.split()[0] for c in hooks_commits],
            "add_only": True,
        },
        "engines": [
            {"name": "law-engine", "path": "harness/src/props/ops.rs", "serves_properties": ["C10", "C11"],
             "kind_free_text": "flat exhaustive enumeration of operand tuples through compiled VRL snippets, compared with a reference model"},
        ],
        "checks": checks,
        "not_applicable": na,
        "notes": "All checks: bin/check <ID> --tier quick|thorough rebuilds the harness + /repo working tree (incremental) and runs the exhaustive enumeration; evidence is written by the harness itself.",
    }
    json.dump(m, open(os.path.join(ROOT, "MANIFEST.json"), "w"), indent=1)
    print(f"{len(checks)} checks, {len(na)} pending")

if __name__ == "__main__":
    main()
